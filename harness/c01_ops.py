"""C01 — operations that derive a region from a region or change a catalog through a region (Model/RegionOps.lean):
masked_region, __eq__, get_cartesian of a data vector, increase_grid_resolution, grid_spacing, and
CSEPCatalog.filter_spatial as a state machine (region argument / bound region, in_place, update_stats) over sequences of calls on
one catalog object. Every check has a direct oracle on the implementation's output (exact Fractions; 1e-9 relative on computed
coordinates) and, where a Lean op exists, a correspondence with the model (discrete outputs must agree; float outputs are
recorded as bit-exact or not)."""
import math
import random
from decimal import Decimal
from fractions import Fraction

import numpy

from .core import frac

# Input classes on which unchanged pyCSEP contradicts the property as read by this check; reported in notes/C01.md, kept out of
# the strict oracles until the integrator decides (fix: commit or known finding). The rest of each case is still checked.
AWAITING_DECISION = [
    "a NaN or -inf coordinate: get_masked / get_index_of / filter_spatial raise IndexError (bin1d_vec turns -inf + |p|*eps = nan into "
    "the minimum int64) instead of reporting the point outside the region; +inf is handled (masked) and is enforced",
]
# Decided after phase 1 (integrator): the refined origins `increase_grid_resolution` returns carry compute_vertex's `- eps`; a refined
# cell's own origin then lies a few 1e-16 below the cleaned edge and goes to the neighbouring cell. That is inside the documented
# round-off tolerance of the property (relative distance of order 1e-12 below a boundary): the band rule applies, no violation.
BAND_REL = 1e-12

REL = 1e-9


def _F(v):
    return Fraction(float(v))


def _ops_rng(rng, case_seed=None):
    seed = case_seed if case_seed is not None else rng.randrange(2 ** 32)
    return seed, random.Random(seed)


# ------------------------------------------------------------------------------------------------- masked_region
def _convex_polygon(orng, region, cells):
    """a convex polygon in lattice coordinates whose sides stay a quarter cell away from every cell midpoint: an axis-aligned
    rectangle or a rectangle with one corner cut; returns vertex list (floats) and an exact membership test for midpoints"""
    xs, ys, dh = [float(v) for v in region.xs], [float(v) for v in region.ys], float(region.dh)
    nx, ny = len(xs), len(ys)
    i0 = orng.randrange(0, nx)
    i1 = orng.randrange(i0, nx)
    j0 = orng.randrange(0, ny)
    j1 = orng.randrange(j0, ny)
    if orng.random() < 0.6:     # prefer windows of at least two columns and rows (a single one is the known finding D4)
        i0, i1 = min(i0, max(0, nx - 2)), max(i1, min(nx - 1, i0 + 1))
        j0, j1 = min(j0, max(0, ny - 2)), max(j1, min(ny - 1, j0 + 1))
        i1, j1 = max(i1, i0 + 1 if nx > 1 else i0), max(j1, j0 + 1 if ny > 1 else j0)
        i1, j1 = min(i1, nx - 1), min(j1, ny - 1)
    # the rectangle [xs[i0] + dh/4, xs[i1] + 3dh/4] x [ys[j0] + dh/4, ys[j1] + 3dh/4] contains the midpoints of columns i0..i1, rows j0..j1
    x0, x1 = xs[i0] + dh / 4, xs[i1] + 3 * dh / 4
    y0, y1 = ys[j0] + dh / 4, ys[j1] + 3 * dh / 4
    verts = [(x0, y0), (x1, y0), (x1, y1), (x0, y1)]
    cut = None
    if orng.random() < 0.4 and i1 > i0 and j1 > j0:
        # cut the upper right corner along the anti-diagonal through the corner cell's upper-left/lower-right quarter points:
        # removes exactly the corner cell (i1, j1) (its midpoint is dh/4 beyond the cut line, all others at least dh/4 inside)
        verts = [(x0, y0), (x1, y0), (x1, y1 - dh), (x1 - dh, y1), (x0, y1)]
        cut = (i1, j1)

    def inside(i, j):
        return i0 <= i <= i1 and j0 <= j <= j1 and (i, j) != cut
    return verts, inside, (i0, i1, j0, j1, cut)


def _close_to_boundary(o, p, tol):
    for axis, v in ((o.ax, p[0]), (o.ay, p[1])):
        for b in axis.e + [float(axis.top)]:
            if abs(v - b) <= tol + 64 * math.ulp(b):
                return True
    return False


def check_masked(run, drv, pending, base, region, cells, flags, orc, pts, ans, orng, seed):
    from csep.core.regions import masked_region, CartesianGrid2D
    from csep.models import Polygon
    from csep.utils.calc import bin1d_vec
    from . import c01
    n = len(region.polygons)
    verts, inside, win = _convex_polygon(orng, region, cells)
    case = dict(base, points=[], what="ops:masked_region", ops_seed=seed, polygon=[[repr(a), repr(b)] for a, b in verts])
    exp_keep = [inside(i, j) for (i, j) in cells]
    run.case(None, None)
    run.count("ops:masked_region")
    if not any(exp_keep):
        run.count("ops:masked_region-nothing-kept (skipped)")
        return
    try:
        poly = Polygon(verts)
        contains = [bool(v) for v in poly.contains(region.midpoints())]
        new = masked_region(region, poly)
    except Exception as e:
        run.oracle_failure(case, f"masked_region raised {type(e).__name__}: {e}")
        return
    if contains != exp_keep:
        k = next(k for k in range(n) if contains[k] != exp_keep[k])
        run.oracle_failure(case, f"Polygon.contains(midpoints)[{k}] = {contains[k]} for the midpoint {region.midpoints()[k].tolist()!r}, "
                                 f"which lies {'inside' if exp_keep[k] else 'outside'} the polygon by a quarter cell")
        return
    kept = [k for k in range(n) if exp_keep[k]]
    bad = None
    if not isinstance(new, CartesianGrid2D) or len(new.polygons) != len(kept):
        bad = f"masked_region returned {len(getattr(new, 'polygons', []))} polygons, the polygon contains {len(kept)} cell midpoints"
    elif any(new.polygons[a] is not region.polygons[k] and
             [float(v) for v in new.polygons[a].origin] != [float(v) for v in region.polygons[k].origin] for a, k in enumerate(kept)):
        bad = "the polygons of the masked region are not the kept polygons of the region in their order"
    elif float(new.dh) != float(region.dh):
        bad = f"masked region has dh={new.dh!r}, the region {region.dh!r}"
    if bad:
        run.oracle_failure(case, bad)
        return
    # the new region, judged on its own: lattice coordinates relative to its bounding box; no mask is handed on
    imin = min(cells[k][0] for k in kept)
    jmin = min(cells[k][1] for k in kept)
    ncells = [(cells[k][0] - imin, cells[k][1] - jmin) for k in kept]
    nx2, ny2 = len(new.xs), len(new.ys)
    if nx2 != max(c[0] for c in ncells) + 1 or ny2 != max(c[1] for c in ncells) + 1:
        run.oracle_failure(case, f"masked region has a {nx2} x {ny2} bounding box, its cells span "
                                 f"{max(c[0] for c in ncells) + 1} x {max(c[1] for c in ncells) + 1} lattice positions")
        return
    # `masked_region` hands no mask on (every kept cell is active in the new region); a tree that carries the flags of the kept
    # cells over is accepted as well — the property fixes the partition of the region AS BUILT, judged on its own flags
    npm = getattr(new, "poly_mask", None)
    nflags = [1] * len(kept) if npm is None else [1 if m == 1 else 0 for m in npm]
    norc = c01.Oracle(new, ncells, nflags)
    lons = numpy.array([p[0] for p in pts])
    lats = numpy.array([p[1] for p in pts])
    try:
        nans, nmasked, problems = c01.impl_answers(new, pts)
    except Exception as e:
        run.oracle_failure(case, f"lookup in the masked region raised {type(e).__name__}: {e}")
        return
    tolb = 1e-9 * float(region.dh)
    pos_of = {k: a for a, k in enumerate(kept)}
    last_old = {}
    for k, c in enumerate(cells):
        last_old[c] = k
    fails = 0
    for k, (p, a) in enumerate(zip(pts, nans)):
        allowed, exact, inband = norc.allowed(p[0], p[1])
        run.case(None, ("masked", seed, p[0], p[1]) if (inband or a == "o") else None)
        if a not in allowed:
            fx, fy = Fraction(p[0]), Fraction(p[1])
            d4 = a != "o" and ((nx2 == 1 and fx >= norc.ax.top) or (ny2 == 1 and fy >= norc.ay.top))
            if d4:
                sx = {0} if (nx2 == 1 and fx >= norc.ax.top) else norc.ax.allowed(p[0])[0]
                sy = {0} if (ny2 == 1 and fy >= norc.ay.top) else norc.ay.allowed(p[1])[0]
                d4 = a in set().union(*[norc.at_set(i, j) for i in sx for j in sy])
            run.count("known-D4" if d4 else "ORACLE-FAIL-masked")
            if fails < 3:
                run.oracle_failure(dict(case, points=[[repr(p[0]), repr(p[1])]]),
                                   f"masked region attributes ({p[0]!r}, {p[1]!r}) to {a!r}; the property allows {sorted(map(str, allowed))}",
                                   signature=c01.D4 if d4 else None)
            fails += 1
            continue
        # restriction (theorem masked_region_same_cell): away from the bands of BOTH regions, a point the old region attributes to
        # a kept polygon is attributed to that polygon; a point in no kept cell is outside
        oallowed, oexact, oinband = orc.allowed(p[0], p[1])
        if inband or oinband or _close_to_boundary(orc, p, tolb) or _close_to_boundary(norc, p, tolb):
            # the two regions generate their edge arrays from different bounding boxes: with origins a few ulps off the decimal
            # lattice the same boundary may differ by a few ulps between them; each region is judged on its own edges above
            continue
        ex = orc.ax.exact(p[0], Fraction(p[0]))
        ey = orc.ay.exact(p[1], Fraction(p[1]))
        owner = last_old.get((ex, ey)) if ex is not None and ey is not None else None
        # the kept polygons listed at that position (masked_region drops the mask: every kept polygon is active)
        at_pos = [kk for kk in kept if cells[kk] == (ex, ey)] if owner is not None else []
        exp = pos_of[at_pos[-1]] if at_pos else "o"
        if exp != "o" and nflags[exp] != 1:
            exp = "o"        # (a carried-over flag)
        if len(at_pos) > 1 and a in {pos_of[kk] for kk in at_pos}:
            continue         # the position is listed several times: any of its kept polygons (see Oracle.at_set)
        if (nx2 == 1 or ny2 == 1) and a != exp:
            continue      # single row / column: D4 (already judged by the new region's own oracle above)
        if a != exp and fails < 3:
            run.count("ORACLE-FAIL-masked")
            run.oracle_failure(dict(case, points=[[repr(p[0]), repr(p[1])]]),
                               f"masked region attributes ({p[0]!r}, {p[1]!r}) to new polygon {a!r}; the kept cell of the old region "
                               f"containing it is new polygon {exp!r} (old answer {ans[k]!r})")
            fails += 1
    # model
    org = numpy.asarray(region.origins(), dtype=float)
    norg = numpy.asarray(new.origins(), dtype=float)
    mids = numpy.asarray(new.midpoints(), dtype=float)
    hx = bin1d_vec(mids[:, 0], new.xs)
    hy = bin1d_vec(mids[:, 1], new.ys)
    # the model builds its polygons with compute_vertex(origin, dh): only for regions whose polygons are made that way
    line = " ".join(["c01_masked", ",".join(frac(v) for v in org[:, 0]), ",".join(frac(v) for v in org[:, 1]), frac(float(region.dh)),
                     ",".join("1" if c else "0" for c in contains),
                     "auto", "auto", "auto"])     # round 4: the decimals are computed by the model
    q = drv.ask(line)
    pending.append(dict(kind="ops-masked", q=q, case=case, xs=[_F(v) for v in new.xs], ys=[_F(v) for v in new.ys],
                        hash=[f"{int(a)}:{int(b)}" for a, b in zip(hx, hy)], kept=kept))


def flush_masked(run, rec, line):
    from . import c01
    toks = line.split(" ")
    if len(toks) != 4:
        run.mismatch(rec["case"], "c01_masked", line[:200])
        return
    xs, ys, hs, kept = toks
    G = lambda s: [] if s == "-" else [Fraction(v) for v in s.split(",")]
    xs, ys = G(xs), G(ys)
    if len(xs) != len(rec["xs"]) or len(ys) != len(rec["ys"]):
        run.mismatch(rec["case"], f"masked region {len(rec['xs'])} x {len(rec['ys'])}", f"{len(xs)} x {len(ys)}")
        return
    if hs.split(",") != rec["hash"]:
        run.mismatch(rec["case"], "hash " + ",".join(rec["hash"])[:200], hs[:200])
    if [int(v) for v in kept.split(",")] != rec["kept"]:
        run.mismatch(rec["case"], f"kept polygons {rec['kept'][:30]}", kept[:200])
    c01._bits(run, xs == rec["xs"] and ys == rec["ys"], "masked_region xs/ys")


# ------------------------------------------------------------------------------------------------- __eq__, get_cartesian(data)
def check_eq_cartesian(run, base, spec, region, cells, flags, orc, orng, seed):
    from csep.core.regions import CartesianGrid2D
    n = len(region.polygons)
    case = dict(base, points=[], what="ops:eq/get_cartesian", ops_seed=seed)
    run.case(None, None)
    run.count("ops:eq/get_cartesian")
    # get_cartesian of a data vector: entry (row j, column i) is the datum of the polygon the partition puts there, nan elsewhere
    data = numpy.array([orng.choice([0.0, -1.5, 2.25, 1e-300, 7.0]) if orng.random() < 0.3 else orng.uniform(-5, 5) for _ in range(n)])
    forms = [("array", data), ("list", [float(v) for v in data])]
    if orng.random() < 0.5:
        forms.append(("int array", numpy.arange(n, dtype=numpy.int64) * 3 - 7))
    for fname, d in forms:
        try:
            g = numpy.asarray(region.get_cartesian(d), dtype=float)
        except Exception as e:
            run.oracle_failure(case, f"get_cartesian({fname}) raised {type(e).__name__}: {e}")
            return
        nx, ny = len(region.xs), len(region.ys)
        if g.shape != (ny, nx):
            run.oracle_failure(case, f"get_cartesian({fname}) has shape {g.shape}, the bounding box is {ny} x {nx}")
            return
        for j in range(ny):
            for i in range(nx):
                k = orc.at(i, j)
                v = g[j, i]
                S = orc.at_set(i, j)        # (a lattice position listed several times: any of its polygons, see Oracle.at_set)
                if len(S) > 1 and ((math.isnan(v) and "o" in S) or any(a != "o" and float(d[a]) == float(v) for a in S)):
                    continue
                if (k == "o") != bool(math.isnan(v)) or (k != "o" and float(d[k]) != float(v)):
                    run.oracle_failure(case, f"get_cartesian({fname})[{j}, {i}] = {v!r}; the partition puts polygon {k!r} there "
                                             f"(datum {None if k == 'o' else float(d[k])!r})")
                    return
    try:        # a data vector of the wrong length is outside the property: rejected today (assert); observed, not judged
        region.get_cartesian(numpy.zeros(n + 1))
        run.count("get_cartesian: data vector of the wrong length accepted (not judged)")
    except Exception:
        run.count("get_cartesian: data vector of the wrong length rejected")
    # __eq__: a region equals a region rebuilt from its origins and dh; equal regions (no mask) are the same partition;
    # different origins or spacing are never equal
    if spec.get("kind") == "shipped" or n > 400:
        return
    org = numpy.asarray(region.origins(), dtype=float)
    try:
        twin = CartesianGrid2D.from_origins(org.copy(), dh=region.dh, name=region.name)
        eq = bool(region == twin)
        ne = []
        if n >= 2:
            perm = org[::-1].copy()
            other = CartesianGrid2D.from_origins(perm, dh=region.dh, name=region.name)
            # reversed polygon order: other indices — equal only if the origin lists coincide
            # (whether `==` looks at the ORDER of the cells is not the property's business: the same cells in another order are the
            # same partition with other indices — either verdict is accepted unless the lists coincide)
            ne.append(("reversed polygon order", other, True if numpy.array_equal(perm, org) else None))
        shifted = org + numpy.array([float(region.dh), 0.0])
        ne.append(("origins shifted by one cell", CartesianGrid2D.from_origins(shifted, dh=region.dh, name=region.name), False))
        if n > 1:
            ne.append(("last polygon dropped", CartesianGrid2D.from_origins(org[:-1].copy(), dh=region.dh, name=region.name), False))
        res = [(what, bool(region == o), bool(o == region), expect) for what, o, expect in ne]
    except Exception as e:
        run.oracle_failure(case, f"from_origins / == raised {type(e).__name__}: {e}")
        return
    if not eq:
        run.oracle_failure(case, "a region does not compare equal to the region rebuilt from its own origins, dh and name")
    for what, a, b, expect in res:
        if expect is None:
            if a != b:
                run.oracle_failure(case, f"region == region with {what} is not symmetric: {a} / {b}")
            continue
        if a != expect or b != expect:
            run.oracle_failure(case, f"region == region with {what} is {a} / {b} (expected {expect})")
    if getattr(region, "poly_mask", None) is None and spec.get("mask") is None:
        if not (numpy.array_equal(twin.xs, region.xs) and numpy.array_equal(twin.ys, region.ys) and
                numpy.array_equal(twin.bbox_mask, region.bbox_mask) and
                numpy.array_equal(numpy.nan_to_num(twin.idx_map, nan=-1.0), numpy.nan_to_num(region.idx_map, nan=-1.0))):
            run.oracle_failure(case, "two regions that compare equal (same origins, dh, no mask) have different edge arrays / bbox_mask / idx_map")


# ------------------------------------------------------------------------------------------------- increase_grid_resolution, grid_spacing
def check_incres(run, drv, pending, base, spec, region, cells, orng, seed):
    from csep.core.regions import increase_grid_resolution, CartesianGrid2D, grid_spacing
    from . import c01
    case = dict(base, points=[], what="ops:increase_grid_resolution", ops_seed=seed)
    run.case(None, None)
    run.count("ops:increase_grid_resolution")
    org = numpy.asarray(region.origins(), dtype=float)
    # distinct lattice positions only (duplicates collapse in the function's set), at most 40 cells
    seen, sel = set(), []
    for k, c in enumerate(cells):
        if c not in seen:
            seen.add(c)
            sel.append(k)
    if len(sel) > 40:
        sel = sorted(orng.sample(sel, 40))
    pts = org[sel]
    dh = float(region.dh)
    factor = orng.choice([1, 2, 2, 4, 4, 8, 3, 6, 0])
    if factor == 8 and len(sel) > 12:
        factor = 4
    form = orng.choice(["array", "list", "tuples"])
    arg = pts.copy() if form == "array" else ([list(map(float, p)) for p in pts] if form == "list" else [tuple(map(float, p)) for p in pts])
    try:
        out = increase_grid_resolution(arg, dh, factor)
        res = "ok"
    except AssertionError:
        res = "AssertionError"
    except Exception as e:
        res = "EXC:" + type(e).__name__
    valid = factor >= 1 and (factor & (factor - 1)) == 0
    line = " ".join(["c01_incres", ",".join(frac(v) for v in pts[:, 0]), ",".join(frac(v) for v in pts[:, 1]), frac(dh), f"{factor}/1"])
    q = drv.ask(line)
    rec = dict(kind="ops-incres", q=q, case=dict(case, factor=factor, form=form), res=res, out=None)
    pending.append(rec)
    if not valid:
        # a factor that is no power of two is outside the documented domain ("must be a multiple of 2"): the code asserts; any
        # rejection (AssertionError, ValueError, …) is accepted, and so is a tree that handles such a factor (not judged)
        rec["invalid"] = True
        run.count("increase_grid_resolution: invalid factor " + ("rejected" if res != "ok" else "handled (not judged)"))
        return
    if res != "ok":
        run.oracle_failure(rec["case"], f"increase_grid_resolution(factor={factor}) raised {res}")
        return
    new = numpy.array([[float(a), float(b)] for a, b in out], dtype=float).reshape(-1, 2)
    rec["out"] = sorted((_F(a), _F(b)) for a, b in new)
    f2 = factor * factor
    ndh = dh / factor
    # direct oracle: exactly factor^2 sub-origins per cell, each within 1e-9 of origin + (a, b) * dh / factor
    exp = numpy.array([[o[0] + a * ndh, o[1] + b * ndh] for o in pts for a in range(factor) for b in range(factor)])
    scale = max(1.0, float(numpy.abs(exp).max()))
    if len(new) != len(exp):
        run.oracle_failure(rec["case"], f"increase_grid_resolution(factor={factor}) returned {len(new)} points for {len(pts)} cells (expected {len(exp)})")
        return
    x0, y0 = exp[:, 0].min(), exp[:, 1].min()
    key = lambda z: numpy.lexsort((numpy.rint((z[:, 1] - y0) / ndh).astype(numpy.int64), numpy.rint((z[:, 0] - x0) / ndh).astype(numpy.int64)))
    a = new[key(new)]
    b = exp[key(exp)]
    if numpy.abs(a - b).max() > REL * scale:
        k = int(numpy.argmax(numpy.abs(a - b).max(axis=1)))
        run.oracle_failure(rec["case"], f"increase_grid_resolution(factor={factor}): point {a[k].tolist()!r} is not a sub-origin "
                                        f"(nearest expected {b[k].tolist()!r}, spacing {ndh!r})")
        return
    if factor == 1:
        return
    # the refined region: every fine cell's midpoint lies in its parent cell of the coarse region, factor^2 per parent
    # (theorem refinement_partition), and is attributed to the fine cell itself
    # (until fix D49 the refined region was skipped in the class "noisy spacing, coarse anchor"; now enforced)
    try:
        fine = CartesianGrid2D.from_origins(a.copy(), dh=ndh)
        coarse = CartesianGrid2D.from_origins(pts.copy(), dh=dh)
        mids = numpy.asarray(fine.midpoints(), dtype=float)
        own = fine.get_index_of(mids[:, 0], mids[:, 1])
        par = coarse.get_index_of(mids[:, 0], mids[:, 1])
    except Exception as e:
        run.oracle_failure(rec["case"], f"region of the refined origins: {type(e).__name__}: {e}")
        return
    if not numpy.array_equal(own, numpy.arange(len(a))):
        k = int(numpy.argmax(own != numpy.arange(len(a))))
        run.oracle_failure(rec["case"], f"midpoint of refined cell {k} ({mids[k].tolist()!r}) is attributed to cell {int(own[k])}")
        return
    cnt = numpy.bincount(par, minlength=len(pts))
    if len(pts) > 1 and (len(coarse.xs) > 1 and len(coarse.ys) > 1) and not numpy.all(cnt == f2):
        run.oracle_failure(rec["case"], f"refined cells per parent cell: {sorted(set(cnt.tolist()))} (expected {f2} each)")
        return
    # own-origin lookup of the refined cells: the origin must go to its own cell, or — band rule of the property — to the
    # neighbour below when it lies within the documented relative tolerance 1e-12 below the cleaned edge
    try:
        m = fine.get_masked(a[:, 0], a[:, 1])
        oi = numpy.full(len(a), -1)
        if (~m).any():
            oi[~m] = fine.get_index_of(a[~m, 0], a[~m, 1])
    except Exception as e:
        run.oracle_failure(rec["case"], f"own-origin lookup in the refined region raised {type(e).__name__}: {e}")
        return
    badk = numpy.nonzero(oi != numpy.arange(len(a)))[0]
    fxs, fys = numpy.asarray(fine.xs, dtype=float), numpy.asarray(fine.ys, dtype=float)
    for k in badk:
        ok = oi[k] >= 0
        if ok:
            # the cell it went to must be the one just below/left (or diagonal) and the origin must be in the band of its own edge
            for v, edges, w in ((a[k, 0], fxs, a[oi[k], 0]), (a[k, 1], fys, a[oi[k], 1])):
                j = int(numpy.argmin(numpy.abs(edges - v)))
                d = edges[j] - v                    # > 0: the origin lies below the cleaned edge
                tolv = BAND_REL * max(abs(v), ndh)
                if not (abs(d) <= tolv and (abs(w - v) <= tolv or abs((v - w) - ndh) <= 2 * tolv)):
                    ok = False
        if not ok:
            run.oracle_failure(rec["case"], f"origin {a[k].tolist()!r} of refined cell {int(k)} is attributed to cell {int(oi[k])} "
                                            f"(origin {a[oi[k]].tolist() if oi[k] >= 0 else None!r}): not its own cell and not within the round-off band below its edge")
            return
    if len(badk):
        run.count("in-band: refined cell's own origin (origin + dh/2 - eps) attributed to the neighbour below", int(len(badk)))
    # grid_spacing on two vertices of the lattice: a diagonal step gives the spacing, a repeated point and a non-square step are rejected
    o = pts[0]
    for what, v0, v1, expect in (("diagonal", (o[0], o[1]), (o[0] + dh, o[1] + dh), "dh"),
                                 ("same point", (o[0], o[1]), (o[0], o[1]), "ValueError"),
                                 ("non-square", (o[0], o[1]), (o[0] + dh, o[1] + 3 * dh), "ValueError")):
        try:
            g = float(grid_spacing([v0, v1]))
            got = "dh" if abs(g - dh) <= REL * max(1.0, abs(dh)) else repr(g)
        except Exception:
            got = "ValueError"       # any rejection of a degenerate / non-square step counts as the documented ValueError
        if got != expect:
            run.oracle_failure(dict(case, what="ops:grid_spacing"), f"grid_spacing({what}: {v0!r}, {v1!r}) gave {got}, expected {expect} (dh={dh!r})")


def flush_incres(run, rec, line):
    from . import c01
    if rec.get("invalid"):
        return            # outside the documented domain: nothing to compare
    if line == "AssertionError" or rec["res"] != "ok":
        if (line == "AssertionError") != (rec["res"] != "ok"):
            run.mismatch(rec["case"], rec["res"], line[:100])
        return
    toks = line.split(" ")
    if len(toks) != 3 or rec["out"] is None:
        if rec["out"] is not None:
            run.mismatch(rec["case"], "increase_grid_resolution", line[:100])
        return
    G = lambda s: [] if s == "-" else [Fraction(v) for v in s.split(",")]
    mod = sorted(set(zip(G(toks[1]), G(toks[2]))))
    if len(mod) != len(rec["out"]):
        run.mismatch(rec["case"], f"{len(rec['out'])} refined origins", f"{len(mod)}")
        return
    c01._bits(run, mod == rec["out"], "increase_grid_resolution")


# ------------------------------------------------------------------------------------------------- filter_spatial state machine
def check_filter_sessions(run, drv, pending, base, spec, region, cells, flags, orc, pts, ans, exact_only, orng, seed, nsess=2):
    from csep.core.regions import CartesianGrid2D
    from csep.core.catalogs import CSEPCatalog
    from csep.core.exceptions import CSEPCatalogException
    n = len(region.polygons)
    if n > 3000:
        return
    # region B: the same polygons with another mask (so the survivors differ from region A's)
    maskB = [1 if orng.random() < 0.6 else 0 for _ in range(n)]
    try:
        regB = CartesianGrid2D(region.polygons, region.dh, mask=maskB)
    except Exception as e:
        run.oracle_failure(dict(base, points=[], what="ops:filter_spatial"), f"CartesianGrid2D(polygons, dh, mask) raised {type(e).__name__}: {e}")
        return
    regs = {"a": region, "b": regB, "n": None}
    fl = {"a": flags, "b": maskB}
    act = {}
    for t in ("a", "b"):
        s = set()
        for c, f in zip(cells, fl[t]):
            if f == 1:
                s.add(c)
        act[t] = s
    pool = sorted(exact_only)
    # single column / row regions: points beyond the open upper side are the known finding D4 (judged by the main oracle)
    if len(region.xs) == 1:
        pool = [k for k in pool if Fraction(pts[k][0]) < orc.ax.top]
    if len(region.ys) == 1:
        pool = [k for k in pool if Fraction(pts[k][1]) < orc.ay.top]
    if not pool:
        return
    for _ in range(nsess):
        ids = [orng.choice(pool) for _ in range(orng.randint(0, 25))]
        ev = [pts[k] for k in ids]
        pos = []
        for p in ev:
            pos.append((orc.ax.exact(p[0], Fraction(p[0])), orc.ay.exact(p[1], Fraction(p[1]))))
        bound = orng.choice(["a", "b", "n", "n"])
        cstats = orng.random() < 0.6
        ops = []
        for _ in range(orng.randint(2, 5)):
            ops.append(orng.choice(["a", "b", "n", "n"]) + ("1" if orng.random() < 0.5 else "0") + ("1" if orng.random() < 0.55 else "0"))
        case = dict(base, points=[[repr(p[0]), repr(p[1])] for p in ev], what="ops:filter_spatial", ops_seed=seed,
                    bound=bound, compute_stats=cstats, ops=ops)
        run.case(None, ("filter-session", seed, tuple(ops), bound, len(ev)))
        run.count("ops:filter_spatial-session")
        data = [(str(k), 1000 * k, float(lat), float(lon), 10.0, 5.0) for k, (lon, lat) in enumerate(ev)]
        try:
            cat = CSEPCatalog(data=data, region=regs[bound], compute_stats=cstats)
        except Exception as e:
            run.oracle_failure(case, f"CSEPCatalog(...) raised {type(e).__name__}: {e}")
            continue
        cur = list(range(len(ev)))      # oracle: event numbers currently in `cat`
        cur_reg = bound
        quirk = False
        impl = []
        ok = True
        for op in ops:
            r, us, ip = op[0], op[1] == "1", op[2] == "1"
            eff = r if r != "n" else cur_reg
            try:
                out = cat.filter_spatial(region=regs[r], update_stats=us, in_place=ip)
                got = "ok"
            except CSEPCatalogException:
                got = "E"
            except Exception as e:
                got = "EXC:" + type(e).__name__
            if eff == "n":
                if got != "E":
                    run.oracle_failure(dict(case, at_op=op), f"filter_spatial without any region gave {got} (expected CSEPCatalogException)")
                    ok = False
                    break
                impl.append("E")
                continue
            if got != "ok":
                run.oracle_failure(dict(case, at_op=op), f"filter_spatial({op}) raised {got}")
                ok = False
                break
            surv = [k for k in cur if pos[k][0] is not None and pos[k][1] is not None and pos[k] in act[eff]]
            self_ids = [int(i) for i in cat.get_event_ids()]
            out_ids = [int(i) for i in out.get_event_ids()]
            exp_self = surv if ip else cur
            which = "a" if cat.region is regs["a"] else ("b" if cat.region is regs["b"] else ("n" if cat.region is None else "?"))
            whicho = "a" if out.region is regs["a"] else ("b" if out.region is regs["b"] else "?")
            problem = None
            if out_ids != surv:
                problem = f"returned catalog holds events {out_ids[:20]}, the events inside region {eff} are {surv[:20]}"
            elif self_ids != exp_self:
                problem = f"the catalog itself holds events {self_ids[:20]} afterwards, expected {exp_self[:20]} (in_place={ip})"
            elif whicho != eff or (which != eff and not ((not ip) and r != "n" and which == cur_reg)):
                problem = f"region bound afterwards: catalog {which}, returned catalog {whicho}; expected {eff}"
            elif ip and out is not cat:
                problem = "in_place=True did not return the catalog itself"
            elif (not ip) and out is cat:
                problem = "in_place=False returned the catalog itself"
            if problem is None and us:
                st = [getattr(out, a, None) for a in ("min_longitude", "max_longitude", "min_latitude", "max_latitude")]
                if surv:
                    lo = [float(ev[k][0]) for k in surv]
                    la = [float(ev[k][1]) for k in surv]
                    est = [min(lo), max(lo), min(la), max(la)]
                    if any(s is None for s in st) or [float(s) for s in st] != est:
                        problem = f"update_stats=True: statistics {st!r} are not those of the surviving events {est!r}"
                elif any(s is not None for s in st):
                    problem = f"update_stats=True on an empty result: statistics {st!r}"
            if problem is None and out.event_count != len(surv):
                problem = f"event_count {out.event_count} of the returned catalog, {len(surv)} events survive"
            if problem:
                run.count("ORACLE-FAIL-filter-session")
                run.oracle_failure(dict(case, at_op=op), f"filter_spatial(region={r}, update_stats={us}, in_place={ip}): {problem}")
                ok = False
                break
            impl.append((exp_self, eff, surv, us))
            if ip:
                cur = surv
            if which != eff:
                # in_place=False with a region argument: the current code re-binds the CALLER's catalog to the argument too (although
                # the docstring says "preserving state"); a tree that leaves the caller's binding alone is accepted — the property
                # fixes which events the RETURNED catalog holds and that an in-place call binds. The session goes on with the binding
                # the object really has; the state-machine model (which re-binds) is then not compared.
                quirk = True
                run.count("filter_spatial(in_place=False, region=R) left the caller's binding alone (accepted)")
                cur_reg = which
            else:
                cur_reg = eff
        if not ok:
            continue
        # the survivors can be counted: spatial_counts after filtering never raises (theorem filter_then_lookup_total)
        if cur_reg != "n" and cat.region is not None:
            try:
                c2 = CSEPCatalog(data=[data[k] for k in cur], region=regs[cur_reg]) if cur else None
                if c2 is not None:
                    c2.filter_spatial()
                    sc = c2.spatial_counts()
                    if int(round(float(numpy.sum(sc)))) != c2.event_count:
                        run.oracle_failure(case, f"spatial_counts after filter_spatial sums to {float(numpy.sum(sc))!r} for {c2.event_count} events")
            except ValueError:
                run.oracle_failure(case, "spatial_counts raised ValueError on a catalog that was spatially filtered with its own region")
        line = " ".join(["c01_filter", ",".join(frac(x) for x in region.xs), ",".join(frac(y) for y in region.ys),
                         ",".join(str(i) for i, _ in cells), ",".join(str(j) for _, j in cells),
                         ",".join(str(1 if f == 1 else 0) for f in flags), ",".join(str(f) for f in maskB),
                         ",".join(frac(p[0]) for p in ev) if ev else "-", ",".join(frac(p[1]) for p in ev) if ev else "-",
                         bound, "1" if cstats else "0", ";".join(ops)])
        if quirk:
            continue
        q = drv.ask(line)
        pending.append(dict(kind="ops-filter", q=q, case=case, impl=impl, ev=ev,
                            same=[1 if f == 1 else 0 for f in flags] == maskB))


def flush_filter(run, rec, line):
    toks = line.split(" ")
    impl, ev = rec["impl"], rec["ev"]
    if len(toks) != len(impl):
        run.mismatch(rec["case"], f"{len(impl)} ops", line[:200])
        return
    P = lambda ids: [(Fraction(ev[k][0]), Fraction(ev[k][1])) for k in ids]
    Q = lambda s: [] if s == "-" else [tuple(Fraction(v) for v in t.split(":")) for t in s.split(",")]
    for op, (im, t) in enumerate(zip(impl, toks)):
        if im == "E" or t == "E":
            if im != t:
                run.mismatch(dict(rec["case"], at=op), str(im)[:100], t[:100])
            continue
        f = t.split("!")
        if len(f) != 4:
            run.mismatch(dict(rec["case"], at=op), "op result", t[:100])
            continue
        exp_self, eff, surv, us = im
        if Q(f[0]) != P(exp_self) or (f[1] != eff and not rec["same"]) or Q(f[2]) != P(surv):
            run.mismatch(dict(rec["case"], at=op), f"self={exp_self} region={eff} out={surv}",
                         f"self={len(Q(f[0]))} events region={f[1]} out={[ (float(a), float(b)) for a, b in Q(f[2])][:30]}")
            continue
        if us:
            if surv:
                lo = [Fraction(ev[k][0]) for k in surv]
                la = [Fraction(ev[k][1]) for k in surv]
                est = [min(lo), max(lo), min(la), max(la)]
            else:
                est = [None] * 4
            got = None if f[3] == "-" else [None if v == "N" else Fraction(v) for v in f[3].split(",")]
            if got != est:
                run.mismatch(dict(rec["case"], at=op, what="stats"), est, f[3])



# ------------------------------------------------------------------------------------------------- sessions on SHARED objects
def _snap(region):
    """every attribute of a region that the property says lookups / filters / counts must not change"""
    def b(a):
        a = numpy.asarray(a)
        return (a.shape, str(a.dtype), numpy.nan_to_num(a.astype(float), nan=-12345.0).tobytes())
    try:
        return (b(region.xs), b(region.ys), b(region.bbox_mask), b(region.idx_map), float(region.dh), len(region.polygons),
                None if getattr(region, "poly_mask", None) is None else tuple(int(m) for m in region.poly_mask),
                None if region.magnitudes is None else b(region.magnitudes), b(region.bounds),
                tuple(id(q) for q in region.polygons[:50]))
    except Exception as e:     # a region that lost an attribute has changed
        return ("EXC", type(e).__name__, str(e)[:80])


def check_shared_session(run, drv, pending, base, spec, region, cells, flags, orc, pts, ans, exact_only, orng, seed):
    """Several catalogs that SHARE region objects, an interleaved random sequence of public calls (spatial filters with every
    combination of region argument / update_stats / in_place — also with a region that has ANOTHER bounding box —, per-cell counts,
    index lookups, reads of the region, masked_region, to_dict edited by the caller), and after EVERY step: each catalog holds
    exactly the events the partition of its effective region keeps (recomputed from scratch), every other catalog is untouched,
    and no region object has changed (snapshot of all arrays)."""
    from csep.core.regions import CartesianGrid2D, masked_region
    from csep.core.catalogs import CSEPCatalog
    from csep.core.exceptions import CSEPCatalogException
    from csep.models import Polygon
    from . import c01
    n = len(region.polygons)
    if n > 3000 or len(region.xs) < 2 or len(region.ys) < 2:
        return
    case0 = dict(base, what="ops:shared_session", ops_seed=seed)
    org = numpy.asarray(region.origins(), dtype=float)
    maskB = [1 if orng.random() < 0.6 else 0 for _ in range(n)]
    # region C: a sub-lattice with its own (smaller) bounding box — the collection-region -> testing-region two-step cut
    pos_first = {}
    for k, c in enumerate(cells):
        pos_first.setdefault(c, k)
    distinct = sorted(pos_first.values())
    keepC = [k for k in distinct if orng.random() < 0.6]
    try:
        regB = CartesianGrid2D(region.polygons, region.dh, mask=maskB)
        regC = None
        if len(keepC) >= 2:
            regC = CartesianGrid2D.from_origins(org[keepC].copy(), dh=region.dh)
            if len(regC.xs) < 2 or len(regC.ys) < 2:
                regC = None
    except Exception as e:
        run.oracle_failure(dict(case0, points=[]), f"building the session's regions raised {type(e).__name__}: {e}")
        return
    regs = {"a": region, "b": regB, "c": regC, "n": None}
    tags = ["a", "b"] + (["c"] if regC is not None else [])
    if regC is not None:
        imin = min(cells[k][0] for k in keepC)
        jmin = min(cells[k][1] for k in keepC)
        orcC = c01.Oracle(regC, [(cells[k][0] - imin, cells[k][1] - jmin) for k in keepC], [1] * len(keepC))
    tolb = 1e-9 * float(region.dh)
    pool = sorted(exact_only)
    if regC is not None:
        pool = [k for k in pool if not orcC.allowed(pts[k][0], pts[k][1])[2] and not _close_to_boundary(orcC, pts[k], tolb)
                and not _close_to_boundary(orc, pts[k], tolb)]
    if len(pool) < 3:
        return
    ev = [pts[k] for k in (orng.choice(pool) for _ in range(orng.randint(3, 30)))]
    act = {}
    for t, fl in (("a", flags), ("b", maskB)):
        act[t] = {c for c, f in zip(cells, fl) if f == 1}
    inside = {"a": [], "b": [], "c": []}
    for p in ev:
        ex, ey = orc.ax.exact(p[0], Fraction(p[0])), orc.ay.exact(p[1], Fraction(p[1]))
        for t in ("a", "b"):
            inside[t].append(ex is not None and ey is not None and (ex, ey) in act[t])
        inside["c"].append(regC is not None and orcC.allowed(p[0], p[1])[1] != "o")
    data = [(str(k), 1000 * k, float(lat), float(lon), 10.0, 5.0) for k, (lon, lat) in enumerate(ev)]
    # catalogs: each a subset of the events, bound to a shared region (or to none)
    cats = []      # dict(obj, ids, reg, lean=list of ops or None)
    try:
        for _ in range(orng.randint(2, 3)):
            ids = sorted(set(orng.randrange(len(ev)) for _ in range(orng.randint(1, len(ev)))))
            bound = orng.choice(tags + ["n"])
            cs = orng.random() < 0.6
            cats.append(dict(obj=CSEPCatalog(data=[data[k] for k in ids], region=regs[bound], compute_stats=cs), ids=ids, reg=bound,
                             init=(list(ids), bound, cs), lean=[]))
    except Exception as e:
        run.oracle_failure(dict(case0, points=[]), f"CSEPCatalog(...) raised {type(e).__name__}: {e}")
        return
    snaps = {t: _snap(regs[t]) for t in tags}
    lon_all = numpy.array([p[0] for p in ev])
    lat_all = numpy.array([p[1] for p in ev])
    steps = []
    run.case(None, ("shared-session", seed))
    run.count("ops:shared-session")

    def fail(msg, step):
        run.count("ORACLE-FAIL-shared-session")
        run.oracle_failure(dict(case0, points=[[repr(p[0]), repr(p[1])] for p in ev], steps=steps + [step],
                                catalogs=[dict(events=c["init"][0], bound=c["init"][1], compute_stats=c["init"][2]) for c in cats if "init" in c]),
                           f"after step {len(steps) + 1} ({step}): {msg}")

    for _ in range(orng.randint(4, 9)):
        ci = orng.randrange(len(cats))
        c = cats[ci]
        kind = orng.choice(["filter", "filter", "filter", "counts", "idx", "read", "dict", "masked"])
        step = None
        try:
            if kind == "filter":
                r, us, ip = orng.choice(tags + ["n", "n"]), orng.random() < 0.5, orng.random() < 0.55
                step = f"cat{ci}.filter_spatial(region={r}, update_stats={us}, in_place={ip})"
                eff = r if r != "n" else c["reg"]
                try:
                    out = c["obj"].filter_spatial(region=regs[r], update_stats=us, in_place=ip)
                    got = "ok"
                except CSEPCatalogException:
                    got = "E"
                if eff == "n":
                    if got != "E":
                        return fail("filter_spatial without any region did not raise CSEPCatalogException", step)
                    if c.get("lean") is not None:
                        c["lean"].append((r + ("1" if us else "0") + ("1" if ip else "0"), "E"))
                else:
                    if got != "ok":
                        return fail("filter_spatial raised CSEPCatalogException although a region is given / bound", step)
                    surv = [k for k in c["ids"] if inside[eff][k]]
                    out_ids = [int(i) for i in out.get_event_ids()]
                    if out_ids != surv:
                        return fail(f"the returned catalog holds events {out_ids[:25]}; the events inside region {eff} are {surv[:25]}", step)
                    kept_binding = (not ip) and r != "n" and c["reg"] != eff and \
                        (c["obj"].region is (regs[c["reg"]] if c["reg"] != "n" else None))
                    if out.region is not regs[eff] or (c["obj"].region is not regs[eff] and not kept_binding):
                        return fail(f"the region bound afterwards is not the effective region {eff} (argument wins, else the bound one)", step)
                    if kept_binding:
                        # in_place=False left the caller's binding alone ("preserving state"): accepted, see check_filter_sessions
                        run.count("filter_spatial(in_place=False, region=R) left the caller's binding alone (accepted)")
                        c["lean"] = None
                        if len(cats) < 5:
                            cats.append(dict(obj=out, ids=list(surv), reg=eff, lean=None))
                        continue
                    if ip != (out is c["obj"]):
                        return fail(f"in_place={ip} but returned-object-is-self={out is c['obj']}", step)
                    if us:
                        st = [getattr(out, a, None) for a in ("min_longitude", "max_longitude", "min_latitude", "max_latitude")]
                        est = [min(ev[k][0] for k in surv), max(ev[k][0] for k in surv), min(ev[k][1] for k in surv),
                               max(ev[k][1] for k in surv)] if surv else [None] * 4
                        if [None if v is None else float(v) for v in st] != est:
                            return fail(f"update_stats=True: statistics {st!r}, expected {est!r}", step)
                    if c.get("lean") is not None:
                        c["lean"].append((r + ("1" if us else "0") + ("1" if ip else "0"), (surv if ip else list(c["ids"]), eff, surv, us)))
                        if eff == "c" or r == "c":
                            c["lean"] = None          # the Lean op knows regions a and b only
                    if ip:
                        c["ids"] = surv
                    elif len(cats) < 5:
                        cats.append(dict(obj=out, ids=list(surv), reg=eff, lean=None))
                    c["reg"] = eff
            elif kind in ("counts", "idx"):
                if c["reg"] == "n":
                    continue
                step = f"cat{ci}.{'spatial_counts' if kind == 'counts' else 'get_spatial_idx'}()"
                t = c["reg"]
                allin = all(inside[t][k] for k in c["ids"])
                try:
                    res = c["obj"].spatial_counts() if kind == "counts" else c["obj"].get_spatial_idx()
                    res = numpy.asarray(res)
                    got = "ok"
                except ValueError:
                    got = "ValueError"
                if (got == "ok") != allin and c["ids"]:
                    return fail(f"{got}, but {'every event lies' if allin else 'some event does not lie'} in an active cell of region {t}", step)
                if got == "ok" and c["ids"]:
                    # per-point answers of the very region object, looked up one catalog-independent call
                    ref = regs[t].get_index_of(numpy.array([ev[k][0] for k in c["ids"]]), numpy.array([ev[k][1] for k in c["ids"]]))
                    exp = numpy.bincount(ref, minlength=len(regs[t].polygons)) if kind == "counts" else numpy.asarray(ref)
                    if res.shape != exp.shape or not numpy.array_equal(res, exp):
                        return fail(f"result {res.tolist()[:20]} is not the {'histogram' if kind == 'counts' else 'list'} of the per-point cells {exp.tolist()[:20]}", step)
            elif kind == "read":
                t = orng.choice(tags)
                step = f"region {t}: get_masked / get_index_of / get_cartesian / get_bbox / midpoints / origins"
                lo, la = lon_all.copy(), lat_all.copy()
                m = numpy.asarray(regs[t].get_masked(lo, la)).astype(bool)
                if m.tolist() != [not v for v in inside[t]]:
                    return fail(f"get_masked of the session's events is {m.tolist()[:25]}, expected {[not v for v in inside[t]][:25]}", step)
                if (~m).any():
                    regs[t].get_index_of(lo[~m], la[~m])
                regs[t].get_cartesian(numpy.arange(len(regs[t].polygons), dtype=float))
                regs[t].get_bbox(); regs[t].midpoints(); regs[t].origins()
                if not (numpy.array_equal(lo, lon_all) and numpy.array_equal(la, lat_all)):
                    return fail("the coordinate arrays handed to the lookups were modified", step)
            elif kind == "dict":
                t = orng.choice(tags)
                step = f"region {t}: to_dict() edited by the caller, to_dict() again"
                d1 = regs[t].to_dict()
                import copy
                ref = copy.deepcopy(d1)
                d1["dh"] = 12345.0
                if d1.get("polygons"):
                    d1["polygons"][0]["lon"] = -999.0
                    d1["polygons"].pop()
                d1["name"] = "edited"
                d2 = regs[t].to_dict()
                if d2 != ref:
                    return fail("editing the dictionary returned by to_dict() changed what to_dict() returns next", step)
            else:
                t = orng.choice(tags)
                step = f"masked_region(region {t}, polygon)"
                verts, _, _ = _convex_polygon(orng, regs[t], None)
                poly = Polygon(verts)
                if any(poly.contains(regs[t].midpoints())):
                    masked_region(regs[t], poly)
        except Exception as e:
            return fail(f"unexpected {type(e).__name__}: {str(e)[:120]}", step or kind)
        if step is None:
            continue
        # after EVERY step: every catalog holds what the oracle says, no region object has changed
        for cj, cc in enumerate(cats):
            try:
                ids = [int(i) for i in cc["obj"].get_event_ids()]
                rb = cc["obj"].region
            except Exception as e:
                return fail(f"catalog {cj} unreadable: {type(e).__name__}: {e}", step)
            if ids != cc["ids"]:
                return fail(f"catalog {cj} holds events {ids[:25]}, expected {cc['ids'][:25]}" + (" (a catalog the step did not touch)" if cj != ci else ""), step)
            if rb is not regs[cc["reg"]]:
                return fail(f"catalog {cj} is bound to another region object than {cc['reg']}" + (" (a catalog the step did not touch)" if cj != ci else ""), step)
        for t in tags:
            if _snap(regs[t]) != snaps[t]:
                return fail(f"region {t} (xs / ys / bbox_mask / idx_map / dh / polygons / mask / magnitudes / bounds) was changed", step)
        steps.append(step)
    # the Lean state machine replays each original catalog's own filter calls (regions a / b)
    for c in cats:
        if c.get("lean") and "init" in c:
            ids0, bound, cs = c["init"]
            evc = [ev[k] for k in ids0]
            loc = {k: a for a, k in enumerate(ids0)}
            impl = [im if im == "E" else ([loc[k] for k in im[0]], im[1], [loc[k] for k in im[2]], im[3]) for _, im in c["lean"]]
            line = " ".join(["c01_filter", ",".join(frac(x) for x in region.xs), ",".join(frac(y) for y in region.ys),
                             ",".join(str(i) for i, _ in cells), ",".join(str(j) for _, j in cells),
                             ",".join(str(1 if f == 1 else 0) for f in flags), ",".join(str(f) for f in maskB),
                             ",".join(frac(p[0]) for p in evc), ",".join(frac(p[1]) for p in evc),
                             bound, "1" if cs else "0", ";".join(op for op, _ in c["lean"])])
            q = drv.ask(line)
            pending.append(dict(kind="ops-filter", q=q, case=dict(case0, points=[[repr(p[0]), repr(p[1])] for p in evc], ops=[op for op, _ in c["lean"]]),
                                impl=impl, ev=evc, same=[1 if f == 1 else 0 for f in flags] == maskB))


# ------------------------------------------------------------------------------------------------- non-finite coordinates, large catalogs
def check_nonfinite(run, base, region, orc, pts, ans, orng, seed):
    """+inf coordinates are beyond the bounding box: masked, ValueError on index lookup, removed by filter_spatial (enforced).
    NaN and -inf: no cell contains them, so any ATTRIBUTION to a cell is a violation; the IndexError the unchanged code raises
    instead of reporting them outside is AWAITING_DECISION[0] (observed, counted)."""
    from csep.core.catalogs import CSEPCatalog
    case = dict(base, points=[], what="ops:nonfinite", ops_seed=seed)
    inside = [k for k in range(len(pts)) if ans[k] != "o"][:200]
    if not inside:
        return
    k0 = orng.choice(inside)
    good = pts[k0]
    run.case(None, ("nonfinite", seed))
    run.count("ops:nonfinite")
    for val, enforced in ((math.inf, True), (-math.inf, False), (math.nan, False)):
        for which in (0, 1, 2):
            if val == math.inf and ((len(region.xs) == 1 and which in (0, 2)) or (len(region.ys) == 1 and which in (1, 2))):
                continue      # beyond the open side of a single column / row: the known finding D4 (judged by the main oracle)
            bad = (val if which in (0, 2) else good[0], val if which in (1, 2) else good[1])
            lon = numpy.array([good[0], bad[0], good[0]])
            lat = numpy.array([good[1], bad[1], good[1]])
            name = f"({bad[0]!r}, {bad[1]!r})"
            try:
                m = [bool(v) for v in numpy.asarray(region.get_masked(lon.copy(), lat.copy()))]
                res = "ok"
            except IndexError:
                res = "IndexError"
            except Exception as e:
                res = "EXC:" + type(e).__name__
            if res == "ok":
                if m != [False, True, False]:
                    run.oracle_failure(dict(case, points=[[repr(bad[0]), repr(bad[1])]]),
                                       f"get_masked of [inside point, {name}, inside point] is {m}; no cell contains {name}, the inside point is in cell {ans[k0]}")
                    return
            elif enforced:
                run.oracle_failure(dict(case, points=[[repr(bad[0]), repr(bad[1])]]), f"get_masked with the point {name} raised {res}")
                return
            else:
                # NaN / -inf: awaiting decision. The current code raises IndexError; any rejection is accepted, an ATTRIBUTION is not
                run.count("awaiting-decision: NaN / -inf coordinate raises " + ("IndexError" if res == "IndexError" else "an exception")
                          + " instead of being reported outside")
                continue
            try:
                idx = region.get_index_of(numpy.array([bad[0]]), numpy.array([bad[1]]))
                run.oracle_failure(dict(case, points=[[repr(bad[0]), repr(bad[1])]]), f"get_index_of({name}) returned {numpy.asarray(idx).tolist()!r} instead of raising ValueError")
                return
            except ValueError:
                pass
            except Exception as e:
                if enforced:
                    run.oracle_failure(dict(case, points=[[repr(bad[0]), repr(bad[1])]]), f"get_index_of({name}) raised {type(e).__name__} instead of ValueError")
                    return
            try:
                cat = CSEPCatalog(data=[(str(i), 1000 * i, float(lat[i]), float(lon[i]), 10.0, 5.0) for i in range(3)], region=region)
                cat.filter_spatial()
                ids = [int(i) for i in cat.get_event_ids()]
            except Exception as e:
                ids = "EXC:" + type(e).__name__
            if ids != [0, 2] and not (isinstance(ids, str) and not enforced):
                run.oracle_failure(dict(case, points=[[repr(bad[0]), repr(bad[1])]]), f"filter_spatial of [inside, {name}, inside] kept {ids!r}, expected [0, 2]")
                return


def check_big_catalog(run, base, region, cells, flags, orc, pts, ans, exact_only, orng, seed):
    """more than 2^16 events (not a multiple of 2^16), more than 65535 of them in ONE cell: lookups, filter and counts"""
    from csep.core.catalogs import CSEPCatalog
    case = dict(base, points=[], what="ops:big_catalog", ops_seed=seed)
    pool = sorted(exact_only)
    if len(region.xs) == 1:
        pool = [k for k in pool if Fraction(pts[k][0]) < orc.ax.top]
    if len(region.ys) == 1:
        pool = [k for k in pool if Fraction(pts[k][1]) < orc.ay.top]
    ins = [k for k in pool if ans[k] != "o"]
    if not ins or not pool:
        return
    hot = orng.choice(ins)
    ntot = 65536 + orng.randint(1000, 9000)
    outs = [k for k in pool if ans[k] == "o"]
    if outs and orng.random() < 0.5:
        # the heavy class is OUTSIDE the region: more than 2^16 events that no cell contains (all sides, holes, flagged-out cells)
        # among a few thousand inside ones
        ids = numpy.array([orng.choice(outs) for _ in range(65536 + orng.randint(1, 500))] + [orng.choice(pool) for _ in range(600)])
        run.count("ops:big-catalog: more than 2^16 events OUTSIDE the region")
    else:
        ids = numpy.array([hot] * (65536 + orng.randint(1, 500)) + [orng.choice(pool) for _ in range(600)])
    ids = numpy.concatenate([ids, numpy.array([orng.choice(ins) for _ in range(max(1, ntot - len(ids)))])])
    rs = numpy.random.default_rng(orng.randrange(2 ** 32))
    ids = rs.permutation(ids)
    lon = numpy.array([pts[k][0] for k in ids])
    lat = numpy.array([pts[k][1] for k in ids])
    exp = numpy.array([-1 if ans[k] == "o" else ans[k] for k in ids])
    run.case(None, ("big-catalog", seed))
    run.count("ops:big-catalog (> 2^16 events, > 65535 in one cell)")
    run.evaluations += len(ids)
    try:
        m = numpy.asarray(region.get_masked(lon, lat)).astype(bool)
        if m.shape != exp.shape or not numpy.array_equal(m, exp < 0):
            k = int(numpy.argmax(m != (exp < 0))) if m.shape == exp.shape else 0
            run.oracle_failure(dict(case, points=[[repr(lon[k]), repr(lat[k])]]), f"get_masked of {len(ids)} points: entry {k} is {bool(m[k]) if m.shape == exp.shape else m.shape}, the single lookup says cell {int(exp[k])}")
            return
        gi = numpy.asarray(region.get_index_of(lon[~m], lat[~m]))
        if gi.shape != exp[~m].shape or not numpy.array_equal(gi, exp[~m]):
            run.oracle_failure(case, f"get_index_of of {int((~m).sum())} points differs from the single lookups of the same points")
            return
        data = numpy.zeros(len(ids), dtype=[("id", "S256"), ("origin_time", "<i8"), ("latitude", "<f8"), ("longitude", "<f8"), ("depth", "<f8"), ("magnitude", "<f8")])
        data["id"] = numpy.arange(len(ids)).astype("S256")
        data["origin_time"] = numpy.arange(len(ids)) * 1000
        data["latitude"], data["longitude"], data["depth"], data["magnitude"] = lat, lon, 10.0, 5.0
        cat = CSEPCatalog(data=data, region=region)
        kept = cat.filter_spatial(in_place=False)
        if kept.event_count != int((exp >= 0).sum()) or not numpy.array_equal(numpy.asarray(kept.get_longitudes()), lon[exp >= 0]):
            run.oracle_failure(case, f"filter_spatial kept {kept.event_count} of {len(ids)} events, {int((exp >= 0).sum())} lie in active cells")
            return
        sc = numpy.asarray(kept.spatial_counts())
        ref = numpy.bincount(exp[exp >= 0], minlength=len(region.polygons))
        if sc.shape != ref.shape or not numpy.array_equal(sc, ref):
            k = int(numpy.argmax(sc != ref)) if sc.shape == ref.shape else 0
            run.oracle_failure(case, f"spatial_counts of {kept.event_count} events: cell {k} holds {sc[k] if sc.shape == ref.shape else sc.shape}, expected {int(ref[k])} (largest cell {int(ref.max())})")
            return
        pr = numpy.asarray(kept.spatial_event_probability())
        if pr.shape != ref.shape or not numpy.array_equal(pr, (ref > 0).astype(float)):
            run.oracle_failure(case, "spatial_event_probability is not the 0/1 indicator of the occupied cells")
    except Exception as e:
        run.oracle_failure(case, f"catalog of {len(ids)} events: {type(e).__name__}: {str(e)[:150]}")

# ------------------------------------------------------------------------------------------------- entry points
def check_aftershock(run, base, region, cells, seed):
    """regions.py:394 `generate_aftershock_region(mw, lon, lat, num_radii, region=callable, **kwargs)`: the public entry point that
    composes the Wells-Coppersmith rupture length, `Polygon.from_great_circle_radius` (100 points) and `masked_region`. Oracles:
    the keyword arguments reach the region callable; the result holds exactly the cells whose midpoint the circle polygon contains
    (`masked_region` composition: the very polygon objects, in order, no mask, same dh); geometry with a margin: a cell whose
    midpoint is within 0.97 R of the epicentre (WGS84 geodesic) is kept, one beyond 1.03 R is dropped; the new region attributes
    every kept midpoint to its cell. Only for regions in geographic range (|lat| <= 80)."""
    import random as _random
    import pyproj
    from csep.core.regions import generate_aftershock_region, masked_region, CartesianGrid2D
    from csep.models import Polygon
    from csep.utils.scaling_relationships import WellsAndCoppersmith
    orng = _random.Random(seed ^ 0xAF7E)
    xs, ys = numpy.asarray(region.xs, dtype=float), numpy.asarray(region.ys, dtype=float)
    dh = float(region.dh)
    if len(xs) < 2 or len(ys) < 2 or xs[0] < -179 or xs[-1] + dh > 179 or ys[0] < -80 or ys[-1] + dh > 80 or len(region.polygons) > 5000:
        run.count("ops:aftershock_region-not-geographic (skipped)")
        return
    mids = numpy.asarray(region.midpoints(), dtype=float)
    k0 = orng.randrange(len(mids))
    lon0, lat0 = float(mids[k0, 0]) + orng.uniform(-0.2, 0.2) * dh, float(mids[k0, 1]) + orng.uniform(-0.2, 0.2) * dh
    mw = orng.choice([5.0, 5.95, 6.5, 7.2])
    length_m = WellsAndCoppersmith.mag_length_strike_slip(mw) * 1000
    want_m = orng.uniform(1.2, 3.5) * dh * 111000.0 * max(0.2, math.cos(math.radians(lat0)))
    num_radii = want_m / length_m
    if orng.random() < 0.3:
        num_radii = max(1, int(round(num_radii)))
    R = num_radii * length_m
    got_kw = {}

    def factory(**kw):
        got_kw.update(kw)
        return region
    kw = orng.choice([{}, dict(name="aftershock-zone"), dict(dh_scale=1, name="x")])
    case = dict(base, points=[], what="ops:aftershock_region", ops_seed=seed, epicentre=[repr(lon0), repr(lat0)], mw=mw, num_radii=repr(num_radii))
    run.case(None, None)
    run.count("ops:aftershock_region")
    try:
        poly = Polygon.from_great_circle_radius((lon0, lat0), R, num_points=100)
        contains = numpy.asarray(poly.contains(mids)).astype(bool)
    except Exception as e:
        run.oracle_failure(case, f"Polygon.from_great_circle_radius / contains raised {type(e).__name__}: {e}")
        return
    if not contains.any():
        run.count("ops:aftershock_region-nothing-kept (an empty region cannot be built: skipped)")
        return
    try:
        new = generate_aftershock_region(mw, lon0, lat0, num_radii=num_radii, region=factory, **kw)
    except Exception as e:
        run.oracle_failure(case, f"generate_aftershock_region raised {type(e).__name__}: {e}")
        return
    if got_kw != kw:
        run.oracle_failure(case, f"keyword arguments {kw!r} reached the region callable as {got_kw!r}")
        return
    kept = [k for k in range(len(mids)) if contains[k]]
    if not isinstance(new, CartesianGrid2D) or len(new.polygons) != len(kept) or \
            any(new.polygons[a] is not region.polygons[k] for a, k in enumerate(kept)) or float(new.dh) != dh:
        run.oracle_failure(case, f"generate_aftershock_region returned {len(getattr(new, 'polygons', []))} cells; the circle polygon contains "
                                 f"{len(kept)} cell midpoints (result must be masked_region(region, circle): those polygons, in order)")
        return
    geod = pyproj.Geod(ellps="WGS84")
    _, _, dist = geod.inv(numpy.full(len(mids), lon0), numpy.full(len(mids), lat0), mids[:, 0], mids[:, 1])
    wrong = [k for k in range(len(mids)) if (dist[k] <= 0.97 * R and not contains[k]) or (dist[k] >= 1.03 * R and contains[k])]
    if wrong:
        k = wrong[0]
        run.oracle_failure(case, f"cell {k} (midpoint {mids[k].tolist()!r}, {dist[k]:.0f} m from the epicentre) is "
                                 f"{'kept' if contains[k] else 'dropped'}; radius {R:.0f} m")
        return
    if len(new.xs) >= 2 and len(new.ys) >= 2:
        nm = numpy.asarray(new.midpoints(), dtype=float)
        try:
            own = new.get_index_of(nm[:, 0], nm[:, 1])
        except Exception as e:
            run.oracle_failure(case, f"the aftershock region does not contain its own midpoints: {type(e).__name__}: {e}")
            return
        if not numpy.array_equal(own, numpy.arange(len(nm))):
            k = int(numpy.argmax(own != numpy.arange(len(nm))))
            run.oracle_failure(case, f"midpoint of cell {k} of the aftershock region is attributed to cell {int(own[k])}")


# ------------------------------------------------------------------------------------------------- histories of re-binding on ONE catalog
def _grid_apis(cat, mag_edges):
    """every gridding API of a catalog, each reduced to a comparable value or the class of the exception it raised"""
    out = {}
    for name, fn in (("spatial_counts", lambda: numpy.asarray(cat.spatial_counts(), dtype=float).tolist()),
                     ("spatial_event_probability", lambda: numpy.asarray(cat.spatial_event_probability(), dtype=float).tolist()),
                     ("get_spatial_idx", lambda: [int(v) for v in numpy.asarray(cat.get_spatial_idx())]),
                     ("spatial_magnitude_counts", lambda: numpy.asarray(cat.spatial_magnitude_counts(mag_bins=mag_edges), dtype=float).tolist()),
                     ("to_dataframe.region_id", lambda: [int(v) for v in cat.to_dataframe()["region_id"]])):
        try:
            out[name] = fn()
        except ValueError:
            out[name] = "ValueError"
        except Exception as e:
            out[name] = "EXC:" + type(e).__name__
    return out


def check_rebinding_history(run, base, spec, region, cells, flags, orc, pts, ans, exact_only, orng, seed):
    """ONE catalog object, re-bound (`cat.region = R`, as CatalogForecast.get_expected_rates and users do) to a sequence of regions
    that are EQUAL BUT FOR ONE THING — the per-cell mask flags, a hole, the name, a shift by one cell — with every gridding API called
    after every re-binding (and twice: the returned arrays are overwritten in between). Each result must be what a FRESH catalog of the
    same events bound to that region gives (for regions a / b also what the oracle says: ValueError exactly when an event lies in no
    active cell). Added after the seeded change C01_12 (cell indices memoised on the catalog and validated with `==`, which ignores the
    mask flags) was missed: the sessions re-bound through filter_spatial only and never to a region that compares equal."""
    from csep.core.regions import CartesianGrid2D
    from csep.core.catalogs import CSEPCatalog
    n = len(region.polygons)
    if n > 2000 or n < 2:
        return
    org = numpy.asarray(region.origins(), dtype=float)
    dh = region.dh
    name = getattr(region, "name", None)
    regs = {"a": region}
    try:
        other = [1 if orng.random() < 0.6 else 0 for _ in range(n)]
        if spec.get("mask") is None and all(other):
            other[orng.randrange(n)] = 0
        regs["flags"] = CartesianGrid2D(region.polygons, dh, name=name, mask=other)                 # same cells, other mask flags
        keep = [k for k in range(n) if orng.random() < 0.8] or [0]
        if len(keep) == n:
            keep = keep[:-1]
        regs["hole"] = CartesianGrid2D([region.polygons[k] for k in keep], dh, name=name)             # some cells missing
        regs["name"] = CartesianGrid2D(region.polygons, dh, name="another-name",
                                       mask=None if spec.get("mask") is None else list(spec["mask"]))  # other name only
        regs["shift"] = CartesianGrid2D.from_origins(org + numpy.array([float(dh), 0.0]), dh=dh, name=name)   # moved by one cell
        regs["twin"] = CartesianGrid2D(region.polygons, dh, name=name,
                                       mask=None if spec.get("mask") is None else list(spec["mask"]))  # a second, identical object
    except Exception as e:
        run.oracle_failure(dict(base, points=[], what="ops:rebinding_history", ops_seed=seed), f"building the region family raised {type(e).__name__}: {e}")
        return
    pool = sorted(exact_only)
    if len(region.xs) == 1:
        pool = [k for k in pool if Fraction(pts[k][0]) < orc.ax.top]
    if len(region.ys) == 1:
        pool = [k for k in pool if Fraction(pts[k][1]) < orc.ay.top]
    ins = [k for k in pool if ans[k] != "o"]
    if not ins:
        return
    # mostly events inside region a (so that its counts exist), a few anywhere
    ids = [orng.choice(ins) for _ in range(orng.randint(1, 25))] + [orng.choice(pool) for _ in range(orng.randint(0, 2))]
    ev = [pts[k] for k in ids]
    mags = [4.0 + 0.37 * (i % 7) for i in range(len(ev))]
    mag_edges = numpy.array([3.95, 4.95, 5.95, 6.95])
    data = [(str(i), 1000 * i, float(lat), float(lon), 10.0, mags[i]) for i, (lon, lat) in enumerate(ev)]
    order = [orng.choice(list(regs)) for _ in range(orng.randint(3, 6))]
    if "a" not in order[:2]:
        order.insert(0, "a")
    if "flags" not in order:
        order.insert(orng.randint(1, len(order)), "flags")
    case = dict(base, points=[[repr(p[0]), repr(p[1])] for p in ev], what="ops:rebinding_history", ops_seed=seed, order=order)
    run.case(None, ("rebinding", seed, tuple(order), len(ev)))
    run.count("ops:rebinding-history")
    try:
        cat = CSEPCatalog(data=data, region=regs[order[0]])
    except Exception as e:
        run.oracle_failure(case, f"CSEPCatalog(...) raised {type(e).__name__}: {e}")
        return
    snaps = {t: _snap(r) for t, r in regs.items()}
    for step, t in enumerate(order):
        cat.region = regs[t]
        got = _grid_apis(cat, mag_edges)
        # overwrite what was returned, then ask again (a returned array must not alias a cache)
        try:
            for fn in (cat.spatial_counts, cat.spatial_event_probability, cat.get_spatial_idx):
                r = fn()
                if isinstance(r, numpy.ndarray):
                    r[...] = -7
        except Exception:
            pass
        again = _grid_apis(cat, mag_edges)
        fresh = _grid_apis(CSEPCatalog(data=data, region=regs[t]), mag_edges)
        run.evaluations += 3
        for api in fresh:
            if got[api] != fresh[api] or again[api] != fresh[api]:
                which = "first call" if got[api] != fresh[api] else "second call, after the returned arrays were overwritten"
                run.oracle_failure(dict(case, at_step=step),
                                   f"step {step + 1} of {order}: after re-binding the catalog to region '{t}' {api} ({which}) is "
                                   f"{str(got[api] if got[api] != fresh[api] else again[api])[:120]}; a fresh catalog of the same events bound to that region gives {str(fresh[api])[:120]}")
                return
        if t in ("a", "twin"):
            allin = all(ans[k] != "o" for k in ids)
            if (fresh["spatial_counts"] == "ValueError") == allin:
                run.oracle_failure(dict(case, at_step=step), f"spatial_counts on region '{t}': {str(fresh['spatial_counts'])[:80]}, but "
                                                             f"{'every event lies' if allin else 'some event does not lie'} in an active cell")
                return
        for tt, r in regs.items():
            if _snap(r) != snaps[tt]:
                run.oracle_failure(dict(case, at_step=step), f"region '{tt}' was changed by the calls of step {step + 1}")
                return


def check_sizes_and_forms(run, base, region, orc, pts, ans, exact_only, orng, seed):
    """(3) size thresholds: 501 / 2 001 / 5 001 (quick: one of them) and 2^16+1 / 2^17+1 (thorough, or every 8th region) points in ONE
    call — the boundary-directed points in the first block, at the block boundaries and at the end — must get the per-point answers;
    (2) the caller's coordinate arrays are unchanged, and after the caller changes them in place the answer is that of the new
    content; (1) writing into the returned arrays does not change the next answer; (4) keyword arguments; (5) float32 / integer /
    -0.0 coordinates for points far from every boundary; (6) an iterator where an iterable of indices is documented."""
    pool = sorted(exact_only)
    if len(region.xs) == 1:
        pool = [k for k in pool if Fraction(pts[k][0]) < orc.ax.top]
    if len(region.ys) == 1:
        pool = [k for k in pool if Fraction(pts[k][1]) < orc.ay.top]
    if len(pool) < 2:
        return
    case = dict(base, points=[], what="ops:sizes_and_forms", ops_seed=seed)
    sizes = [orng.choice([501, 2001, 5001])]
    if run.extra.get("_tier") != "quick" or seed % 8 == 0:
        sizes += [2 ** 16 + 1, 2 ** 17 + 1]
    marks = (0, 499, 500, 1999, 2000, 4999, 5000, 65535, 65536, 131071, 131072)
    for N in sizes:
        ids = numpy.array([orng.choice(pool) for _ in range(min(N, 4000))])
        ids = numpy.resize(ids, N)
        for pos in marks + (N - 1,):
            if pos < N:
                ids[pos] = pool[(pos * 7 + seed) % len(pool)]
        lon = numpy.array([pts[k][0] for k in ids]); lat = numpy.array([pts[k][1] for k in ids])
        exp = numpy.array([-1 if ans[k] == "o" else ans[k] for k in ids])
        l0, a0 = lon.copy(), lat.copy()
        run.evaluations += N
        run.count(f"ops:size-{N}")
        m = numpy.asarray(region.get_masked(lons=lon, lats=lat)).astype(bool)              # keyword form
        if not (numpy.array_equal(lon, l0) and numpy.array_equal(lat, a0)):
            run.oracle_failure(dict(case, size=N), f"get_masked modified the caller's coordinate arrays ({N} points)")
            return
        if m.shape != exp.shape or not numpy.array_equal(m, exp < 0):
            i = int(numpy.argmax(m != (exp < 0))) if m.shape == exp.shape else 0
            run.oracle_failure(dict(case, points=[[repr(float(lon[i])), repr(float(lat[i]))]], size=N, position=i),
                               f"as point {i} of {N} in ONE call get_masked gives {bool(m[i]) if m.shape == exp.shape else m.shape}; looked up in a small array the point is in cell {int(exp[i])}")
            return
        if (~m).any():
            gi = numpy.asarray(region.get_index_of(lons=lon[~m], lats=lat[~m]))
            if not (numpy.array_equal(lon, l0) and numpy.array_equal(lat, a0)):
                run.oracle_failure(dict(case, size=N), f"get_index_of modified the caller's coordinate arrays ({N} points)")
                return
            if gi.shape != exp[~m].shape or not numpy.array_equal(gi, exp[~m]):
                i = int(numpy.argmax(gi != exp[~m])) if gi.shape == exp[~m].shape else 0
                run.oracle_failure(dict(case, size=N, position=i), f"get_index_of of {int((~m).sum())} points in ONE call differs at position {i} from the lookups in small arrays")
                return
    # aliasing
    sub = [orng.choice(pool) for _ in range(40)]
    lon = numpy.array([pts[k][0] for k in sub]); lat = numpy.array([pts[k][1] for k in sub])
    exp_m = [ans[k] == "o" for k in sub]
    m1 = region.get_masked(lon, lat)
    if isinstance(m1, numpy.ndarray):
        m1[...] = ~numpy.asarray(m1, dtype=bool)
    c1 = region.get_cartesian(numpy.arange(len(region.polygons), dtype=float))
    keepc = numpy.array(c1, dtype=float).copy()
    if isinstance(c1, numpy.ndarray):
        c1[...] = -3.0
    for what, arr in (("origins", region.origins()), ("midpoints", region.midpoints())):
        if isinstance(arr, numpy.ndarray):
            arr += 1000.0
    m2 = [bool(v) for v in numpy.asarray(region.get_masked(lon, lat))]
    c2 = numpy.asarray(region.get_cartesian(numpy.arange(len(region.polygons), dtype=float)), dtype=float)
    run.evaluations += 2
    run.count("ops:aliasing")
    if m2 != exp_m or not numpy.array_equal(numpy.nan_to_num(c2, nan=-1.0), numpy.nan_to_num(keepc, nan=-1.0)):
        run.oracle_failure(dict(case, points=[[repr(float(a)), repr(float(b))] for a, b in zip(lon[:10], lat[:10])]),
                           "writing into the arrays get_masked / get_cartesian / origins / midpoints returned changed the region's next answers")
        return
    # the caller moves its points in place (by one cell to the east): the second answer is that of the new content
    lon2 = lon.copy()
    r_before = [bool(v) for v in numpy.asarray(region.get_masked(lon2, lat))]
    lon2 += float(region.dh)
    r_after = [bool(v) for v in numpy.asarray(region.get_masked(lon2, lat))]
    r_fresh = [bool(v) for v in numpy.asarray(region.get_masked(lon2.copy(), lat.copy()))]
    if r_after != r_fresh:
        run.oracle_failure(dict(case, points=[[repr(float(a)), repr(float(b))] for a, b in zip(lon2[:10], lat[:10])]),
                           "after the caller changed its longitude array in place get_masked still answers for the old content")
        return
    # dtypes: float32 / integer / -0.0 coordinates, for points that are far from every boundary in the narrower type
    far = []
    for k in pool:
        x, y = pts[k]
        if all(abs(v - b) > 1e-4 * max(1.0, abs(v)) + 0.01 * float(region.dh) for v, ax in ((x, orc.ax), (y, orc.ay)) for b in ax.e + [float(ax.top)]):
            far.append(k)
        if len(far) >= 30:
            break
    if far:
        lon = numpy.array([pts[k][0] for k in far]); lat = numpy.array([pts[k][1] for k in far])
        l32, a32 = lon.astype(numpy.float32), lat.astype(numpy.float32)
        ok32 = [all(abs(float(v32) - b) > 1e-5 * max(1.0, abs(float(v32))) + 0.005 * float(region.dh) for b in ax.e + [float(ax.top)])
                for v32s, ax in ((l32, orc.ax), (a32, orc.ay)) for v32 in v32s]
        exp_m = [orc.allowed(float(x), float(y))[1] == "o" for x, y in zip(l32, a32)]
        try:
            got = [bool(v) for v in numpy.asarray(region.get_masked(l32, a32))]
        except Exception as e:
            got = "EXC:" + type(e).__name__
        run.count("ops:float32-coordinates")
        if all(ok32) and got != exp_m:
            run.oracle_failure(dict(case, points=[[repr(float(a)), repr(float(b))] for a, b in zip(l32[:10], a32[:10])], dtype="float32"),
                               f"get_masked of float32 coordinates (all far from every cell boundary) is {str(got)[:80]}, expected {str(exp_m)[:80]}")
            return
    # -0.0 is 0.0
    for k in pool[:200]:
        x, y = pts[k]
        if x == 0.0 or y == 0.0:
            nx_, ny_ = (-0.0 if x == 0.0 else x), (-0.0 if y == 0.0 else y)
            a = bool(numpy.asarray(region.get_masked(numpy.array([nx_]), numpy.array([ny_])))[0])
            run.count("ops:negative-zero")
            if a != (ans[k] == "o"):
                run.oracle_failure(dict(case, points=[[repr(nx_), repr(ny_)]]), f"the point ({nx_!r}, {ny_!r}) is masked={a}; (0.0 instead of -0.0) masked={ans[k] == 'o'}")
                return
            break
    # an iterator of indices
    n = len(region.polygons)
    want = [0, n - 1, n // 2]
    try:
        got = region.get_location_of(iter(want))
        if [region.polygons[k] is g for k, g in zip(want, got)] != [True] * 3:
            run.oracle_failure(dict(case, what="get_location_of", indices=want), "get_location_of(iterator) does not return those polygons")
    except Exception as e:
        run.oracle_failure(dict(case, what="get_location_of", indices=want), f"get_location_of(iterator of indices) raised {type(e).__name__}: {e}")


# ------------------------------------------------------------------------------------------------- round 7: copies, caught exceptions, subclasses, global state
def check_copies_and_state(run, base, spec, region, cells, flags, orc, pts, ans, exact_only, orng, seed):
    """(h) COPIES BEFORE USE: the region replaced by copy.copy / copy.deepcopy / a pickle round trip (and a catalog bound to it by its
    deepcopy / pickle image) before get_masked / get_index_of / filter_spatial / spatial_counts — the answers are those of the original
    (regions WITH flagged-out cells included: that is where a copy can lose something). (i) STATE AFTER A CAUGHT EXCEPTION: an index
    lookup of an outside point (ValueError), an index that is no polygon, a data vector of the wrong length, spatial_counts with an
    outside event, filter_spatial without any region — each caught, then the legal calls on the SAME objects. (j) USER SUBCLASS: a
    catalog class that overrides the documented accessors get_longitudes / get_latitudes (it stores its coordinates shifted): every
    spatial API answers for what the ACCESSORS return. (k) GLOBAL NUMERIC STATE: the region is built again and queried under
    numpy.errstate(divide='raise', invalid='raise') and decimal.localcontext(prec = 2 .. 6) (probed: the unchanged tree gives the same
    region and answers in that state) — same answers."""
    import copy, pickle, decimal
    from csep.core.catalogs import CSEPCatalog
    from csep.core.exceptions import CSEPCatalogException
    from . import c01
    n = len(region.polygons)
    if n > 3000:
        return
    pool = sorted(exact_only)
    if len(region.xs) == 1:
        pool = [k for k in pool if Fraction(pts[k][0]) < orc.ax.top]
    if len(region.ys) == 1:
        pool = [k for k in pool if Fraction(pts[k][1]) < orc.ay.top]
    if not pool:
        return
    # the subset: points in flagged-out cells and holes first (that is what a copy may lose), then the rest
    special = [k for k in pool if ans[k] == "o" and orc.ax.exact(pts[k][0], Fraction(pts[k][0])) is not None and
               orc.ay.exact(pts[k][1], Fraction(pts[k][1])) is not None]
    sub = (special if len(special) <= 60 else orng.sample(special, 60)) + [orng.choice(pool) for _ in range(90)]
    lon = numpy.array([pts[k][0] for k in sub]); lat = numpy.array([pts[k][1] for k in sub])
    exp = ["o" if ans[k] == "o" else int(ans[k]) for k in sub]
    case = dict(base, points=[[repr(pts[k][0]), repr(pts[k][1])] for k in sub[:40]], what="ops:copies_and_state", ops_seed=seed)

    def answers(r):
        m = numpy.asarray(r.get_masked(lon.copy(), lat.copy())).astype(bool)
        out = ["o"] * len(sub)
        if (~m).any():
            for i, v in zip(numpy.nonzero(~m)[0], r.get_index_of(lon[~m], lat[~m])):
                out[i] = int(v)
        return out

    def first_diff(got):
        i = next(i for i in range(len(sub)) if got[i] != exp[i])
        return f"point ({float(lon[i])!r}, {float(lat[i])!r}) is attributed to {got[i]!r}; the original region says {exp[i]!r}"
    snap0 = _snap(region)
    data = [(str(i), 1000 * i, float(b), float(a), 10.0, 5.0) for i, (a, b) in enumerate(zip(lon, lat))]
    kept_exp = [i for i in range(len(sub)) if exp[i] != "o"]
    # ---- (h) copies
    forms = (("copy.copy", copy.copy), ("copy.deepcopy", copy.deepcopy), ("pickle round trip", lambda x: pickle.loads(pickle.dumps(x))))
    for fname, f in forms:
        run.count("ops:copy:" + fname)
        run.evaluations += 1
        try:
            r2 = f(region)
            got = answers(r2)
        except ValueError as e:
            got = None
            why = f"ValueError: {e}"
        except Exception as e:
            run.oracle_failure(dict(case, form=fname), f"{fname} of the region, then the lookups: {type(e).__name__}: {str(e)[:160]}")
            return
        if got is None or got != exp:
            run.oracle_failure(dict(case, form=fname), f"after {fname} of the region: " + (why if got is None else first_diff(got)))
            return
        if fname != "copy.copy":
            try:
                c2 = f(CSEPCatalog(data=data, region=region))
                ids = [int(i) for i in c2.filter_spatial(in_place=False).get_event_ids()]
            except Exception as e:
                run.oracle_failure(dict(case, form=fname), f"{fname} of a catalog bound to the region, then filter_spatial: {type(e).__name__}: {str(e)[:160]}")
                return
            if ids != kept_exp:
                run.oracle_failure(dict(case, form=fname), f"{fname} of a catalog bound to the region: filter_spatial keeps events {ids[:20]}, expected {kept_exp[:20]}")
                return
    # ---- (i) state after a caught exception
    run.count("ops:after-caught-exception")
    outside = next((i for i in range(len(sub)) if exp[i] == "o"), None)
    try:
        if outside is not None:
            try:
                region.get_index_of(lon, lat)
                run.oracle_failure(case, "get_index_of of a list with an outside point did not raise")
                return
            except ValueError:
                pass
        for bad in (lambda: region.get_location_of([n + 5]), lambda: region.get_cartesian(numpy.zeros(n + 3)),
                    lambda: region.get_index_of(lon[:3], lat[:2])):
            try:
                bad()
            except Exception:
                pass
        cat = CSEPCatalog(data=data, region=None)
        try:
            cat.filter_spatial()
        except CSEPCatalogException:
            pass
        except Exception:
            pass
        cat.region = region
        if outside is not None:
            try:
                cat.spatial_counts()
            except ValueError:
                pass
        got = answers(region)
        ids = [int(i) for i in cat.filter_spatial(in_place=True).get_event_ids()]
        sc = numpy.asarray(cat.spatial_counts())
        ref = numpy.bincount(numpy.array([exp[i] for i in kept_exp], dtype=int), minlength=n) if kept_exp else numpy.zeros(n)
    except Exception as e:
        run.oracle_failure(case, f"after caught exceptions the legal calls raised {type(e).__name__}: {str(e)[:160]}")
        return
    if got != exp or ids != kept_exp or sc.shape != ref.shape or not numpy.array_equal(sc, ref) or _snap(region) != snap0:
        run.oracle_failure(case, "after caught exceptions (outside point in get_index_of, bad index, wrong-length data, spatial_counts with an outside "
                                 "event, filter_spatial without region) the legal calls on the same objects differ from a fresh run: " +
                           (first_diff(got) if got != exp else f"filter_spatial kept {ids[:15]} (expected {kept_exp[:15]}) / counts differ / region changed"))
        return
    # ---- (j) a user catalog class that overrides the coordinate accessors
    run.count("ops:user-catalog-subclass")
    shift = 1000.0

    class ShiftedCatalog(CSEPCatalog):
        """stores its coordinates shifted by +1000 degrees and undoes the shift in the documented accessors"""
        def get_longitudes(self):
            return self.catalog["longitude"] - shift

        def get_latitudes(self):
            return self.catalog["latitude"] - shift
    try:
        sdata = [(str(i), 1000 * i, float(b) + shift, float(a) + shift, 10.0, 5.0) for i, (a, b) in enumerate(zip(lon, lat))]
        # (the shift is undone exactly only where x + 1000 - 1000 == x: keep those events)
        okk = [i for i in range(len(sub)) if (float(lon[i]) + shift) - shift == float(lon[i]) and (float(lat[i]) + shift) - shift == float(lat[i])]
        sdata = [sdata[i] for i in okk]
        sc_ = ShiftedCatalog(data=sdata, region=region)
        kept_s = [int(i) for i in sc_.filter_spatial(in_place=False).get_event_ids()]
        exp_s = [i for i in okk if exp[i] != "o"]
        inside_cat = ShiftedCatalog(data=[sdata[j] for j, i in enumerate(okk) if exp[i] != "o"], region=region)
        cnt = numpy.asarray(inside_cat.spatial_counts()) if exp_s else numpy.zeros(n)
        idxs = [int(v) for v in inside_cat.get_spatial_idx()] if exp_s else []
        ref = numpy.bincount(numpy.array([exp[i] for i in exp_s], dtype=int), minlength=n) if exp_s else numpy.zeros(n)
    except Exception as e:
        run.oracle_failure(dict(case, form="subclass"), f"a catalog subclass overriding get_longitudes / get_latitudes: {type(e).__name__}: {str(e)[:160]}")
        return
    if kept_s != exp_s or not numpy.array_equal(cnt, ref) or idxs != [exp[i] for i in exp_s]:
        run.oracle_failure(dict(case, form="subclass"),
                           f"a catalog subclass whose get_longitudes / get_latitudes undo a storage shift: filter_spatial keeps {kept_s[:15]} (by the "
                           f"accessors' coordinates {exp_s[:15]}), spatial_counts / get_spatial_idx {'agree' if numpy.array_equal(cnt, ref) else 'differ'}")
        return
    # ---- (k) global numeric state while the region is BUILT and queried
    if spec.get("kind") == "lattice" and n <= 700:
        run.count("ops:global-numeric-state")
        prec = orng.choice([3, 4, 5, 6] if spec.get("ctor") == "from_origins_nodh" else [2, 3, 4, 5, 6])
        org0 = c01.lattice_origins(spec)        # (the harness's own Decimal arithmetic stays outside the lowered context)
        try:
            with decimal.localcontext() as ctxd:
                ctxd.prec = prec
                with numpy.errstate(divide="raise", invalid="raise"):
                    r3, _, _ = c01.build_region(spec, origins=org0)
                    got = answers(r3)
        except Exception as e:
            run.oracle_failure(dict(case, form=f"decimal prec {prec} + numpy.errstate(raise)"),
                               f"building / querying the region under decimal.localcontext(prec={prec}) and numpy.errstate(divide='raise', invalid='raise'): {type(e).__name__}: {str(e)[:160]}")
            return
        same = numpy.array_equal(numpy.asarray(r3.xs), numpy.asarray(region.xs)) and numpy.array_equal(numpy.asarray(r3.ys), numpy.asarray(region.ys))
        if got != exp or not same:
            run.oracle_failure(dict(case, form=f"decimal prec {prec} + numpy.errstate(raise)"),
                               f"built under decimal.localcontext(prec={prec}) the region has {'other edge arrays' if not same else 'the same edge arrays'} "
                               f"(xs[0]={float(r3.xs[0])!r} vs {float(region.xs[0])!r}); " + (first_diff(got) if got != exp else ""))


def check_ops(run, drv, pending, spec, base, region, cells, flags, orc, rng, pts, ans, exact_only, case_seed=None, only=None):
    seed, orng = _ops_rng(rng, case_seed)
    n = len(region.polygons)
    shipped = spec.get("kind") == "shipped"
    todo = only or ["masked", "eq", "incres", "nonfinite", "big", "shared", "rebind", "sizes", "copies", "aftershock", "filter"]

    def guarded(name, fn):
        # a crash while reading an implementation output is a missed detection: report it with the case as replay
        try:
            fn()
        except (RuntimeError, KeyboardInterrupt, MemoryError):
            raise
        except Exception as e:
            import traceback
            run.oracle_failure(dict(base, points=[], what="ops:" + name, ops_seed=seed),
                               f"unexpected {type(e).__name__} while checking {name}: {str(e)[:160]} | {traceback.format_exc().splitlines()[-3].strip()[:160]}")

    if "masked" in todo and n <= 20000 and not (shipped and n > 8000):
        sub = list(range(len(pts))) if len(pts) <= 500 else sorted(orng.sample(range(len(pts)), 500))
        guarded("masked_region", lambda: check_masked(run, drv, pending, base, region, cells, flags, orc, [pts[k] for k in sub],
                                                      [ans[k] for k in sub], orng, seed))
    if "eq" in todo and len(region.xs) * len(region.ys) <= 4000:
        guarded("eq/get_cartesian", lambda: check_eq_cartesian(run, base, spec, region, cells, flags, orc, orng, seed))
    if "incres" in todo and not shipped:
        guarded("increase_grid_resolution", lambda: check_incres(run, drv, pending, base, spec, region, cells, orng, seed))
    if "nonfinite" in todo:
        guarded("nonfinite", lambda: check_nonfinite(run, base, region, orc, pts, ans, orng, seed))
    if "big" in todo and (only or run.extra.get("_big_done", 0) < run.extra.get("_big_quota", 2)) and n <= 3000:
        run.extra["_big_done"] = run.extra.get("_big_done", 0) + 1
        guarded("big_catalog", lambda: check_big_catalog(run, base, region, cells, flags, orc, pts, ans, exact_only, orng, seed))
    if "shared" in todo:
        guarded("shared_session", lambda: check_shared_session(run, drv, pending, base, spec, region, cells, flags, orc, pts, ans,
                                                               exact_only, orng, seed))
    if "rebind" in todo and not shipped and (only or seed % 2 == 0):
        guarded("rebinding_history", lambda: check_rebinding_history(run, base, spec, region, cells, flags, orc, pts, ans, exact_only,
                                                                     random.Random(seed ^ 0x5EB1), seed))
    if "sizes" in todo and len(region.polygons) <= 20000:
        guarded("sizes_and_forms", lambda: check_sizes_and_forms(run, base, region, orc, pts, ans, exact_only, random.Random(seed ^ 0x512E), seed))
    if "copies" in todo:
        guarded("copies_and_state", lambda: check_copies_and_state(run, base, spec, region, cells, flags, orc, pts, ans, exact_only,
                                                                   random.Random(seed ^ 0xC0F1), seed))
    if "aftershock" in todo and not shipped and len(set(cells)) == len(cells) and spec.get("mask") is None:
        guarded("aftershock_region", lambda: check_aftershock(run, base, region, cells, seed))
    if "filter" in todo:
        guarded("filter_spatial", lambda: check_filter_sessions(run, drv, pending, base, spec, region, cells, flags, orc, pts, ans,
                                                                exact_only, orng, seed))


def flush_ops(run, rec, line):
    if rec["kind"] == "ops-masked":
        flush_masked(run, rec, line)
    elif rec["kind"] == "ops-incres":
        flush_incres(run, rec, line)
    elif rec["kind"] == "ops-filter":
        flush_filter(run, rec, line)
