"""C01 — operations that derive a region from a region or change a catalog through a region (Model/RegionOps.lean):
masked_region, __eq__, get_cartesian of a data vector, increase_grid_resolution, grid_spacing, and
CSEPCatalog.filter_spatial as a state machine (region argument / bound region, in_place, update_stats) over sequences of calls on
one catalog object. Every check has a direct oracle on the implementation's output (exact Fractions; 1e-9 relative on computed
coordinates) and, where a Lean op exists, a correspondence with the model (discrete outputs must agree; float outputs are
recorded as bit-exact or not)."""
import math
import random
from decimal import Decimal
from fractions import Fraction

import numpy

from .core import frac

# Input classes on which unchanged pyCSEP contradicts the property as read by this check; reported in notes/C01.md, kept out of
# the strict oracles until the integrator decides (fix: commit or known finding). The rest of each case is still checked.
AWAITING_DECISION = [
    "increase_grid_resolution: the origins of the refined cells carry compute_vertex's `- tol` (origin + dh/2 - eps), so for "
    "|coordinate| < ~1 a refined cell's own origin lies eps below the edge array and is attributed to the neighbouring cell",
]

REL = 1e-9


def _F(v):
    return Fraction(float(v))


def _ops_rng(rng, case_seed=None):
    seed = case_seed if case_seed is not None else rng.randrange(2 ** 32)
    return seed, random.Random(seed)


# ------------------------------------------------------------------------------------------------- masked_region
def _convex_polygon(orng, region, cells):
    """a convex polygon in lattice coordinates whose sides stay a quarter cell away from every cell midpoint: an axis-aligned
    rectangle or a rectangle with one corner cut; returns vertex list (floats) and an exact membership test for midpoints"""
    xs, ys, dh = [float(v) for v in region.xs], [float(v) for v in region.ys], float(region.dh)
    nx, ny = len(xs), len(ys)
    i0 = orng.randrange(0, nx)
    i1 = orng.randrange(i0, nx)
    j0 = orng.randrange(0, ny)
    j1 = orng.randrange(j0, ny)
    if orng.random() < 0.6:     # prefer windows of at least two columns and rows (a single one is the known finding D4)
        i0, i1 = min(i0, max(0, nx - 2)), max(i1, min(nx - 1, i0 + 1))
        j0, j1 = min(j0, max(0, ny - 2)), max(j1, min(ny - 1, j0 + 1))
        i1, j1 = max(i1, i0 + 1 if nx > 1 else i0), max(j1, j0 + 1 if ny > 1 else j0)
        i1, j1 = min(i1, nx - 1), min(j1, ny - 1)
    # the rectangle [xs[i0] + dh/4, xs[i1] + 3dh/4] x [ys[j0] + dh/4, ys[j1] + 3dh/4] contains the midpoints of columns i0..i1, rows j0..j1
    x0, x1 = xs[i0] + dh / 4, xs[i1] + 3 * dh / 4
    y0, y1 = ys[j0] + dh / 4, ys[j1] + 3 * dh / 4
    verts = [(x0, y0), (x1, y0), (x1, y1), (x0, y1)]
    cut = None
    if orng.random() < 0.4 and i1 > i0 and j1 > j0:
        # cut the upper right corner along the anti-diagonal through the corner cell's upper-left/lower-right quarter points:
        # removes exactly the corner cell (i1, j1) (its midpoint is dh/4 beyond the cut line, all others at least dh/4 inside)
        verts = [(x0, y0), (x1, y0), (x1, y1 - dh), (x1 - dh, y1), (x0, y1)]
        cut = (i1, j1)

    def inside(i, j):
        return i0 <= i <= i1 and j0 <= j <= j1 and (i, j) != cut
    return verts, inside, (i0, i1, j0, j1, cut)


def _close_to_boundary(o, p, tol):
    for axis, v in ((o.ax, p[0]), (o.ay, p[1])):
        for b in axis.e + [float(axis.top)]:
            if abs(v - b) <= tol + 64 * math.ulp(b):
                return True
    return False


def check_masked(run, drv, pending, base, region, cells, flags, orc, pts, ans, orng, seed):
    from csep.core.regions import masked_region, CartesianGrid2D
    from csep.models import Polygon
    from csep.utils.calc import bin1d_vec
    from . import c01
    n = len(region.polygons)
    verts, inside, win = _convex_polygon(orng, region, cells)
    case = dict(base, points=[], what="ops:masked_region", ops_seed=seed, polygon=[[repr(a), repr(b)] for a, b in verts])
    exp_keep = [inside(i, j) for (i, j) in cells]
    run.case(None, None)
    run.count("ops:masked_region")
    if not any(exp_keep):
        run.count("ops:masked_region-nothing-kept (skipped)")
        return
    try:
        poly = Polygon(verts)
        contains = [bool(v) for v in poly.contains(region.midpoints())]
        new = masked_region(region, poly)
    except Exception as e:
        run.oracle_failure(case, f"masked_region raised {type(e).__name__}: {e}")
        return
    if contains != exp_keep:
        k = next(k for k in range(n) if contains[k] != exp_keep[k])
        run.oracle_failure(case, f"Polygon.contains(midpoints)[{k}] = {contains[k]} for the midpoint {region.midpoints()[k].tolist()!r}, "
                                 f"which lies {'inside' if exp_keep[k] else 'outside'} the polygon by a quarter cell")
        return
    kept = [k for k in range(n) if exp_keep[k]]
    bad = None
    if not isinstance(new, CartesianGrid2D) or len(new.polygons) != len(kept):
        bad = f"masked_region returned {len(getattr(new, 'polygons', []))} polygons, the polygon contains {len(kept)} cell midpoints"
    elif any(new.polygons[a] is not region.polygons[k] and
             [float(v) for v in new.polygons[a].origin] != [float(v) for v in region.polygons[k].origin] for a, k in enumerate(kept)):
        bad = "the polygons of the masked region are not the kept polygons of the region in their order"
    elif float(new.dh) != float(region.dh):
        bad = f"masked region has dh={new.dh!r}, the region {region.dh!r}"
    if bad:
        run.oracle_failure(case, bad)
        return
    # the new region, judged on its own: lattice coordinates relative to its bounding box; no mask is handed on
    imin = min(cells[k][0] for k in kept)
    jmin = min(cells[k][1] for k in kept)
    ncells = [(cells[k][0] - imin, cells[k][1] - jmin) for k in kept]
    nx2, ny2 = len(new.xs), len(new.ys)
    if nx2 != max(c[0] for c in ncells) + 1 or ny2 != max(c[1] for c in ncells) + 1:
        run.oracle_failure(case, f"masked region has a {nx2} x {ny2} bounding box, its cells span "
                                 f"{max(c[0] for c in ncells) + 1} x {max(c[1] for c in ncells) + 1} lattice positions")
        return
    norc = c01.Oracle(new, ncells, [1] * len(kept))
    lons = numpy.array([p[0] for p in pts])
    lats = numpy.array([p[1] for p in pts])
    try:
        nans, nmasked, problems = c01.impl_answers(new, pts)
    except Exception as e:
        run.oracle_failure(case, f"lookup in the masked region raised {type(e).__name__}: {e}")
        return
    tolb = 1e-9 * float(region.dh)
    pos_of = {k: a for a, k in enumerate(kept)}
    last_old = {}
    for k, c in enumerate(cells):
        last_old[c] = k
    fails = 0
    for k, (p, a) in enumerate(zip(pts, nans)):
        allowed, exact, inband = norc.allowed(p[0], p[1])
        run.case(None, ("masked", seed, p[0], p[1]) if (inband or a == "o") else None)
        if a not in allowed:
            fx, fy = Fraction(p[0]), Fraction(p[1])
            d4 = a != "o" and ((nx2 == 1 and fx >= norc.ax.top) or (ny2 == 1 and fy >= norc.ay.top))
            if d4:
                sx = {0} if (nx2 == 1 and fx >= norc.ax.top) else norc.ax.allowed(p[0])[0]
                sy = {0} if (ny2 == 1 and fy >= norc.ay.top) else norc.ay.allowed(p[1])[0]
                d4 = a in {norc.at(i, j) for i in sx for j in sy}
            run.count("known-D4" if d4 else "ORACLE-FAIL-masked")
            if fails < 3:
                run.oracle_failure(dict(case, points=[[repr(p[0]), repr(p[1])]]),
                                   f"masked region attributes ({p[0]!r}, {p[1]!r}) to {a!r}; the property allows {sorted(map(str, allowed))}",
                                   signature=c01.D4 if d4 else None)
            fails += 1
            continue
        # restriction (theorem masked_region_same_cell): away from the bands of BOTH regions, a point the old region attributes to
        # a kept polygon is attributed to that polygon; a point in no kept cell is outside
        oallowed, oexact, oinband = orc.allowed(p[0], p[1])
        if inband or oinband or _close_to_boundary(orc, p, tolb) or _close_to_boundary(norc, p, tolb):
            # the two regions generate their edge arrays from different bounding boxes: with origins a few ulps off the decimal
            # lattice the same boundary may differ by a few ulps between them; each region is judged on its own edges above
            continue
        ex = orc.ax.exact(p[0], Fraction(p[0]))
        ey = orc.ay.exact(p[1], Fraction(p[1]))
        owner = last_old.get((ex, ey)) if ex is not None and ey is not None else None
        # the kept polygons listed at that position (masked_region drops the mask: every kept polygon is active)
        at_pos = [kk for kk in kept if cells[kk] == (ex, ey)] if owner is not None else []
        exp = pos_of[at_pos[-1]] if at_pos else "o"
        if (nx2 == 1 or ny2 == 1) and a != exp:
            continue      # single row / column: D4 (already judged by the new region's own oracle above)
        if a != exp and fails < 3:
            run.count("ORACLE-FAIL-masked")
            run.oracle_failure(dict(case, points=[[repr(p[0]), repr(p[1])]]),
                               f"masked region attributes ({p[0]!r}, {p[1]!r}) to new polygon {a!r}; the kept cell of the old region "
                               f"containing it is new polygon {exp!r} (old answer {ans[k]!r})")
            fails += 1
    # model
    org = numpy.asarray(region.origins(), dtype=float)
    norg = numpy.asarray(new.origins(), dtype=float)
    mids = numpy.asarray(new.midpoints(), dtype=float)
    hx = bin1d_vec(mids[:, 0], new.xs)
    hy = bin1d_vec(mids[:, 1], new.ys)
    # the model builds its polygons with compute_vertex(origin, dh): only for regions whose polygons are made that way
    line = " ".join(["c01_masked", ",".join(frac(v) for v in org[:, 0]), ",".join(frac(v) for v in org[:, 1]), frac(float(region.dh)),
                     ",".join("1" if c else "0" for c in contains),
                     str(c01.num_decimals(norg[:, 0].min())), str(c01.num_decimals(norg[:, 1].min())), str(c01.num_decimals(region.dh))])
    q = drv.ask(line)
    pending.append(dict(kind="ops-masked", q=q, case=case, xs=[_F(v) for v in new.xs], ys=[_F(v) for v in new.ys],
                        hash=[f"{int(a)}:{int(b)}" for a, b in zip(hx, hy)], kept=kept))


def flush_masked(run, rec, line):
    from . import c01
    toks = line.split(" ")
    if len(toks) != 4:
        run.mismatch(rec["case"], "c01_masked", line[:200])
        return
    xs, ys, hs, kept = toks
    G = lambda s: [] if s == "-" else [Fraction(v) for v in s.split(",")]
    xs, ys = G(xs), G(ys)
    if len(xs) != len(rec["xs"]) or len(ys) != len(rec["ys"]):
        run.mismatch(rec["case"], f"masked region {len(rec['xs'])} x {len(rec['ys'])}", f"{len(xs)} x {len(ys)}")
        return
    if hs.split(",") != rec["hash"]:
        run.mismatch(rec["case"], "hash " + ",".join(rec["hash"])[:200], hs[:200])
    if [int(v) for v in kept.split(",")] != rec["kept"]:
        run.mismatch(rec["case"], f"kept polygons {rec['kept'][:30]}", kept[:200])
    c01._bits(run, xs == rec["xs"] and ys == rec["ys"], "masked_region xs/ys")


# ------------------------------------------------------------------------------------------------- __eq__, get_cartesian(data)
def check_eq_cartesian(run, base, spec, region, cells, flags, orc, orng, seed):
    from csep.core.regions import CartesianGrid2D
    n = len(region.polygons)
    case = dict(base, points=[], what="ops:eq/get_cartesian", ops_seed=seed)
    run.case(None, None)
    run.count("ops:eq/get_cartesian")
    # get_cartesian of a data vector: entry (row j, column i) is the datum of the polygon the partition puts there, nan elsewhere
    data = numpy.array([orng.choice([0.0, -1.5, 2.25, 1e-300, 7.0]) if orng.random() < 0.3 else orng.uniform(-5, 5) for _ in range(n)])
    forms = [("array", data), ("list", [float(v) for v in data])]
    if orng.random() < 0.5:
        forms.append(("int array", numpy.arange(n, dtype=numpy.int64) * 3 - 7))
    for fname, d in forms:
        try:
            g = numpy.asarray(region.get_cartesian(d), dtype=float)
        except Exception as e:
            run.oracle_failure(case, f"get_cartesian({fname}) raised {type(e).__name__}: {e}")
            return
        nx, ny = len(region.xs), len(region.ys)
        if g.shape != (ny, nx):
            run.oracle_failure(case, f"get_cartesian({fname}) has shape {g.shape}, the bounding box is {ny} x {nx}")
            return
        for j in range(ny):
            for i in range(nx):
                k = orc.at(i, j)
                v = g[j, i]
                if (k == "o") != bool(math.isnan(v)) or (k != "o" and float(d[k]) != float(v)):
                    run.oracle_failure(case, f"get_cartesian({fname})[{j}, {i}] = {v!r}; the partition puts polygon {k!r} there "
                                             f"(datum {None if k == 'o' else float(d[k])!r})")
                    return
    try:
        region.get_cartesian(numpy.zeros(n + 1))
        run.oracle_failure(case, f"get_cartesian accepted a data vector of length {n + 1} for {n} polygons")
    except (AssertionError, ValueError, IndexError):
        pass
    # __eq__: a region equals a region rebuilt from its origins and dh; equal regions (no mask) are the same partition;
    # different origins or spacing are never equal
    if spec.get("kind") == "shipped" or n > 400:
        return
    org = numpy.asarray(region.origins(), dtype=float)
    try:
        twin = CartesianGrid2D.from_origins(org.copy(), dh=region.dh, name=region.name)
        eq = bool(region == twin)
        ne = []
        if n >= 2:
            perm = org[::-1].copy()
            other = CartesianGrid2D.from_origins(perm, dh=region.dh, name=region.name)
            # reversed polygon order: other indices — equal only if the origin lists coincide
            ne.append(("reversed polygon order", other, bool(numpy.array_equal(perm, org))))
        shifted = org + numpy.array([float(region.dh), 0.0])
        ne.append(("origins shifted by one cell", CartesianGrid2D.from_origins(shifted, dh=region.dh, name=region.name), False))
        if n > 1:
            ne.append(("last polygon dropped", CartesianGrid2D.from_origins(org[:-1].copy(), dh=region.dh, name=region.name), False))
        res = [(what, bool(region == o), bool(o == region), expect) for what, o, expect in ne]
    except Exception as e:
        run.oracle_failure(case, f"from_origins / == raised {type(e).__name__}: {e}")
        return
    if not eq:
        run.oracle_failure(case, "a region does not compare equal to the region rebuilt from its own origins, dh and name")
    for what, a, b, expect in res:
        if a != expect or b != expect:
            run.oracle_failure(case, f"region == region with {what} is {a} / {b} (expected {expect})")
    if region.poly_mask is None:
        if not (numpy.array_equal(twin.xs, region.xs) and numpy.array_equal(twin.ys, region.ys) and
                numpy.array_equal(twin.bbox_mask, region.bbox_mask) and
                numpy.array_equal(numpy.nan_to_num(twin.idx_map, nan=-1.0), numpy.nan_to_num(region.idx_map, nan=-1.0))):
            run.oracle_failure(case, "two regions that compare equal (same origins, dh, no mask) have different edge arrays / bbox_mask / idx_map")


# ------------------------------------------------------------------------------------------------- increase_grid_resolution, grid_spacing
def check_incres(run, drv, pending, base, spec, region, cells, orng, seed):
    from csep.core.regions import increase_grid_resolution, CartesianGrid2D, grid_spacing
    from . import c01
    case = dict(base, points=[], what="ops:increase_grid_resolution", ops_seed=seed)
    run.case(None, None)
    run.count("ops:increase_grid_resolution")
    org = numpy.asarray(region.origins(), dtype=float)
    # distinct lattice positions only (duplicates collapse in the function's set), at most 40 cells
    seen, sel = set(), []
    for k, c in enumerate(cells):
        if c not in seen:
            seen.add(c)
            sel.append(k)
    if len(sel) > 40:
        sel = sorted(orng.sample(sel, 40))
    pts = org[sel]
    dh = float(region.dh)
    factor = orng.choice([1, 2, 2, 4, 4, 8, 3, 6, 0])
    if factor == 8 and len(sel) > 12:
        factor = 4
    form = orng.choice(["array", "list", "tuples"])
    arg = pts.copy() if form == "array" else ([list(map(float, p)) for p in pts] if form == "list" else [tuple(map(float, p)) for p in pts])
    try:
        out = increase_grid_resolution(arg, dh, factor)
        res = "ok"
    except AssertionError:
        res = "AssertionError"
    except Exception as e:
        res = "EXC:" + type(e).__name__
    valid = factor >= 1 and (factor & (factor - 1)) == 0
    line = " ".join(["c01_incres", ",".join(frac(v) for v in pts[:, 0]), ",".join(frac(v) for v in pts[:, 1]), frac(dh), f"{factor}/1"])
    q = drv.ask(line)
    rec = dict(kind="ops-incres", q=q, case=dict(case, factor=factor, form=form), res=res, out=None)
    pending.append(rec)
    if not valid:
        if res != "AssertionError":
            run.oracle_failure(rec["case"], f"increase_grid_resolution(factor={factor}) gave {res}; the factor must be a power of two (AssertionError)")
        return
    if res != "ok":
        run.oracle_failure(rec["case"], f"increase_grid_resolution(factor={factor}) raised {res}")
        return
    new = numpy.array([[float(a), float(b)] for a, b in out], dtype=float).reshape(-1, 2)
    rec["out"] = sorted((_F(a), _F(b)) for a, b in new)
    f2 = factor * factor
    ndh = dh / factor
    # direct oracle: exactly factor^2 sub-origins per cell, each within 1e-9 of origin + (a, b) * dh / factor
    exp = numpy.array([[o[0] + a * ndh, o[1] + b * ndh] for o in pts for a in range(factor) for b in range(factor)])
    scale = max(1.0, float(numpy.abs(exp).max()))
    if len(new) != len(exp):
        run.oracle_failure(rec["case"], f"increase_grid_resolution(factor={factor}) returned {len(new)} points for {len(pts)} cells (expected {len(exp)})")
        return
    x0, y0 = exp[:, 0].min(), exp[:, 1].min()
    key = lambda z: numpy.lexsort((numpy.rint((z[:, 1] - y0) / ndh).astype(numpy.int64), numpy.rint((z[:, 0] - x0) / ndh).astype(numpy.int64)))
    a = new[key(new)]
    b = exp[key(exp)]
    if numpy.abs(a - b).max() > REL * scale:
        k = int(numpy.argmax(numpy.abs(a - b).max(axis=1)))
        run.oracle_failure(rec["case"], f"increase_grid_resolution(factor={factor}): point {a[k].tolist()!r} is not a sub-origin "
                                        f"(nearest expected {b[k].tolist()!r}, spacing {ndh!r})")
        return
    if factor == 1:
        return
    # the refined region: every fine cell's midpoint lies in its parent cell of the coarse region, factor^2 per parent
    # (theorem refinement_partition), and is attributed to the fine cell itself
    try:
        fine = CartesianGrid2D.from_origins(a.copy(), dh=ndh)
        coarse = CartesianGrid2D.from_origins(pts.copy(), dh=dh)
        mids = numpy.asarray(fine.midpoints(), dtype=float)
        own = fine.get_index_of(mids[:, 0], mids[:, 1])
        par = coarse.get_index_of(mids[:, 0], mids[:, 1])
    except Exception as e:
        run.oracle_failure(rec["case"], f"region of the refined origins: {type(e).__name__}: {e}")
        return
    if not numpy.array_equal(own, numpy.arange(len(a))):
        k = int(numpy.argmax(own != numpy.arange(len(a))))
        run.oracle_failure(rec["case"], f"midpoint of refined cell {k} ({mids[k].tolist()!r}) is attributed to cell {int(own[k])}")
        return
    cnt = numpy.bincount(par, minlength=len(pts))
    if len(pts) > 1 and (len(coarse.xs) > 1 and len(coarse.ys) > 1) and not numpy.all(cnt == f2):
        run.oracle_failure(rec["case"], f"refined cells per parent cell: {sorted(set(cnt.tolist()))} (expected {f2} each)")
        return
    # AWAITING_DECISION[0]: own-origin lookup of the refined cells is observed, not enforced
    try:
        m = fine.get_masked(a[:, 0], a[:, 1])
        oi = numpy.full(len(a), -1)
        if (~m).any():
            oi[~m] = fine.get_index_of(a[~m, 0], a[~m, 1])
        nbad = int((oi != numpy.arange(len(a))).sum())
    except Exception:
        nbad = -1
    if nbad:
        run.count("awaiting-decision: refined cell's own origin attributed to a neighbour", max(nbad, 1))
        w = run.extra.setdefault("awaiting_decision_witness", None)
        if w is None and nbad > 0:
            k = int(numpy.argmax(oi != numpy.arange(len(a))))
            run.extra["awaiting_decision_witness"] = (f"increase_grid_resolution({pts[:3].tolist()!r}..., {dh!r}, {factor}) -> origin "
                                                      f"{a[k].tolist()!r} of refined cell {k} is attributed to cell {int(oi[k])}")
    # grid_spacing on two vertices of the lattice: a diagonal step gives the spacing, a repeated point and a non-square step are rejected
    o = pts[0]
    for what, v0, v1, expect in (("diagonal", (o[0], o[1]), (o[0] + dh, o[1] + dh), "dh"),
                                 ("same point", (o[0], o[1]), (o[0], o[1]), "ValueError"),
                                 ("non-square", (o[0], o[1]), (o[0] + dh, o[1] + 3 * dh), "ValueError")):
        try:
            g = float(grid_spacing([v0, v1]))
            got = "dh" if abs(g - dh) <= REL * max(1.0, abs(dh)) else repr(g)
        except ValueError:
            got = "ValueError"
        except Exception as e:
            got = "EXC:" + type(e).__name__
        if got != expect:
            run.oracle_failure(dict(case, what="ops:grid_spacing"), f"grid_spacing({what}: {v0!r}, {v1!r}) gave {got}, expected {expect} (dh={dh!r})")


def flush_incres(run, rec, line):
    from . import c01
    if line == "AssertionError" or rec["res"] != "ok":
        if (line == "AssertionError") != (rec["res"] == "AssertionError"):
            run.mismatch(rec["case"], rec["res"], line[:100])
        return
    toks = line.split(" ")
    if len(toks) != 3 or rec["out"] is None:
        if rec["out"] is not None:
            run.mismatch(rec["case"], "increase_grid_resolution", line[:100])
        return
    G = lambda s: [] if s == "-" else [Fraction(v) for v in s.split(",")]
    mod = sorted(set(zip(G(toks[1]), G(toks[2]))))
    if len(mod) != len(rec["out"]):
        run.mismatch(rec["case"], f"{len(rec['out'])} refined origins", f"{len(mod)}")
        return
    c01._bits(run, mod == rec["out"], "increase_grid_resolution")


# ------------------------------------------------------------------------------------------------- filter_spatial state machine
def check_filter_sessions(run, drv, pending, base, spec, region, cells, flags, orc, pts, ans, exact_only, orng, seed, nsess=2):
    from csep.core.regions import CartesianGrid2D
    from csep.core.catalogs import CSEPCatalog
    from csep.core.exceptions import CSEPCatalogException
    n = len(region.polygons)
    if n > 3000:
        return
    # region B: the same polygons with another mask (so the survivors differ from region A's)
    maskB = [1 if orng.random() < 0.6 else 0 for _ in range(n)]
    try:
        regB = CartesianGrid2D(region.polygons, region.dh, mask=maskB)
    except Exception as e:
        run.oracle_failure(dict(base, points=[], what="ops:filter_spatial"), f"CartesianGrid2D(polygons, dh, mask) raised {type(e).__name__}: {e}")
        return
    regs = {"a": region, "b": regB, "n": None}
    fl = {"a": flags, "b": maskB}
    act = {}
    for t in ("a", "b"):
        s = set()
        for c, f in zip(cells, fl[t]):
            if f == 1:
                s.add(c)
        act[t] = s
    pool = sorted(exact_only)
    # single column / row regions: points beyond the open upper side are the known finding D4 (judged by the main oracle)
    if len(region.xs) == 1:
        pool = [k for k in pool if Fraction(pts[k][0]) < orc.ax.top]
    if len(region.ys) == 1:
        pool = [k for k in pool if Fraction(pts[k][1]) < orc.ay.top]
    if not pool:
        return
    for _ in range(nsess):
        ids = [orng.choice(pool) for _ in range(orng.randint(0, 25))]
        ev = [pts[k] for k in ids]
        pos = []
        for p in ev:
            pos.append((orc.ax.exact(p[0], Fraction(p[0])), orc.ay.exact(p[1], Fraction(p[1]))))
        bound = orng.choice(["a", "b", "n", "n"])
        cstats = orng.random() < 0.6
        ops = []
        for _ in range(orng.randint(2, 5)):
            ops.append(orng.choice(["a", "b", "n", "n"]) + ("1" if orng.random() < 0.5 else "0") + ("1" if orng.random() < 0.55 else "0"))
        case = dict(base, points=[[repr(p[0]), repr(p[1])] for p in ev], what="ops:filter_spatial", ops_seed=seed,
                    bound=bound, compute_stats=cstats, ops=ops)
        run.case(None, ("filter-session", seed, tuple(ops), bound, len(ev)))
        run.count("ops:filter_spatial-session")
        data = [(str(k), 1000 * k, float(lat), float(lon), 10.0, 5.0) for k, (lon, lat) in enumerate(ev)]
        try:
            cat = CSEPCatalog(data=data, region=regs[bound], compute_stats=cstats)
        except Exception as e:
            run.oracle_failure(case, f"CSEPCatalog(...) raised {type(e).__name__}: {e}")
            continue
        cur = list(range(len(ev)))      # oracle: event numbers currently in `cat`
        cur_reg = bound
        impl = []
        ok = True
        for op in ops:
            r, us, ip = op[0], op[1] == "1", op[2] == "1"
            eff = r if r != "n" else cur_reg
            try:
                out = cat.filter_spatial(region=regs[r], update_stats=us, in_place=ip)
                got = "ok"
            except CSEPCatalogException:
                got = "E"
            except Exception as e:
                got = "EXC:" + type(e).__name__
            if eff == "n":
                if got != "E":
                    run.oracle_failure(dict(case, at_op=op), f"filter_spatial without any region gave {got} (expected CSEPCatalogException)")
                    ok = False
                    break
                impl.append("E")
                continue
            if got != "ok":
                run.oracle_failure(dict(case, at_op=op), f"filter_spatial({op}) raised {got}")
                ok = False
                break
            surv = [k for k in cur if pos[k][0] is not None and pos[k][1] is not None and pos[k] in act[eff]]
            self_ids = [int(i) for i in cat.get_event_ids()]
            out_ids = [int(i) for i in out.get_event_ids()]
            exp_self = surv if ip else cur
            which = "a" if cat.region is regs["a"] else ("b" if cat.region is regs["b"] else "?")
            whicho = "a" if out.region is regs["a"] else ("b" if out.region is regs["b"] else "?")
            problem = None
            if out_ids != surv:
                problem = f"returned catalog holds events {out_ids[:20]}, the events inside region {eff} are {surv[:20]}"
            elif self_ids != exp_self:
                problem = f"the catalog itself holds events {self_ids[:20]} afterwards, expected {exp_self[:20]} (in_place={ip})"
            elif which != eff or whicho != eff:
                problem = f"region bound afterwards: catalog {which}, returned catalog {whicho}; expected {eff}"
            elif ip and out is not cat:
                problem = "in_place=True did not return the catalog itself"
            elif (not ip) and out is cat:
                problem = "in_place=False returned the catalog itself"
            if problem is None and us:
                st = [getattr(out, a, None) for a in ("min_longitude", "max_longitude", "min_latitude", "max_latitude")]
                if surv:
                    lo = [float(ev[k][0]) for k in surv]
                    la = [float(ev[k][1]) for k in surv]
                    est = [min(lo), max(lo), min(la), max(la)]
                    if any(s is None for s in st) or [float(s) for s in st] != est:
                        problem = f"update_stats=True: statistics {st!r} are not those of the surviving events {est!r}"
                elif any(s is not None for s in st):
                    problem = f"update_stats=True on an empty result: statistics {st!r}"
            if problem is None and out.event_count != len(surv):
                problem = f"event_count {out.event_count} of the returned catalog, {len(surv)} events survive"
            if problem:
                run.count("ORACLE-FAIL-filter-session")
                run.oracle_failure(dict(case, at_op=op), f"filter_spatial(region={r}, update_stats={us}, in_place={ip}): {problem}")
                ok = False
                break
            impl.append((exp_self, eff, surv, us))
            if ip:
                cur = surv
            cur_reg = eff
        if not ok:
            continue
        # the survivors can be counted: spatial_counts after filtering never raises (theorem filter_then_lookup_total)
        if cur_reg != "n" and cat.region is not None:
            try:
                c2 = CSEPCatalog(data=[data[k] for k in cur], region=regs[cur_reg]) if cur else None
                if c2 is not None:
                    c2.filter_spatial()
                    sc = c2.spatial_counts()
                    if int(round(float(numpy.sum(sc)))) != c2.event_count:
                        run.oracle_failure(case, f"spatial_counts after filter_spatial sums to {float(numpy.sum(sc))!r} for {c2.event_count} events")
            except ValueError:
                run.oracle_failure(case, "spatial_counts raised ValueError on a catalog that was spatially filtered with its own region")
        line = " ".join(["c01_filter", ",".join(frac(x) for x in region.xs), ",".join(frac(y) for y in region.ys),
                         ",".join(str(i) for i, _ in cells), ",".join(str(j) for _, j in cells),
                         ",".join(str(1 if f == 1 else 0) for f in flags), ",".join(str(f) for f in maskB),
                         ",".join(frac(p[0]) for p in ev) if ev else "-", ",".join(frac(p[1]) for p in ev) if ev else "-",
                         bound, "1" if cstats else "0", ";".join(ops)])
        q = drv.ask(line)
        pending.append(dict(kind="ops-filter", q=q, case=case, impl=impl, ev=ev,
                            same=[1 if f == 1 else 0 for f in flags] == maskB))


def flush_filter(run, rec, line):
    toks = line.split(" ")
    impl, ev = rec["impl"], rec["ev"]
    if len(toks) != len(impl):
        run.mismatch(rec["case"], f"{len(impl)} ops", line[:200])
        return
    P = lambda ids: [(Fraction(ev[k][0]), Fraction(ev[k][1])) for k in ids]
    Q = lambda s: [] if s == "-" else [tuple(Fraction(v) for v in t.split(":")) for t in s.split(",")]
    for op, (im, t) in enumerate(zip(impl, toks)):
        if im == "E" or t == "E":
            if im != t:
                run.mismatch(dict(rec["case"], at=op), str(im)[:100], t[:100])
            continue
        f = t.split("!")
        if len(f) != 4:
            run.mismatch(dict(rec["case"], at=op), "op result", t[:100])
            continue
        exp_self, eff, surv, us = im
        if Q(f[0]) != P(exp_self) or (f[1] != eff and not rec["same"]) or Q(f[2]) != P(surv):
            run.mismatch(dict(rec["case"], at=op), f"self={exp_self} region={eff} out={surv}",
                         f"self={len(Q(f[0]))} events region={f[1]} out={[ (float(a), float(b)) for a, b in Q(f[2])][:30]}")
            continue
        if us:
            if surv:
                lo = [Fraction(ev[k][0]) for k in surv]
                la = [Fraction(ev[k][1]) for k in surv]
                est = [min(lo), max(lo), min(la), max(la)]
            else:
                est = [None] * 4
            got = None if f[3] == "-" else [None if v == "N" else Fraction(v) for v in f[3].split(",")]
            if got != est:
                run.mismatch(dict(rec["case"], at=op, what="stats"), est, f[3])


# ------------------------------------------------------------------------------------------------- entry points
def check_ops(run, drv, pending, spec, base, region, cells, flags, orc, rng, pts, ans, exact_only, case_seed=None, only=None):
    seed, orng = _ops_rng(rng, case_seed)
    n = len(region.polygons)
    shipped = spec.get("kind") == "shipped"
    todo = only or ["masked", "eq", "incres", "filter"]
    if "masked" in todo and n <= 20000 and not (shipped and n > 8000):
        sub = list(range(len(pts))) if len(pts) <= 500 else sorted(orng.sample(range(len(pts)), 500))
        check_masked(run, drv, pending, base, region, cells, flags, orc, [pts[k] for k in sub], [ans[k] for k in sub], orng, seed)
    if "eq" in todo and len(region.xs) * len(region.ys) <= 4000:
        check_eq_cartesian(run, base, spec, region, cells, flags, orc, orng, seed)
    if "incres" in todo and not shipped:
        check_incres(run, drv, pending, base, spec, region, cells, orng, seed)
    if "filter" in todo:
        check_filter_sessions(run, drv, pending, base, spec, region, cells, flags, orc, pts, ans, exact_only, orng, seed)


def flush_ops(run, rec, line):
    if rec["kind"] == "ops-masked":
        flush_masked(run, rec, line)
    elif rec["kind"] == "ops-incres":
        flush_incres(run, rec, line)
    elif rec["kind"] == "ops-filter":
        flush_filter(run, rec, line)
