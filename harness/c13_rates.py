"""C13 (round 4) — get_expected_rates with the exception of its loop body inside the model (Model/ForecastIterX.lean, op c13_runx).

Histories over {full pass, get_event_counts, get_expected_rates, spatial_counts, magnitude_counts} on forecasts in which some
catalog holds, AFTER the configured filters, an event that lies in no space-magnitude bin of the forecast's grid (outside the
region while the spatial filter is off, or below the first magnitude edge while no magnitude statement removes it).  The code
raises ValueError inside the pass of get_expected_rates; the model says at which catalog and in which state the forecast is left.

Oracle (independent of the model):
 * a request for the rates on such a forecast must raise (never return rates computed from a part of the events), and it
   must do so whenever NO once-filtered catalog holds such an event it must not raise;
 * every complete pass / event count / rate that IS returned must be the specification's.  What the code returns between the
   exception and the end of the next complete for-loop is the known finding D27 (aborted pass not restarted: the next loop yields
   only the catalogs behind the offending one, event counts are partial, a second request continues the aborted pass and can even
   cache rates of a part of the catalogs): reported with the finding's signature, compared exactly with the model.
"""
import contextlib
import io
import json

import numpy

ABORT_SIG = "catalog-forecast:aborted-pass-not-restarted"
SOURCES = ["list", "list-ncat", "file-store", "file-nostore", "loader-store", "loader-nostore", "gen-store"]
RATE_OPS = ("R", "S", "M")


def uncountable_ev(case, ev):
    """the event lies in no space-magnitude bin of the forecast's grid"""
    from . import c13 as base
    return ev[0] < 0 or ev[1] < base.MAGS[0]


def gen_ratesx(rng):
    from . import c13 as base
    src = rng.choice(SOURCES)
    af, sp = rng.random() < 0.6, rng.random() < 0.4
    w = base.gen_world(rng, src, af, sp)
    while len(w["cats"]) < 2:
        w = base.gen_world(rng, src, af, sp)
    n = len(w["cats"])
    # events that lie in no bin: outside the region, or below the first magnitude edge.  Whether they SURVIVE depends on the
    # configuration (spatial filter, magnitude statement, apply_filters), so raising and non-raising forecasts both occur
    for _ in range(rng.choice([1, 1, 2, 3])):
        ci = rng.randrange(n)
        if rng.random() < 0.6:
            ev = [-rng.randint(1, 3), rng.choice([4.2, 4.7, 5.5])]
        else:
            ev = [rng.randrange(w["nx"] * w["ny"]), 3.5]
        w["cats"][ci].insert(rng.randint(0, len(w["cats"][ci])), ev)
    w["kind"] = "ratesx"
    w.pop("verbose", None)
    L = rng.randint(2, 6)
    ops = [rng.choice(["P", "E", "R", "S", "M", "R"]) for _ in range(L)]
    if not any(o in RATE_OPS for o in ops):
        ops[rng.randrange(L)] = rng.choice(RATE_OPS)
    w["ops"] = ops
    return w


def model_line(case):
    from . import c13 as base
    nb = case["nx"] * case["ny"] * len(base.MAGS)

    def tok(ev):
        b = nb if uncountable_ev(case, ev) else base.bin_of(case, ev)
        return f"{1 if base.keep_of(case, ev) else 0}:{b}"
    cats = ";".join((",".join(tok(ev) for ev in evs) if evs else "-") for evs in case["cats"])
    if case["source"] == "list":
        kind, a = "list", "none"
    elif case["source"] == "list-ncat":
        kind, a = "list", str(len(case["cats"]))
    else:
        kind, a = "stream", "1" if case["source"].endswith("-store") and not case["source"].endswith("nostore") else "0"
    return f"c13_runx {kind} {a} {1 if case['apply_filters'] else 0} {nb} {len(base.MAGS)} {cats} {','.join(case['ops'])}"


def gen_reads(rng):
    """histories that interleave every READ of the expected-rates object, in all its argument forms, with the evaluations and the
    other operations: a read must return the view of the per-bin means it stands for, whatever was read or evaluated before"""
    from . import c13 as base
    src = rng.choice(SOURCES)
    af, sp = rng.random() < 0.5, rng.random() < 0.5
    w = base.gen_world(rng, src, af, sp)
    tests = (base.TESTS + ["TP"]) if base.tests_allowed(w) else []
    L = rng.randint(3, 8)
    ops = []
    for _ in range(L):
        k = rng.random()
        if k < 0.6:
            ops.append(rng.choice(base.READS + ["RC", "RS"]))
        elif k < 0.85 and tests:
            ops.append(rng.choice(tests))
        else:
            ops.append(rng.choice(["P", "E", "R", "S", "M"]))
    # both representations of the spatial rates occur, in either order, and something reads the spatial rates after the other one
    if "RC" not in ops:
        ops[rng.randrange(L)] = "RC"
    if not any(o in ("RS", "S", "TS", "TP") for o in ops):
        ops.insert(rng.randint(0, len(ops)), rng.choice(["RS", "S"] + (["TS", "TP"] if tests else [])))
    w["ops"] = ops
    w["reads"] = True
    w["read_forms"] = {str(i): rng.randrange(12) for i in range(len(ops))}
    return w


def gen_concrete(rng):
    """the same histories on forecasts with every combination of statement filter / apply_mct / spatial filter; the model gets
    the ROWS (c13_runc) and works out itself what each configured filter decides and in which bin a row lies"""
    from . import c13 as base
    src = rng.choice(SOURCES)
    af, sp, mct = rng.random() < 0.7, rng.random() < 0.5, rng.random() < 0.5
    w = base.gen_world4(rng, src, af, sp, mct)
    w.pop("nan_depth", None)
    w.pop("verbose", None)
    n = len(w["cats"])
    if rng.random() < 0.4:          # rows that lie in no bin; they survive or not, depending on the configuration
        for _ in range(rng.choice([1, 1, 2])):
            ci = rng.randrange(n)
            evs = w["cats"][ci]
            pos = rng.randint(0, len(evs))
            tc = base.tclass_of(evs[pos - 1]) if pos > 0 else 0          # keep the catalog sorted in time
            ev = [-rng.randint(1, 3), rng.choice([4.2, 4.7, 5.5]), tc] if rng.random() < 0.6 else \
                [rng.randrange(w["nx"] * w["ny"]), 3.5, tc]
            evs.insert(pos, ev)
    w["kind"] = "ratesx"
    w["concrete"] = True
    L = rng.randint(2, 5)
    w["ops"] = [rng.choice(["P", "E", "R", "S", "M"]) for _ in range(L)]
    return w


def model_line_concrete(case):
    from . import c13 as base
    from . import c04_mct
    from .core import frac
    _, origins = base.make_region(case["nx"], case["ny"])
    cats = []
    below = []
    epoch = base.MCT_T0
    tcrit = c04_mct.tcrit_of(base.MCT_MAIN_MAG, epoch, 2.5)[2]
    for ci, evs in enumerate(case["cats"]):
        rows = []
        last_t = None
        for ei, ev in enumerate(evs):
            _eid, t, lat, lon, depth, mag = base.event_row(case, base.row_ci(case, ci), ei, ev, origins)
            assert last_t is None or last_t <= t, "catalogs are generated sorted in time (what apply_mct assumes)"
            last_t = t
            num = 1000 * ci + ei
            rows.append(",".join([str(num), str(t), frac(lat), frac(lon), frac(depth), frac(mag)]))
            if case.get("mct") and epoch <= t <= tcrit and c04_mct.decide_below(t, mag, epoch, base.MCT_MAIN_MAG)[0]:
                below.append(str(num))
        cats.append(f"{ci}=" + (";".join(rows) if rows else "-"))
    fs = f"mag,ge,{frac(base.MAG_CUT)}" if case["mag_filter"] else "-"
    mct = f"{epoch};{frac(tcrit)};{','.join(below) or '-'}" if case.get("mct") else "none"
    region = ",".join([frac(0.1)] + [frac(float(v)) for o in origins for v in o])
    edges = ",".join(frac(m) for m in base.MAGS)
    if case["source"] == "list":
        kind, a = "list", "none"
    elif case["source"] == "list-ncat":
        kind, a = "list", str(len(case["cats"]))
    else:
        store = "1" if case["source"].endswith("-store") and not case["source"].endswith("nostore") else "0"
        if case.get("ncat_given") is not None:
            kind, a = "streamn", f"{store}:{case['ncat_given']}"
        else:
            kind, a = "stream", store
    return (f"c13_runc {kind} {a} {1 if case['apply_filters'] else 0} {fs} {mct} {1 if case['filter_spatial'] else 0} {region} "
            f"{edges} {'#'.join(cats)} {','.join(case['ops'])}")


def do_ratesx(run, drv, pending, case, tmpdir):
    from . import c13 as base
    fore, table, region, origins = base.build_forecast(case, tmpdir)
    n = len(case["cats"])
    nm = len(base.MAGS)
    nb = case["nx"] * case["ny"] * nm
    ev_of = {f"c{ci}e{ei}": ev for ci, evs in enumerate(case["cats"]) for ei, ev in enumerate(evs)}
    ref = base.reference(case)                                    # once-filtered catalogs [(event id, ev)]
    ref_ids = [[eid for eid, _ in cat] for cat in ref]
    bad = [ci for ci, cat in enumerate(ref) if any(uncountable_ev(case, ev) for _, ev in cat)]
    k0 = bad[0] if bad else None
    tot = [0] * nb          # per-bin totals of the once-filtered events that lie in a bin
    for cat in ref:
        for _, ev in cat:
            if not uncountable_ev(case, ev):
                tot[base.bin_of(case, ev)] += 1
    run.case(case, ("ratesx", case["source"], case["apply_filters"], case["filter_spatial"], case["mag_filter"],
                    json.dumps(case["cats"]), tuple(case["ops"])))
    run.count(("concrete:" if case.get("concrete") else "ratesx:") + f"{case['source']}:" + ("raises" if k0 is not None else "countable"))
    if case.get("concrete"):
        run.count(f"concrete:filters={int(bool(case['mag_filter']))}{int(bool(case.get('mct')))}{int(bool(case['filter_spatial']))}"
                  f":apply={int(bool(case['apply_filters']))}")

    def shown(ev):
        # the `keep` flag the model shows for a yielded row: on rows it is the conjunction of the configured predicates
        # whether or not apply_filters is on; on the abstract events it is what the harness put there
        return base.keep_of(dict(case, apply_filters=True), ev) if case.get("concrete") else base.keep_of(case, ev)
    outs, fails = [], []
    aborted = False          # an exception left a pass unfinished and no complete for-loop has run since (D27 window)
    tainted = False          # rates were requested inside the D27 window (the code may have cached rates of a part of the catalogs)
    skipping = False         # the implementation leaves events outside the grid out instead of raising (see below)
    raised_ever = False      # the forecast has raised: from here on the property promises nothing about this OBJECT (as after the
    #                          aborted pass of D27); whatever deviates later is reported under D27's signature, never as a violation,
    #                          and the comparison with the model is informational (run.extra["ratesx_after_exception"])

    def ncat_tok():
        v = fore.n_cat
        return "none" if v is None else str(int(v))

    def fail(msg):
        fails.append((msg, ABORT_SIG if (aborted or tainted or raised_ever) else None))

    for k, op in enumerate(case["ops"]):
        try:
            if op == "P":
                cats = [c for c in fore]
                ids = [None if c.catalog_id is None else int(c.catalog_id) for c in cats]
                evs = [base.canon_cat(c, table) for c in cats]
                if ids != list(range(n)) or evs != ref_ids:
                    fail(f"op {k}: a complete for-loop yields catalogs {ids} with events {evs}; the forecast has catalogs "
                         f"0..{n - 1} with once-filtered events {ref_ids}")
                outs.append("c" + (";".join(
                    f"{'none' if i is None else i}=" + (",".join(
                        f"{1 if shown(ev_of[e]) else 0}:{nb if uncountable_ev(case, ev_of[e]) else base.bin_of(case, ev_of[e])}"
                        if e in ev_of else "?" for e in ev) if ev else "-") for i, ev in zip(ids, evs)) if cats else "-"))
                aborted = False
            elif op == "E":
                with contextlib.redirect_stdout(io.StringIO()):
                    ec = [int(v) for v in numpy.asarray(fore.get_event_counts(verbose=False)).ravel()]
                if ec != [len(c) for c in ref]:
                    fail(f"op {k}: get_event_counts {ec}, a single pass has {[len(c) for c in ref]}")
                outs.append("n" + (",".join(map(str, ec)) if ec else "-"))
            else:
                cached_before = fore.expected_rates is not None
                raised = None
                try:
                    if op == "R":
                        arr = fore.get_expected_rates().data
                    elif op == "S":
                        arr = fore.spatial_counts()
                    else:
                        arr = fore.magnitude_counts()
                except ValueError as e:
                    raised = e
                if not cached_before and fore.expected_rates is not None and numpy.ndim(fore.expected_rates.data) == 0:
                    # the request continued an aborted pass that had no catalog left: the loop body never ran and
                    # `numpy.empty([]) / n_cat` — uninitialised memory — was cached as the forecast's rates (D27 consequence;
                    # the model's `.done _ none`).  Nothing after this point is deterministic: the history ends here.
                    fail(f"op {k} ({op}): expected rates were built from an uninitialised scalar (no catalog was iterated)")
                    run.count("ratesx:uninitialised-rates-after-aborted-pass")
                    outs.append(f"g@{ncat_tok()}")
                    break
                if raised is not None:
                    if k0 is None:
                        fail(f"op {k} ({op}) raised ValueError: {raised}; every once-filtered event lies in a bin")
                    outs.append("x")
                    if not aborted:
                        run.count("ratesx:raised-first-time")
                    aborted = True
                    raised_ever = True
                    outs[-1] += f"@{ncat_tok()}"
                    continue
                if aborted:
                    tainted = True            # the request continued an aborted pass (D27): whatever it cached is partial
                    if not cached_before:
                        aborted = False       # ... and that pass ran to its end: the cursor is at the front again
                arr = numpy.asarray(arr, dtype=float).ravel()
                nn = fore.n_cat
                ks = [int(round(float(v) * nn)) if numpy.isfinite(v) else -1 for v in arr]
                exp = tot if op == "R" else ([sum(tot[s * nm:(s + 1) * nm]) for s in range(nb // nm)] if op == "S" else
                                            [sum(tot[m::nm]) for m in range(nm)])
                good = len(arr) == len(exp) and all(abs(float(v) - e / n) <= 1e-12 for v, e in zip(arr, exp))
                if k0 is not None and good and not raised_ever:
                    # the request did not raise although an event lies in no bin, and what it returns IS the per-cell mean of the
                    # catalogs' space-magnitude counts (an event outside every cell is in no cell's count): C13's text is met —
                    # whether such an event must be rejected is C03's business.  The model (the present code) raises here:
                    # from this point on the comparison with it is informational.
                    run.count("ratesx:implementation-skips-events-outside-the-grid")
                    skipping = True
                elif k0 is not None and not skipping:
                    fail(f"op {k} ({op}) returned {list(map(float, arr))} although catalog {k0} holds, after the configured "
                         f"filters, an event that lies in no space-magnitude bin, and these are not the per-bin means {exp}/{n} "
                         f"of the events that do lie in a bin: rates of a part of the catalogs")
                elif not good:
                    fail(f"op {k} ({op}): {list(map(float, arr))} differ from {exp}/{n}")
                if skipping:
                    outs.append("s" + ",".join(map(str, ks)) + f"/{ncat_tok()}")
                    outs[-1] += f"@{ncat_tok()}"
                    continue
                outs.append("r" + ",".join(map(str, ks)) + f"/{ncat_tok()}")
        except Exception as e:
            fail(f"op {k} ({op}) raised {type(e).__name__}: {e}")
            outs.append("e" + f"@{ncat_tok()}")
            break
        if not aborted and ncat_tok() != str(n) and not (op in RATE_OPS and outs[-1].startswith("x")):
            fail(f"op {k}: n_cat is {ncat_tok()}, the forecast has {n} catalogs")
        outs[-1] += f"@{ncat_tok()}"
    real = [f for f in fails if f[1] is None]
    for msg, sig in (real or fails)[:1]:
        run.oracle_failure(case, msg, signature=sig)
    i = drv.ask(model_line_concrete(case) if case.get("concrete") else model_line(case))
    # the raise position is not observable on the implementation: it is the oracle's k0 (first offending catalog of the
    # once-filtered list) the first time; the model's own position is compared through what the following operations show
    pending.append((case, i, ["|".join(outs), k0], "ratesx"))


def normalise_model(model_out):
    """`x<pos>@n` -> `x@n`: the position is internal; it is pinned down by the catalogs the next loop yields"""
    import re
    return "|".join(re.sub(r"^x\d+@", "x@", t) for t in model_out.split("|"))


def compare(run, case, outs, model_out):
    """called by c13.flush for a `ratesx` item.  Strict up to and including the FIRST exception (every earlier operation, the
    fact that the request raises exactly there, and the offending catalog); what the object does after it has raised is
    unconstrained by the property: the agreement with the model (which follows the present code, known finding D27) is only
    counted in run.extra."""
    import re
    impl, k0 = outs
    it, mt = impl.split("|"), normalise_model(model_out).split("|")
    cut = next((j for j, t in enumerate(it) if t.startswith(("x", "g", "e", "s"))), None)
    strict = len(it) if cut is None else cut + 1
    a, b = it[:strict], mt[:strict]
    if a and a[-1].startswith("g") and len(b) == len(a) and b[-1].startswith("e"):
        a, b = a[:-1], b[:-1]            # rates built from an uninitialised scalar: the model says `e` there
    if a and a[-1].startswith("s") and len(b) == len(a) and b[-1].startswith("x"):
        a, b = a[:-1], b[:-1]            # the implementation skips the event, the model (present code) raises: see do_ratesx
    if a and a[-1].startswith("x") and len(b) == len(a):
        a[-1], b[-1] = a[-1].split("@")[0], b[-1].split("@")[0]      # n_cat at the moment of the exception is not promised
    if a != b:
        run.mismatch(case, impl, model_out)
        return
    m = re.search(r"(?:^|\|)x(\d+)@", model_out)
    if m and cut is not None and it[cut].startswith(("x", "s")) and (k0 is None or int(m.group(1)) != k0):
        run.mismatch(case, f"first offending catalog of the once-filtered list: {k0}", model_out)
        return
    if cut is not None and len(it) > strict:
        st = run.extra.setdefault("ratesx_after_exception", dict(agree=0, differ=0))
        rest_i, rest_m = it[strict:], mt[strict:len(it)]
        if rest_i and rest_i[-1].startswith("g"):
            rest_i, rest_m = rest_i[:-1], rest_m[:len(rest_i) - 1]
        st["agree" if rest_i == rest_m else "differ"] += 1


# ----------------------------------------------------------------------------- SIZE THRESHOLD: a region above 2^20 space-magnitude bins
_BIG = {}


def big_region():
    """40 x 30 cells x 900 magnitude bins = 1 080 000 > 2^20 space-magnitude bins; cheap to build (few cells, many magnitude bins)"""
    from csep.core.regions import CartesianGrid2D
    if "r" not in _BIG:
        o = numpy.array([[0.1 * i, 0.1 * j] for j in range(30) for i in range(40)])
        mags = numpy.round(2.0 + 0.01 * numpy.arange(900), 2)
        r = CartesianGrid2D.from_origins(o, dh=0.1, magnitudes=mags)
        idx = r.get_index_of(o[:, 0] + 0.05, o[:, 1] + 0.05)
        origins = numpy.zeros_like(o)
        for k, i in enumerate(idx):
            origins[int(i)] = o[k]
        _BIG["r"] = (r, origins, mags)
    return _BIG["r"]


def gen_bigregion(rng):
    """few catalogs, sparse events, with SEVERAL events of one catalog in the same cell and magnitude bin (aftershock clusters; also
    in the open-ended last magnitude bin)"""
    ncat = rng.randint(2, 3)
    cats = []
    for _ in range(ncat):
        evs = []
        for _ in range(rng.randint(1, 4)):
            cell, mb = rng.randrange(1200), rng.choice([0, 1, 250, 898, 899, 899])
            for _ in range(rng.choice([1, 2, 2, 3])):                      # duplicates in one bin
                evs.append([cell, mb, rng.choice([0.0, 0.004]) if mb < 899 else rng.choice([0.0, 0.5, 2.0])])
        rng.shuffle(evs)
        cats.append(evs)
    return dict(kind="bigregion", cats=cats, source=rng.choice(["list", "gen-store", "tuple"]),
                ops=[rng.choice(["R", "S", "M", "T"]) for _ in range(rng.randint(2, 4))])


def do_bigregion(run, drv, pending, case, tmpdir):
    from csep.core.catalogs import CSEPCatalog
    from csep.core.forecasts import CatalogForecast
    region, origins, mags = big_region()
    n = len(case["cats"])
    tot = {}
    objs = []
    for ci, evs in enumerate(case["cats"]):
        rows = []
        for ei, (cell, mb, dm) in enumerate(evs):
            rows.append((f"c{ci}e{ei}", 1262304000000 + 1000 * (100 * ci + ei), float(origins[cell][1]) + 0.05,
                         float(origins[cell][0]) + 0.05, 10.0, float(mags[mb]) + dm + 0.002))
            tot[(cell, mb)] = tot.get((cell, mb), 0) + 1
        objs.append(CSEPCatalog(data=rows, catalog_id=ci))
    src = case["source"]
    cats = objs if src == "list" else (tuple(objs) if src == "tuple" else (c for c in objs))
    fore = CatalogForecast(catalogs=cats, region=region, name="big-region")
    run.case(case, ("bigregion", json.dumps(case["cats"]), tuple(case["ops"])))
    run.count(f"bigregion:{src}:{region.num_nodes * len(mags)} bins")
    for k, op in enumerate(case["ops"]):
        try:
            if op == "R":
                arr = numpy.asarray(fore.get_expected_rates().data, dtype=float)
                nz = {(int(i), int(j)): float(arr[i, j]) for i, j in zip(*numpy.nonzero(arr))}
                exp = {b: c / n for b, c in tot.items()}
            elif op == "S":
                arr = numpy.asarray(fore.spatial_counts(), dtype=float)
                nz = {int(i): float(arr[i]) for i in numpy.nonzero(arr)[0]}
                exp = {}
                for (c, _m), v in tot.items():
                    exp[c] = exp.get(c, 0) + v / n
            elif op == "M":
                arr = numpy.asarray(fore.magnitude_counts(), dtype=float)
                nz = {int(i): float(arr[i]) for i in numpy.nonzero(arr)[0]}
                exp = {}
                for (_c, m), v in tot.items():
                    exp[m] = exp.get(m, 0) + v / n
            else:
                nz = {0: float(fore.get_expected_rates().sum())}
                exp = {0: sum(tot.values()) / n}
        except Exception as e:
            run.oracle_failure(case, f"op {k} ({op}) on a region of {region.num_nodes * len(mags)} space-magnitude bins raised "
                                     f"{type(e).__name__}: {e}")
            return
        if set(nz) != set(exp) or any(abs(nz[b] - exp[b]) > 1e-12 * max(1.0, exp[b]) for b in exp):
            bad = sorted(set(nz) ^ set(exp), key=str)[:3] or [b for b in exp if abs(nz[b] - exp[b]) > 1e-12][:3]
            run.oracle_failure(case, f"op {k} ({op}) on a region of {region.num_nodes * len(mags)} space-magnitude bins: bins {bad} hold "
                                     f"{[nz.get(b) for b in bad]}, the per-bin means of the catalogs' counts are {[exp.get(b) for b in bad]} "
                                     f"(several events of one catalog share a bin)")
            return
        if fore.n_cat != n:
            run.oracle_failure(case, f"op {k}: n_cat is {fore.n_cat}, the forecast has {n} catalogs")
            return
