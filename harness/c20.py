"""C20 — evaluation outcomes do not depend on storage order.

For every public test of poisson_evaluations, binomial_evaluations, brier_evaluations and catalog_evaluations the
harness runs the real pyCSEP code on (forecast, catalog, region) and on random permutations of
  (a) the observed events, (b) the synthetic catalogs of a catalog forecast, (c) the cells of the region together with
  the forecast's rows,
and evaluates the property on the implementation's own outputs (direct oracle). The Lean driver evaluates the abstract
permutation-invariant functionals of Model/Perm.lean (gridded counts, exact mean rates, Poisson joint log-likelihood,
T and W statistics, inverse-CDF simulation) on the original and the permuted inputs; they must agree with each other and
with what the implementation computes (correspondence).
"""
import contextlib
import io
import math
from fractions import Fraction
from types import SimpleNamespace

import numpy

from .core import Driver, frac, flist, ilist

LEVEL_TEXT = ("Proof: in the model of the gridding / rate-lookup / accumulation loops every step right-commutes, so the four "
              "gridded count arrays are equal for permuted event lists (exact, any length), per-event rates are a permuted "
              "list, every sum over events, bins or synthetic catalogs (Poisson joint log-likelihood with explicit -inf, "
              "T-test information gain and variance, W-test signed-rank statistic via counting ranks, mean rates) is equal "
              "over the reals, simulation-free distributions are equal as multisets / sorted lists / in every empirical "
              "quantile, consistent re-indexing of cells and rates leaves every sum over bins unchanged, and with the "
              "uniform stream fixed the simulated test outcome is a function of the count arrays only, hence equal in any "
              "arithmetic (bit for bit). For regions that locate every event by its own scan of half-open boxes (quadtree) "
              "the located cells of permuted events are a permuted list and no event's cell depends on the events stored "
              "before it, tile edges and corners included; a session of in-place re-orderings of the rows of ONE catalog "
              "object shows every evaluation of the session the same gridded arrays. "
              "Tied to the code by running all 18 public evaluations on permuted inputs every run: new catalog objects, "
              "shared region / forecast objects, and one catalog object re-ordered in place between rounds. "
              "Round 4: (i) the catalog-based S / PL / M / resampled-M / MLL tests of C10's concrete model (whole Result incl. the "
              "undersampled branch, nan removal, skipped empty catalogs) are proved independent of the storage order of the synthetic "
              "catalogs in ANY arithmetic (integer sums), and of the observed events; (ii) 'to rounding' is now a theorem: for binary64 "
              "terms summed in ANY two orders and bracketings (numpy.sum pairwise blocks, sum(), cumsum) the results differ by at most "
              "((1+u)^d + (1+u)^d' - 2) * sum|x|, u = 2^-53 (float_sum_any_order_close; explicit (d+d')*2^-52*sum|x| up to 2^52 terms), "
              "sums of counts below 2^53 are exact in every order (float_sum_integers_exact); numpy.sum's pairwise algorithm and the "
              "sequential sum are modelled on Soft64 and agree with numpy bit for bit on every generated term list. "
              "Round 6 prep: the pairwise algorithm is PROVED to be a bracketing of its terms of depth <= 25 + levels "
              "(numpy_sum_is_bracketing), so the bound holds for numpy.sum by theorem: numpy.sum of permuted float64 terms differs by "
              "at most (25 + f) * 2^-51 * sum|x| for up to 112*2^f + 16 terms (numpy_sum_perm_close_explicit), sums of counts are exact "
              "(numpy_sum_integers_exact); the single validated statement left is 'numpy.sum of a contiguous float64 array = "
              "pairwiseSum'. The paired T / binary T public wrappers, the exact-layer W statistics (rank sums, tie term via the distinct "
              "values) and the binary S / CL / Brier test pipelines of the concrete C08 / C16 models are proved invariant under "
              "permutation of the observed events (Properties/C20_Paired.lean).")
LEVEL_NOTE = ("The model takes the (cell, bin) index of each event as given for Cartesian regions (region lookup is property "
              "C01/C02), for quadtree regions it locates the events itself from the region's boxes (first hit, no memory) and takes the "
              "random stream as an input; scipy's poisson/nbinom/t/norm distribution functions and rankdata are represented "
              "by their specification or left as parameters; float rounding of log is not modelled; float rounding of SUMS is bounded by "
              "theorem (Properties/C20_FloatSum.lean) for every bracketing, numpy.sum's own included (its algorithm is modelled, proved "
              "to be a bracketing, and validated bit for bit); results are compared to 1e-9 relative, seeded simulations bit for bit. Storage orders exercised since "
              "round 4: memory layout of the rate arrays (C / Fortran / transposed / negatively strided / sliced), cell order of CSEP1 "
              "ascii forecast FILES and catalog order of csep-ascii catalog-forecast FILES read by the library's loaders; every "
              "statistic also against the exact-reference models (c05_test, c16_test, c10_s/pl/m, c20_ttest/wtest).")
DESIGN_REF = "DESIGN.md §4 C20"
TECHNIQUE = "Lean 4 proof (List.Perm, right-commuting folds) + metamorphic correspondence harness"

THEOREMS = ["PermInv.counts_perm", "PermInv.counts_spec", "PermInv.target_rates_perm", "PermInv.stat_perm_events",
            "PermInv.sum_perm_fold", "PermInv.sum_perm", "PermInv.sum_perm_jointLL", "PermInv.sum_perm_tTest",
            "PermInv.sum_perm_wTest", "PermInv.wTest_sorted_abs", "PermInv.mean_rates_perm_catalogs",
            "PermInv.mean_rates_perm_within", "PermInv.distribution_perm_catalogs",
            "PermInv.distribution_sorted_perm_catalogs", "PermInv.distribution_perm_within", "PermInv.stat_perm_cells",
            "PermInv.stat_perm_cells_index", "PermInv.stat_perm_cells_events", "PermInv.counts_relabel",
            "PermInv.seeded_bit_identical", "PermInv.seeded_bit_identical_binary",
            "PermInv.lookup_perm", "PermInv.lookup_no_memory", "PermInv.lookup_first_hit", "PermInv.lookup_edge",
            "PermInv.inplace_reorder_counts", "PermInv.inplace_session", "PermInv.inplace_session_lookup",
            # wave 4 (Properties/C20_Concrete.lean): the concrete models of C03, C05, C16, C10, C07, C13
            "PermInv.Concrete.gridding_counts_perm", "PermInv.Concrete.gridding_smc_perm",
            "PermInv.Concrete.gridding_pipeline_perm", "PermInv.Concrete.poisson_jointLL_perm",
            "PermInv.Concrete.poisson_stat_perm", "PermInv.Concrete.poisson_testStat_perm_events",
            "PermInv.Concrete.magMarginal_perm", "PermInv.Concrete.magMarginalN_perm",
            "PermInv.Concrete.poisson_testStat_perm_cells", "PermInv.Concrete.binary_brier_perm",
            "PermInv.Concrete.binary_brier_perm_cells", "PermInv.Concrete.catalog_meanRates_perm",
            "PermInv.Concrete.catalog_numberTest_perm", "PermInv.Concrete.catalogNTest_perm",
            "PermInv.Concrete.forecastIter_accumulate_perm",
            # round 4 (Properties/C20_Catalog.lean, Properties/C20_FloatSum.lean)
            "PermInv.Concrete.quantiles_perm", "PermInv.Concrete.catalog_spatialTest_perm",
            "PermInv.Concrete.catalog_pseudolikelihoodTest_perm", "PermInv.Concrete.catalog_magnitudeTest_perm",
            "PermInv.Concrete.catalog_unionHist_perm", "PermInv.Concrete.catalog_resampled_mll_perm",
            "PermInv.Concrete.catalog_tests_perm_observed",
            "FloatSum.float_sum_bracketing_error", "FloatSum.float_sum_any_order_close", "FloatSum.pow_bound",
            "FloatSum.float_sum_any_order_close_explicit", "FloatSum.seq_sum_perm_close", "FloatSum.float_sum_integers_exact",
            "FloatSum.float_sum_integers_any_order",
            # numpy.sum itself (Proofs/FloatSumPairwise.lean) and the concrete paired / binary tests (Properties/C20_Paired.lean)
            "FloatSum.numpy_sum_is_bracketing", "FloatSum.numpy_sum_error", "FloatSum.numpy_sum_perm_close",
            "FloatSum.numpy_sum_perm_close_explicit", "FloatSum.numpy_sum_integers_exact",
            "PermInv.Concrete.eraseDups_perm", "PermInv.Concrete.tieTerm_perm", "PermInv.Concrete.wStatsD_perm",
            "PermInv.Concrete.wStats_perm_events", "PermInv.Concrete.pairedTPub_perm_events",
            "PermInv.Concrete.binaryTPub_perm_events", "PermInv.Concrete.pairedT_perm_cells",
            "PermInv.Concrete.binaryTests_perm_events"]
TRUSTED = ["Lean 4.33 kernel", "axioms: propext, Classical.choice, Quot.sound at most",
           "the (cell, bin) index the region lookup assigns to an event is an input of the model (events are generated "
           "strictly inside cells and bins; the lookup itself is properties C01/C02)",
           "scipy.stats poisson/nbinom cdf, t.ppf, norm.sf are deterministic functions of their arguments; "
           "scipy.stats.rankdata(method='average') is modelled by #less + (#equal + 1)/2",
           "numpy.random streams: the model takes the uniform numbers as input; the harness fixes the seed",
           "Float log rounding is not modelled: Lean Float results are compared with numpy to 1e-9 relative; numpy.sum's bracketing is "
           "modelled (FloatSum.pairwiseSum) and validated bit for bit every run, the error bound is proved for every bracketing",
           "numpy.loadtxt / csv reading of the forecast files the harness writes (decimal text of shortest round-trip reprs)",
           "quadtree tile boxes are read from region.bounds (their values are property C17); mercantile gives the generator "
           "the same edge coordinates",
           "harness/c20.py generators, permutation plumbing and comparison; driver parsing (Proto.lean, Drive/C20.lean)"]
RULE = ("random regions of 1..40 cells (random subsets of a lattice, stored in random order; rectangles, single rows/columns, "
        "single cell), 1..6 magnitude bins of uniform width, forecasts with positive rates (some with zero-rate cells, "
        "some with equal rates), observed catalogs of 0..200 events with many events per cell and per bin, catalog "
        "forecasts of 1..40 synthetic catalogs including empty ones; per case 3 (quick) or 4-5 (thorough) random "
        "permutations each of the observed events, the synthetic catalogs and the cells (always: reversal, time-sorted events, empty catalogs first, lexicographically sorted cells); 18 evaluations per variant. "
        "About a quarter of the cases use a QUADTREE region (from_single_resolution zoom 1-3, from_quadkeys with mixed depths, "
        "partial coverage and shuffled tiles, from_catalog built from the observed events themselves) with ~40% of the events "
        "exactly on a tile's west / south edge or south-west corner (= east / north edge of the neighbour), each with companion "
        "events inside the tiles west / south / south-west of it; the event orders then include one in which every edge event is "
        "stored directly after a companion and one in which it is stored directly before it; cells are re-ordered through "
        "from_quadkeys. Every second event variant re-uses the region and forecast OBJECTS of the base input. Every case ends "
        "with a session on ONE catalog object and ONE catalog-forecast object: all evaluations, then the stored rows are "
        "re-ordered in place (catalog.catalog[:] = catalog.catalog[perm], .sort(order='origin_time' / 'magnitude'), "
        "Generator.shuffle, re-assignment through the setter), all evaluations again on the same objects (2 re-orderings quick, "
        "3 thorough), finally the synthetic catalogs are re-ordered in place (the list and the rows of each). "
        "A case is non-trivial when some permutation changes the stored order of distinguishable items (>= 2 distinct "
        "events / catalogs / cells); distinct by generated input"
        " Wave 5: every case draws a keyword configuration kept for all its re-orderings: T-test alpha 0.05/0.01/0.1 and "
        "scale=True, W-test scale=True, MLL full_calculation=True, verbose=True, the random stream fixed by seed= / by the "
        "caller seeding numpy's global generator with seed=None / by injected random_numbers (CL, S, M); a third of the "
        "cases hand N / NBD-N / L / CL / binary-CL / Brier an observed catalog WITHOUT region (the test binds the "
        "forecast's), also as a shared object in the in-place session; one (thorough: three) catalog with more than 2^16 "
        "observed events per run. Round 4: the rate arrays of the base input, of two extra variants per case and of every cell "
        "permutation are stored C-contiguous / Fortran-contiguous / as a transposed view / negatively strided / as a strided slice "
        "(no ascontiguousarray anywhere); Cartesian cases also write both forecasts to CSEP1 ascii files with the cell blocks in the "
        "base order, latitude-major north-to-south, lon-major ascending and shuffled, and the synthetic catalogs to a csep-ascii "
        "catalog-forecast file in two catalog orders (explicit rows for empty catalogs), load them with GriddedForecast.load_ascii / "
        "csep.load_catalog_forecast and evaluate: every order must agree with the in-memory base input and with the exact-reference "
        "models. Round 6 prep: every case draws whether the public keyword arguments are passed as keywords or positionally, whether "
        "the observed catalog object is a CSEPCatalog or a UCERF3Catalog (big-endian structured rows), zero rates spelled -0.0 in 30 % "
        "of the zero-rate forecasts; forecast files are loaded alternately through GriddedForecast.load_ascii and the module-level "
        "csep.load_gridded_forecast; the rates of the shared forecast objects and the injected numbers must be unchanged after all "
        "evaluations. Round 7: (h) the observed catalog is handed over as copy.copy / deepcopy / pickle image / to_dict->from_dict "
        "image / write_json->load_json image (dict / JSON: Cartesian regions only and only the evaluations that do not need the "
        "catalog's own magnitude bins - the unchanged tree returns the region without magnitudes and loses quadtree regions, D43), "
        "forecasts (with their region) as copy / deepcopy / pickle image; (i) rejected calls on the shared forecast objects before "
        "the judged sequence; (j) observed catalog of a user subclass whose accessors present the events in time order whatever the "
        "storage order; (k) numpy.errstate(divide/invalid='raise') around the N-tests; (l) the same forecast object as both arguments "
        "of paired_t_test / w_test, the observed catalog being one of the catalog forecast's own catalog objects")

REL, ABS = 1e-9, 1e-12
GRIDDED_SIM = ["poisson_L", "poisson_CL", "poisson_S", "poisson_M", "binary_S", "binary_CL", "brier"]
GRIDDED_ANALYTIC = ["poisson_N", "nbd_N", "paired_T", "W", "binary_T", "paired_T_same", "W_same"]
CATALOG_FREE = ["cat_N", "cat_S", "cat_M", "cat_PL", "cat_N_own"]
CATALOG_SEEDED = ["cat_resampled_M", "cat_MLL"]


# ----------------------------------------------------------------------------- generation (rng only, no csep)
def _r(x):
    return round(float(x), 10)


# quadtree tiles for the generator (mercantile is the third-party tile library pyCSEP itself takes the bounds from;
# no csep code is used here).  A tile is named by its quadkey; its box is half-open [west, east) x [south, north).
def _qt_box(qk):
    import mercantile
    b = mercantile.bounds(mercantile.quadkey_to_tile(qk))
    return (b.west, b.south, b.east, b.north)


def _qt_single(zoom):
    out = []

    def rec(q):
        if len(q) < zoom:
            for d in "0123":
                rec(q + d)
        else:
            out.append(q)
    for d in "0123":
        rec(d)
    return out


def _qt_refine(pts, threshold, zoom):
    """the leaves QuadtreeGrid2D.from_catalog is documented to give: a tile is split while it holds more than
    `threshold` points and is shallower than `zoom` (children in the order 0,1,2,3, depth first)"""
    out = []

    def rec(q):
        w, s_, e, n = _qt_box(q)
        cnt = sum(1 for lon, lat in pts if w <= lon < e and s_ <= lat < n)
        if cnt > threshold and len(q) < zoom:
            for d in "0123":
                rec(q + d)
        else:
            out.append(q)
    for d in "0123":
        rec(d)
    return out


def _find_box(boxes, lon, lat):
    """index of the first half-open box holding the point (stateless, one point at a time), None if there is none"""
    for i, (w, s_, e, n) in enumerate(boxes):
        if w <= lon < e and s_ <= lat < n:
            return i
    return None


def _perm_list(rng, n, nperm):
    out = []
    for _ in range(nperm):
        p = list(range(n))
        rng.shuffle(p)
        out.append(p)
    if n >= 2:
        out[0] = list(range(n))[::-1]                # reversal always included
    return out


def _inplace_steps(rng, n_perms, big):
    """the session on ONE catalog object: how its stored rows are re-ordered between two rounds of evaluations"""
    hows = ["slice-assign", "sort-time", "setter", "shuffle", "sort-magnitude"]
    steps = [["slice-assign", rng.randrange(n_perms)], [rng.choice(hows), rng.randrange(n_perms)]]
    if big:
        steps.append([rng.choice(hows), rng.randrange(n_perms)])
    rng.shuffle(steps)
    return steps


LAYOUTS = ["C", "F", "T", "neg", "slice"]


def _lay(a, how):
    """an array equal to `a` element by element (same shape, same logical order) in another MEMORY layout - storage order of
    the rates: C-contiguous, Fortran-contiguous, transposed view, negatively strided view, strided slice of a larger array"""
    a = numpy.asarray(a, dtype=float)
    if how in (None, "C") or a.ndim != 2:
        return a.copy()
    if how == "F":
        out = numpy.asfortranarray(a.copy())
    elif how == "T":
        out = numpy.ascontiguousarray(a.T).T
    elif how == "neg":
        out = a[::-1, ::-1].copy()[::-1, ::-1]
    else:
        big = numpy.full((2 * a.shape[0] + 1, a.shape[1] + 2), 777.0)
        big[1::2, 1:a.shape[1] + 1] = a
        out = big[1::2, 1:a.shape[1] + 1]
    assert out.shape == a.shape and numpy.array_equal(out, a)
    return out


def gen_input(rng, tier, force=None):
    """`_gen_input_core` plus the storage orders of round 4: the MEMORY LAYOUT of the rate arrays (base input, extra variants
    that differ from the base in nothing else, every cell permutation) and - Cartesian regions - the order of the cell blocks
    in a CSEP1 ascii FORECAST FILE the forecast is written to and loaded from with the library's loader"""
    inp = _gen_input_core(rng, tier, force)
    nc = len(inp["origins"])
    inp["layout"] = rng.choice(["C", "C", "F", "T", "neg", "slice"])
    inp["layout_variants"] = rng.sample([l for l in LAYOUTS if l != inp["layout"]], 2)
    inp["cell_layouts"] = [rng.choice(LAYOUTS) for _ in inp["cell_perms"]]
    n_cat = len(inp["cats"])
    if n_cat >= 1 and "qt" not in inp:
        sh = list(range(n_cat))
        rng.shuffle(sh)
        inp["cat_file_perms"] = [list(range(n_cat)), sorted(range(n_cat), key=lambda i: len(inp["cats"][i])) if rng.random() < 0.5 else sh]
    if "qt" not in inp and inp.get("origin_style", "clean") == "clean":            # files carry decimal text: clean lattices only
        orders = [list(range(nc))]                                                   # the base order itself
        o = inp["origins"]
        orders.append(sorted(range(nc), key=lambda i: (-o[i][1], o[i][0])))          # latitude-major, north to south
        orders.append(sorted(range(nc), key=lambda i: (o[i][0], o[i][1])))           # CSEP1 canonical: lon-major ascending
        sh = list(range(nc))
        rng.shuffle(sh)
        orders.append(sh)
        inp["file_perms"] = orders if tier != "quick" else [orders[0], orders[rng.choice([1, 1, 3])], orders[2]][:2 + (rng.random() < 0.5)]
    return inp


def _gen_input_core(rng, tier, force=None):
    """one explicit, JSON-able input: region, magnitudes, two forecasts, observed events, synthetic catalogs, permutations"""
    big = tier == "thorough"
    shape = force or rng.choice(["subset", "subset", "subset", "rect", "row", "col", "single", "subset-large",
                                 "qt-single", "qt-quadkeys", "qt-catalog"])
    if shape.startswith("qt-"):
        return _gen_input_qt(rng, tier, shape)
    dh = rng.choice([0.1, 0.1, 0.25, 0.5, 1.0])
    x0 = rng.choice([0.0, -120.0, 10.0, 170.0, -5.0])
    y0 = rng.choice([0.0, 30.0, -40.0, 35.5])
    if shape == "single":
        cells = [(0, 0)]
    elif shape == "row":
        cells = [(i, 0) for i in range(rng.randint(2, 9))]
    elif shape == "col":
        cells = [(0, i) for i in range(rng.randint(2, 9))]
    elif shape == "rect":
        w, h = rng.randint(2, 6), rng.randint(2, 6)
        cells = [(i, j) for i in range(w) for j in range(h)]
    else:
        w, h = (rng.randint(2, 5), rng.randint(2, 5)) if shape == "subset" else (rng.randint(5, 8), rng.randint(5, 8))
        lattice = [(i, j) for i in range(w) for j in range(h)]
        k = rng.randint(2, min(len(lattice), 40))
        cells = rng.sample(lattice, k)
    cells = cells[:40]
    rng.shuffle(cells)                      # storage order of the base input is already arbitrary
    # round 5: origins as users COMPUTE them, not as clean decimals: lon - 360, k * dh accumulated from the first edge,
    # numpy.linspace - the same lattice up to round-off (often just BELOW the clean edge)
    ostyle = rng.choice(["clean", "clean", "clean", "minus360", "minus360", "accumulated", "linspace", "scaled"])
    if ostyle != "clean" and shape != "single" and rng.random() < 0.6:
        # a dense lattice (every cell has stored neighbours), stored in random order
        dense = [(i, j) for i in range(max(i for i, _ in cells) + 1) for j in range(max(j for _, j in cells) + 1)][:40]
        if len(dense) >= 2:
            rng.shuffle(dense)
            cells = dense
    origins = [[_r(x0 + i * dh), _r(y0 + j * dh)] for i, j in cells]
    if ostyle != "clean":
        imax, jmax = max(i for i, _ in cells), max(j for _, j in cells)

        def axis(a0, kmax):
            if ostyle == "minus360":
                return [(_r(a0 + k * dh) + 360.0) - 360.0 for k in range(kmax + 1)]
            if ostyle == "accumulated":
                out, v = [], a0
                for _ in range(kmax + 1):
                    out.append(v)
                    v = v + dh
                return out
            if ostyle == "linspace":
                return [float(v) for v in numpy.linspace(a0, a0 + kmax * dh, kmax + 1)]
            return [a0 + k * dh for k in range(kmax + 1)]              # "scaled": one multiplication and one addition
        ax, ay = axis(x0, imax), axis(y0, jmax)
        origins = [[ax[i], ay[j]] for i, j in cells]
    nc = len(origins)
    nb = rng.choice([1, 2, 3, 3, 4, 5, 6])
    dm = rng.choice([0.1, 0.5, 1.0])
    m0 = rng.choice([2.5, 4.0, 4.95, 5.0])
    mags = [_r(m0 + k * dm) for k in range(nb)]
    kind1, kind2, rates1, rates2 = _gen_rates(rng, nc, nb)
    mirror_pairs = []
    if nc >= 2 and rng.random() < 0.15:
        # MIRROR-IMAGE forecasts: the second is the first with pairs of cells swapped; dyadic rates, so both totals are equal
        # exactly in every summation order. An event in each cell of a swapped pair gives log-rate differences of the same
        # absolute value and opposite sign: tied absolute ranks across signs in the W-test
        kind1, kind2 = "mirror", "mirror"
        rates1 = [[rng.choice([0.125, 0.25, 0.5, 1.0, 2.0, 4.0]) for _ in range(nb)] for _ in range(nc)]
        idx = list(range(nc))
        rng.shuffle(idx)
        swap = list(range(nc))
        for a, b in zip(idx[0::2], idx[1::2]):
            if rates1[a] != rates1[b] or rng.random() < 0.3:
                swap[a], swap[b] = b, a
                mirror_pairs.append((a, b))
        rates2 = [list(rates1[swap[c]]) for c in range(nc)]

    def event(k, c, b):
        lon = origins[c][0] + dh * rng.uniform(0.25, 0.75)
        lat = origins[c][1] + dh * rng.uniform(0.25, 0.75)
        mag = mags[b] + dm * rng.uniform(0.25, 0.75)
        return [k, rng.randrange(10 ** 9, 2 * 10 ** 12), lat, lon, rng.uniform(0, 30), mag, c, b]
    events, cats = _gen_catalogs(rng, big, nc, nb, rates1, kind1, event)
    for a, b in mirror_pairs[:4]:
        bn = rng.randrange(nb)
        for c in [a, b] + ([a] if rng.random() < 0.3 else []):
            events.insert(rng.randint(0, len(events)), event(0, c, bn))
    for k, e in enumerate(events):
        e[0] = k
    nperm = rng.choice([4, 5]) if big else 3
    ev_perms = _perm_list(rng, len(events), nperm)
    if len(events) >= 2:
        ev_perms[1] = sorted(range(len(events)), key=lambda i: events[i][1])      # time-sorted storage
    n_cat = len(cats)
    cat_perms = _perm_list(rng, n_cat, nperm)
    if n_cat >= 2:
        cat_perms[1] = sorted(range(n_cat), key=lambda i: len(cats[i]))            # empty catalogs first
    cell_perms = _perm_list(rng, nc, nperm)
    if nc >= 2:
        cell_perms[1] = sorted(range(nc), key=lambda i: (origins[i][0], origins[i][1]))   # lexicographically sorted cells
    return dict(origin_style=ostyle, shape=shape, dh=dh, origins=origins, mags=mags, dm=dm, rates1=rates1, rates2=rates2, kinds=[kind1, kind2],
                events=events, cats=cats, ev_perms=ev_perms, cat_perms=cat_perms, cell_perms=cell_perms,
                inplace=_inplace_steps(rng, nperm, big), kw=_gen_kw(rng),
                seed=rng.randrange(0, 2 ** 31), nsim=rng.choice([5, 10, 20]), variance_factor=rng.choice([1.5, 3.0, 10.0]))


def _gen_kw(rng):
    """evaluation keywords of one case (the same for the base input and every re-ordering of it): every keyword of the
    public evaluation functions takes each of its non-default values in a fair share of the cases"""
    return dict(t_alpha=rng.choice([0.05, 0.05, 0.01, 0.1]), t_scale=rng.random() < 0.2, w_scale=rng.random() < 0.2,
                sim_mode=rng.choice(["seed", "seed", "global-seed", "random_numbers"]),   # how the random stream is fixed
                mll_full=rng.random() < 0.3, verbose=rng.random() < 0.3,
                call_form=rng.choice(["keyword", "keyword", "positional"]),   # public keyword arguments as keywords / positionally
                obs_class=rng.choice(["CSEPCatalog", "CSEPCatalog", "UCERF3Catalog", "accessor-order"]),   # class of the observed catalog object
                obs_form=rng.choice(["plain", "plain", "plain", "copy", "deepcopy", "pickle", "dict", "json"]),     # (h) image of the observed catalog
                fore_form=rng.choice(["plain", "plain", "plain", "copy", "deepcopy", "pickle"]),                   # (h) image of the forecasts (with their region)
                errstate=rng.random() < 0.3,                                                                        # (k)
                bad_call_first=rng.random() < 0.3,                                                                  # (i)
                obs_region=rng.choice(["bound", "bound", "none"]))     # observed catalog with / without its own region (D40)


def _gen_rates(rng, nc, nb, allow_zeros=True):
    def rates(kind):
        if kind == "equal":
            v = rng.choice([0.01, 0.5, 3.0])
            return [[v] * nb for _ in range(nc)]
        out = [[rng.choice([rng.uniform(0.05, 3.0), 10.0 ** rng.uniform(-4, 0.5)]) for _ in range(nb)] for _ in range(nc)]
        if kind == "zeros" and nc >= 2:
            for c in rng.sample(range(nc), rng.randint(1, max(1, nc // 3))):
                if rng.random() < 0.5:
                    out[c] = [0.0] * nb
                else:
                    out[c][rng.randrange(nb)] = 0.0
            if all(v == 0.0 for row in out for v in row):
                out[0][0] = 1.0
            if rng.random() < 0.3:
                out = [[(-0.0 if v == 0.0 else v) for v in row] for row in out]     # zero rates spelled as NEGATIVE zero
        return out
    kind1 = rng.choice(["pos", "pos", "pos", "zeros", "equal"] if allow_zeros else ["pos", "pos", "equal"])
    kind2 = rng.choice(["pos", "pos", "equal"]) if kind1 != "equal" else "pos"
    return kind1, kind2, rates(kind1), rates(kind2)


def _gen_catalogs(rng, big, nc, nb, rates1, kind1, event, n_obs=None):
    def catalog(n, avoid_zero):
        hot = [rng.randrange(nc) for _ in range(rng.randint(1, 3))]
        evs = []
        for k in range(n):
            for _ in range(50):
                c = rng.choice(hot) if rng.random() < 0.6 else rng.randrange(nc)
                b = min(int(rng.expovariate(1.2)), nb - 1) if rng.random() < 0.7 else rng.randrange(nb)
                if not avoid_zero or rates1[c][b] > 0.0:
                    break
            else:
                c, b = next((c, b) for c in range(nc) for b in range(nb) if rates1[c][b] > 0.0)
            evs.append(event(k, c, b))
        return evs
    nmax = 200 if big else 120
    if n_obs is None:
        n_obs = rng.choice([0, 1, 2, 3, rng.randint(4, 30), rng.randint(4, 30), rng.randint(30, nmax), rng.randint(10, nmax)])
    # events in zero-rate bins are tolerated by the Poisson tests (-inf); keep them rare
    avoid_zero = not (kind1 == "zeros" and rng.random() < 0.3)
    events = catalog(n_obs, avoid_zero)
    n_cat = rng.choice([1, 2, 3, rng.randint(4, 12), rng.randint(4, 12), rng.randint(12, 40 if big else 25)])
    cats = []
    for _ in range(n_cat):
        n = rng.choice([0, 0, 1, 2, rng.randint(3, 20), rng.randint(3, 20), rng.randint(20, 60)])
        cats.append(catalog(n, False))
    return events, cats


def _gen_input_qt(rng, tier, shape):
    """a QUADTREE region (built by from_single_resolution / from_quadkeys / from_catalog) with observed and synthetic
    events inside tiles, exactly on tile edges (west / south edge of their tile = east / north edge of the neighbour) and
    on tile corners; every edge event gets companions in the tiles west / south / south-west of it, and the storage
    orders include some in which the edge event directly follows such a companion and some in which it does not."""
    big = tier == "thorough"
    ctor = shape[3:]
    nb = rng.choice([1, 2, 3, 3, 4])
    dm = rng.choice([0.1, 0.5, 1.0])
    m0 = rng.choice([2.5, 4.0, 4.95, 5.0])
    mags = [_r(m0 + k * dm) for k in range(nb)]
    qt = dict(ctor=ctor)
    if ctor == "single":
        qt["zoom"] = rng.choice([1, 2, 2, 3] if big else [1, 2, 2, 2, 3])
        keys = _qt_single(qt["zoom"])
    elif ctor == "quadkeys":
        keys = ["0", "1", "2", "3"]
        for _ in range(rng.randint(0, 7)):
            cand = [q for q in keys if len(q) < 4]
            if not cand or len(keys) > 36:
                break
            q = rng.choice(cand)
            i = keys.index(q)
            keys[i:i + 1] = [q + d for d in "0123"]
        if rng.random() < 0.45 and len(keys) > 4:
            for q in rng.sample(keys, rng.randint(1, len(keys) // 3)):          # partial coverage of the globe
                keys.remove(q)
                qt.setdefault("removed", []).append(q)
        rng.shuffle(keys)                                                         # arbitrary storage order of the tiles
    else:
        qt["threshold"] = rng.choice([1, 2, 4, 8])
        qt["zoom"] = rng.choice([2, 3, 3, 4])
        centres = [(rng.uniform(-170, 170), rng.uniform(-75, 75)) for _ in range(rng.randint(1, 3))]
        seeds = []
        for _ in range(rng.choice([0, 2, 5, 12, 30])):
            cx, cy = rng.choice(centres)
            seeds.append((max(-179.0, min(179.0, cx + rng.gauss(0, 15))), max(-84.0, min(84.0, cy + rng.gauss(0, 10)))))
        keys = _qt_refine(seeds, qt["threshold"], qt["zoom"])
    boxes = [_qt_box(q) for q in keys]
    nc = len(keys)
    # from_catalog: the tiles depend on the events, which are placed before the rates exist -> no zero-rate logic there
    kind1, kind2, rates1, rates2 = _gen_rates(rng, nc, nb, allow_zeros=ctor != "catalog")

    def place(c, how):
        w, s_, e, n = boxes[c]
        lon = w if how in ("W", "SW") else w + (e - w) * rng.uniform(0.1, 0.9)
        lat = s_ if how in ("S", "SW") else s_ + (n - s_) * rng.uniform(0.1, 0.9)
        return lon, lat

    def event(k, c, b, how=None):
        how = how or rng.choice(["in", "in", "in", "in", "W", "S", "SW"])
        lon, lat = place(c, how)
        mag = mags[b] + dm * rng.uniform(0.25, 0.75)
        return [k, rng.randrange(10 ** 9, 2 * 10 ** 12), lat, lon, rng.uniform(0, 30), mag, c, b, how]
    nmax = 80 if big else 50
    n_obs = rng.choice([0, 1, 2, 3, rng.randint(4, 20), rng.randint(4, 20), rng.randint(10, nmax)])
    events, cats = _gen_catalogs(rng, big, nc, nb, rates1, kind1, event, n_obs=n_obs)
    cats = cats[:12]
    if qt.get("removed") and rng.random() < 0.7:
        # events that lie in NO tile (inside a removed tile, i.e. inside the grid's bounding box): observed and synthetic
        def gap_event(k):
            w, s_, e, n = _qt_box(rng.choice(qt["removed"]))
            return [k, rng.randrange(10 ** 9, 2 * 10 ** 12), s_ + (n - s_) * rng.uniform(0.1, 0.9), w + (e - w) * rng.uniform(0.1, 0.9),
                    rng.uniform(0, 30), mags[rng.randrange(nb)] + dm * rng.uniform(0.25, 0.75), None, rng.randrange(nb), "gap"]
        for _ in range(rng.randint(1, 3)):
            events.append(gap_event(len(events)))
        for cc in cats:
            if rng.random() < 0.3:
                cc.append(gap_event(len(cc)))
        for e in events:
            if e[8] == "gap":
                e[7] = min(nb - 1, max(0, int((e[5] - mags[0]) / dm)))
    # companions: an event strictly inside the tile that lies west / south / south-west of an edge event
    adjacent = []
    for e in list(events):
        how = e[8]
        if how in ("in", "gap") or rng.random() < 0.15:
            continue
        w, s_, east, north = boxes[e[6]]
        dx, dy = (east - w) * rng.uniform(0.02, 0.2), (north - s_) * rng.uniform(0.02, 0.2)
        probes = dict(W=[(e[3] - dx, e[2] + (dy if how == "SW" else 0.0))], S=[(e[3] + (dx if how == "SW" else 0.0), e[2] - dy)],
                      SW=[(e[3] - dx, e[2] - dy)])
        dirs = dict(W=["W"], S=["S"], SW=["W", "S", "SW"])[how]
        for d in dirs:
            lon, lat = probes[d][0]
            c = _find_box(boxes, lon, lat)
            if c is None:
                continue
            ok_bins = [b for b in range(nb) if rates1[c][b] > 0.0] or list(range(nb))
            b = rng.choice(ok_bins)
            k = len(events)
            events.append([k, rng.randrange(10 ** 9, 2 * 10 ** 12), lat, lon, rng.uniform(0, 30),
                           mags[b] + dm * rng.uniform(0.25, 0.75), c, b, "companion"])
            adjacent.append([k, e[0]])
    order = list(range(len(events)))
    rng.shuffle(order)                                  # base storage order: arbitrary
    renum = {old: new for new, old in enumerate(order)}
    events = [events[i][:] for i in order]
    for new, e in enumerate(events):
        e[0] = new
    adjacent = [[renum[a], renum[b]] for a, b in adjacent]
    if ctor == "catalog":
        # the region is built from the observed events themselves: refine on their coordinates, then re-locate
        pts = [(e[3], e[2]) for e in events]
        keys = _qt_refine(pts, qt["threshold"], qt["zoom"])
        boxes = [_qt_box(q) for q in keys]
        nc = len(keys)
        kind1, kind2, rates1, rates2 = _gen_rates(rng, nc, nb, allow_zeros=False)
        for evs in [events] + cats:
            for e in evs:
                e[6] = _find_box(boxes, e[3], e[2])
    qt["keys"] = keys
    n = len(events)
    nperm = 5 if big else 4
    ev_perms = _perm_list(rng, n, nperm)
    if n >= 2:
        ev_perms[1] = sorted(range(n), key=lambda i: events[i][1])

        def adjacency_order():
            """every edge event stored directly after one of its companions"""
            comp = {}
            for a, b in adjacent:
                comp.setdefault(b, []).append(a)
            chosen = {b: rng.choice(v) for b, v in comp.items()}
            used = set(chosen.values())
            units = [[chosen[i], i] if i in chosen else [i] for i in range(n) if i not in used or i in chosen]
            # an event that is a companion AND an edge event with its own companion keeps one role (edge event)
            seen, flat = set(), []
            rng.shuffle(units)
            for u in units:
                for i in u:
                    if i not in seen:
                        seen.add(i)
                        flat.append(i)
            flat += [i for i in range(n) if i not in seen]
            return flat
        ev_perms[2] = adjacency_order()
        ev_perms[3] = adjacency_order()[::-1]            # ... and directly BEFORE it
    n_cat = len(cats)
    cat_perms = _perm_list(rng, n_cat, 3)
    if n_cat >= 2:
        cat_perms[1] = sorted(range(n_cat), key=lambda i: len(cats[i]))
    cell_perms = _perm_list(rng, nc, 3)
    if nc >= 2:
        cell_perms[1] = sorted(range(nc), key=lambda i: keys[i])                  # tiles sorted by quadkey
    return dict(shape=shape, qt=qt, dh=None, origins=[[b[0], b[1]] for b in boxes], mags=mags, dm=dm, rates1=rates1,
                rates2=rates2, kinds=[kind1, kind2], events=events, cats=cats, adjacent=adjacent, ev_perms=ev_perms,
                cat_perms=cat_perms, cell_perms=cell_perms, inplace=_inplace_steps(rng, nperm, big),
                kw=_gen_kw(rng), seed=rng.randrange(0, 2 ** 31), nsim=rng.choice([5, 10]), variance_factor=rng.choice([1.5, 3.0, 10.0]))


# ----------------------------------------------------------------------------- building pyCSEP objects
def _rows(evs):
    return [(str(e[0]), int(e[1]), float(e[2]), float(e[3]), float(e[4]), float(e[5])) for e in evs]


def _region(inp, sigma, identity, events, mags):
    """the region of a variant: Cartesian cells from their origins, quadtree tiles through the constructor the input
    names (identity order) or through from_quadkeys on the re-ordered quadkeys (cell permutations)"""
    from csep.core.regions import CartesianGrid2D, QuadtreeGrid2D
    from csep.core.catalogs import CSEPCatalog
    qt = inp.get("qt")
    if qt is None:
        origins = numpy.array([inp["origins"][i] for i in sigma], dtype=float)
        return CartesianGrid2D.from_origins(origins, dh=inp["dh"], magnitudes=mags)
    if not identity or qt["ctor"] == "quadkeys":
        return QuadtreeGrid2D.from_quadkeys([qt["keys"][i] for i in sigma], magnitudes=mags)
    if qt["ctor"] == "single":
        return QuadtreeGrid2D.from_single_resolution(qt["zoom"], magnitudes=mags)
    # built from the observed events in THEIR storage order of this variant
    with contextlib.redirect_stdout(io.StringIO()):
        return QuadtreeGrid2D.from_catalog(CSEPCatalog(data=_rows(events)), qt["threshold"], zoom=qt["zoom"], magnitudes=mags)


def _write_forecast_file(path, inp, sigma, rates):
    """CSEP1 ascii forecast file (Lon_0 Lon_1 Lat_0 Lat_1 z_0 z_1 Mag_0 Mag_1 Rate Flag; magnitude bins fastest, then the
    cells in the order `sigma`): shortest round-trip decimals, so the loader reads the very doubles"""
    dh, dm, mags = inp["dh"], inp["dm"], inp["mags"]
    with open(path, "w") as f:
        for i in sigma:
            x, y = inp["origins"][i]
            for k, m in enumerate(mags):
                f.write(" ".join(repr(float(v)) for v in (x, _r(x + dh), y, _r(y + dh), 0.0, 30.0, m, _r(m + dm), rates[i][k], 1.0)) + "\n")


def _write_catalog_forecast_file(path, cats, skip_empty=False):
    """csep-ascii catalog-forecast file (lon,lat,mag,time_string,depth,catalog_id,event_id): the catalogs in THIS order,
    catalog_id = position in the file; a catalog without events is one row that only carries its id or - the format's other
    legal spelling, `skip_empty` - is left out (its id is skipped), except the last catalog, which is always spelled out"""
    import datetime
    with open(path, "w", newline="") as f:
        f.write("lon,lat,mag,time_string,depth,catalog_id,event_id\n")
        for cid, evs in enumerate(cats):
            if not evs and not (skip_empty and cid < len(cats) - 1):
                f.write(f",,,,,{cid},\n")
            for e in evs:
                t = datetime.datetime(1970, 1, 1) + datetime.timedelta(milliseconds=int(e[1]))
                f.write(f"{float(e[3])!r},{float(e[2])!r},{float(e[5])!r},{t.strftime('%Y-%m-%dT%H:%M:%S.%f')},{float(e[4])!r},{cid},{e[0]}\n")


FORM_UNSUPPORTED = set()
_TOC = {}


def _time_order_class():
    if "c" not in _TOC:
        from csep.core.catalogs import CSEPCatalog

        class TimeOrderCatalog(CSEPCatalog):
            def _order(self):
                return numpy.argsort(self.catalog["origin_time"], kind="stable")

            def get_longitudes(self):
                return self.catalog["longitude"][self._order()]

            def get_latitudes(self):
                return self.catalog["latitude"][self._order()]

            def get_magnitudes(self):
                return self.catalog["magnitude"][self._order()]

            def get_epoch_times(self):
                return self.catalog["origin_time"][self._order()]
        _TOC["c"] = TimeOrderCatalog
    return _TOC["c"]


def _image(x, form, what):
    """(h) COPIES BEFORE USE: the object the evaluation gets is copy.copy / copy.deepcopy / a pickle image / the to_dict -> from_dict
    image / the write_json -> load_json image of the object that was built. A form the tree under test itself can not produce for
    this object (TypeError ...) is skipped and counted."""
    import copy
    import os
    import pickle
    import tempfile
    try:
        if form == "copy":
            return copy.copy(x)
        if form == "deepcopy":
            return copy.deepcopy(x)
        if form == "pickle":
            return pickle.loads(pickle.dumps(x))
        if form == "dict":
            return type(x).from_dict(x.to_dict())
        if form == "json":
            with tempfile.TemporaryDirectory(prefix="c20j_") as td:
                fn = os.path.join(td, "cat.json")
                x.write_json(fn)
                return type(x).load_json(fn)
    except Exception as e:
        FORM_UNSUPPORTED.add(f"{what}:{form}:{type(e).__name__}")
    return x


import datetime as _dt
T0, T1 = _dt.datetime(2020, 1, 1), _dt.datetime(2021, 1, 1)      # every forecast carries its time window (366 days): scale=True evaluates


def _objects(inp, ev_perm=None, cat_perm=None, cell_perm=None, share=None, layout=None, via_file=False, cf_via_file=False):
    """pyCSEP objects of one variant. share: the objects of another variant with the same cell order whose region and
    forecast OBJECTS are re-used (only the catalogs are new) - state kept on a region or forecast between evaluations of
    differently ordered catalogs is then exercised"""
    from csep.core.catalogs import CSEPCatalog
    from csep.core.forecasts import GriddedForecast, CatalogForecast
    nc = len(inp["origins"])
    sigma = list(range(nc)) if cell_perm is None else list(cell_perm)       # new cell j is old cell sigma[j]
    pi = [0] * nc
    for j, i in enumerate(sigma):
        pi[i] = j                                                               # old cell i is new cell pi[i]
    mags = numpy.array(inp["mags"], dtype=float)
    events = inp["events"] if ev_perm is None else [inp["events"][i] for i in ev_perm]
    cats = inp["cats"] if cat_perm is None else [inp["cats"][i] for i in cat_perm]
    d1 = numpy.array([inp["rates1"][i] for i in sigma], dtype=float)
    d2 = numpy.array([inp["rates2"][i] for i in sigma], dtype=float)
    keys_ok = True
    if share is not None and cell_perm is None:
        region, f1, f2 = share.region, share.f1, share.f2
    else:
        region = _region(inp, sigma, cell_perm is None, events, mags)
        if "qt" in inp:
            got, want = [str(q) for q in region.quadkeys], [inp["qt"]["keys"][i] for i in sigma]
            if got != want:
                # the tiles are not the documented ones (C17's subject) or, for from_catalog, depend on the storage order
                # of the events (C20's): reported by check_input; rates follow the tiles by quadkey so the run can go on
                keys_ok = (got, want)
                row = {q: i for i, q in enumerate(inp["qt"]["keys"])}
                d1 = numpy.array([inp["rates1"][row.get(q, 0)] for q in got], dtype=float)
                d2 = numpy.array([inp["rates2"][row.get(q, 0)] for q in got], dtype=float)
        lay = layout or inp.get("layout", "C")
        f1 = GriddedForecast(start_time=T0, end_time=T1, data=_lay(d1, lay), region=region, magnitudes=mags, name="f1")
        f2 = GriddedForecast(start_time=T0, end_time=T1, data=_lay(d2, lay), region=region, magnitudes=mags, name="f2")
        fform = (inp.get("kw") or {}).get("fore_form", "plain")
        if fform != "plain":
            f1, f2 = _image(f1, fform, "gridded forecast"), _image(f2, fform, "gridded forecast")
            region = f1.region
    if via_file:
        import os
        import tempfile
        with tempfile.TemporaryDirectory(prefix="c20_") as td:
            p1, p2 = os.path.join(td, "f1.dat"), os.path.join(td, "f2.dat")
            _write_forecast_file(p1, inp, sigma, inp["rates1"])
            _write_forecast_file(p2, inp, sigma, inp["rates2"])
            if via_file == "module-loader":
                import csep
                f1 = csep.load_gridded_forecast(p1, name="f1", start_date=T0, end_date=T1)   # module-level loader (dispatch on the extension)
                f2 = csep.load_gridded_forecast(p2, name="f2", start_date=T0, end_date=T1)
            else:
                f1 = GriddedForecast.load_ascii(p1, name="f1", start_date=T0, end_date=T1)
                f2 = GriddedForecast.load_ascii(p2, name="f2", start_date=T0, end_date=T1)
        region = f1.region            # the region the loader built from the file's cells, in the file's order

    obs_class = (inp.get("kw") or {}).get("obs_class", "CSEPCatalog")

    obs_form = (inp.get("kw") or {}).get("obs_form", "plain")

    def mk_cat(evs, cid=None, with_region=True, observed=False):
        cat = _mk_cat_plain(evs, cid, with_region, observed)
        if observed and obs_form != "plain":
            cat = _image(cat, obs_form, "observed catalog")
        return cat

    def _mk_cat_plain(evs, cid=None, with_region=True, observed=False):
        if observed and obs_class == "accessor-order":
            # (j) a USER SUBCLASS of CSEPCatalog whose documented accessors present the events in TIME order, whatever the storage order
            return _time_order_class()(data=_rows(evs), region=region if with_region else None, catalog_id=cid)
        if observed and obs_class == "UCERF3Catalog":
            # the other concrete catalog class: big-endian structured rows with further columns
            from csep.core.catalogs import UCERF3Catalog
            a = numpy.zeros(len(evs), dtype=UCERF3Catalog._get_catalog_dtype(3))
            for k, e in enumerate(evs):
                a[k]["origin_time"], a[k]["latitude"], a[k]["longitude"], a[k]["depth"], a[k]["magnitude"] = (
                    int(e[1]), float(e[2]), float(e[3]), float(e[4]), float(e[5]))
            return UCERF3Catalog(data=a, region=region if with_region else None, catalog_id=cid)
        return CSEPCatalog(data=_rows(evs), region=region if with_region else None, catalog_id=cid)

    keep = []

    def mk_cf():
        if cf_via_file:
            # the synthetic catalogs through a FILE, in this storage order, read back by the library's loader
            import csep
            import os
            import tempfile
            td = tempfile.TemporaryDirectory(prefix="c20cf_")
            keep.append(td)                                   # lives as long as the variant's objects
            path = os.path.join(td.name, "cf.csv")
            _write_catalog_forecast_file(path, cats, skip_empty=(cf_via_file == "skip-empty"))
            return csep.load_catalog_forecast(path, type="ascii", region=region, n_cat=len(cats), name="cf")
        cl = [mk_cat(c, k) for k, c in enumerate(cats)]
        return CatalogForecast(catalogs=cl, region=region, n_cat=len(cl), name="cf")
    if "qt" in inp:
        # the cell of every event by a stateless scan of the region's own boxes, one event at a time
        boxes = [tuple(float(v) for v in b) for b in numpy.asarray(region.bounds)]
        loc = lambda evs: [_find_box(boxes, float(e[3]), float(e[2])) for e in evs]
        ev_cells, cat_cells = loc(events), [loc(c) for c in cats]
        nc_eff = len(boxes)
    else:
        boxes = None
        ev_cells, cat_cells = [pi[e[6]] for e in events], [[pi[e[6]] for e in c] for c in cats]
        nc_eff = nc
    own_idx = (0 if cat_perm is None else list(cat_perm).index(0)) if len(inp["cats"]) else None
    return SimpleNamespace(own_idx=own_idx, keep=keep, region=region, catalog=mk_cat(events, observed=True), mk_catalog=lambda: mk_cat(events, observed=True),
                           mk_catalog_nr=lambda: mk_cat(events, None, False, observed=True), f1=f1, f2=f2, d1=d1,
                           d2=d2, mk_cf=mk_cf, sigma=sigma, pi=pi, nc=nc_eff, nb=len(inp["mags"]), events=events, cats=cats,
                           ev_cells=ev_cells, ev_bins=[e[7] for e in events], boxes=boxes, keys_ok=keys_ok,
                           located=all(c is not None for c in ev_cells) and all(c is not None for cc in cat_cells for c in cc),
                           cat_cells=cat_cells, cat_bins=[[e[7] for e in c] for c in cats])


def _num(x):
    if x is None:
        return None
    if isinstance(x, str):
        return x
    return float(x)


def _flat(x):
    if x is None or isinstance(x, str):
        return [x]
    if isinstance(x, (tuple, list, numpy.ndarray)):
        out = []
        for t in (x.ravel() if isinstance(x, numpy.ndarray) else x):
            out.extend(_flat(t))
        return out
    return [_num(x)]


def _outcome(r):
    if r is None:
        return dict(none=True)
    return dict(obs=_flat(r.observed_statistic), q=_flat(r.quantile), dist=_flat(r.test_distribution), status=r.status)


CALL = dict(form="keyword", errstate=False)
ERR_ROBUST = ("poisson_N", "nbd_N", "cat_N", "cat_N_own")      # evaluations whose unchanged code computes no log(0) / 0/0 on valid inputs


def _call(f, *a, **k):
    from .c06 import call_form
    try:
        # (k) GLOBAL NUMERIC STATE: a share of the robust evaluations runs with divide / invalid raising
        with contextlib.redirect_stdout(io.StringIO()), \
                (numpy.errstate(divide="raise", invalid="raise") if CALL["errstate"] else numpy.errstate(all="ignore")):
            # keyword arguments as keywords, or POSITIONALLY in the order of the function's signature (round 6 pre-emption)
            return _outcome(call_form(f, a, k, CALL["form"]))
    except Exception as e:       # an outcome like any other: it has to be the same for every storage order
        return dict(exc=type(e).__name__)


def _binary_safe(o, inp):
    """which binary/Brier simulations are executed. D10 (known finding of C06): the rejection loop cannot terminate
    when the observed active bins outnumber the positive-rate bins; and it needs about n / (weight of the P-n+1
    lightest bins) draws in a Python loop, so very skewed forecasts with nearly all bins active are not executed
    either. Both criteria depend only on multisets, i.e. they are the same for every storage order."""
    smc = numpy.zeros((o.nc, o.nb))
    for c, b in zip(o.ev_cells, o.ev_bins):
        if c is not None:
            smc[c, b] += 1

    def ok(active, weights):
        w = numpy.sort(weights[weights > 0])
        p, n = len(w), int((active > 0).sum())
        if n > p:
            return "D10"
        if n == 0:
            return None
        light = w[:p - n + 1].sum() / w.sum()
        return None if n / light * inp["nsim"] <= 20000 else "cost"
    return dict(binary_S=ok(smc.sum(axis=1), o.d1.sum(axis=1)), binary_CL=ok(smc.ravel(), o.d1.ravel()),
                brier=ok(smc.ravel(), o.d1.ravel()))


def _evaluate(o, inp, names):
    """run the named evaluations on the objects `o`; every evaluation gets fresh catalog / forecast objects"""
    from csep.core import poisson_evaluations as pe, binomial_evaluations as be, brier_evaluations as br
    from csep.core import catalog_evaluations as ce
    seed, nsim = inp["seed"], inp["nsim"]
    safe = _binary_safe(o, inp)
    kw = inp.get("kw") or {}
    CALL["form"] = kw.get("call_form", "keyword")
    mode = kw.get("sim_mode", "seed")
    vb = bool(kw.get("verbose", False))
    n_obs = len(o.events)

    def obs(name):
        # D40: L, CL, binary CL and Brier bind the forecast's region to an observed catalog that has none
        if kw.get("obs_region") == "none" and name in ("poisson_N", "nbd_N", "poisson_L", "poisson_CL", "binary_CL", "brier"):
            return o.mk_catalog_nr()
        return o.mk_catalog()

    def sim(f, name, *a):
        """a simulation-based test with the random stream fixed in one of the three documented ways"""
        if mode == "global-seed":                         # seed=None: the caller seeded numpy's global generator
            numpy.random.seed(seed % (2 ** 32))
            return _call(f, *a, num_simulations=nsim, verbose=vb)
        if mode == "random_numbers" and name in ("poisson_CL", "poisson_S", "poisson_M") and n_obs > 0:
            rn = numpy.random.RandomState(seed % (2 ** 32)).random_sample((nsim, n_obs))
            keep_rn = rn.copy()
            oc = _call(f, *a, num_simulations=nsim, seed=seed, random_numbers=rn, verbose=vb)
            if not numpy.array_equal(rn, keep_rn):
                return dict(exc="the injected random numbers were modified by the test")
            return oc
        return _call(f, *a, num_simulations=nsim, seed=seed, verbose=vb)

    def seeded_cat(f, **k):
        if mode == "global-seed":
            numpy.random.seed(seed % (2 ** 32))
            return _call(f, o.mk_cf(), o.mk_catalog(), verbose=vb, **k)
        return _call(f, o.mk_cf(), o.mk_catalog(), seed=seed, verbose=vb, **k)
    def own_catalog(f):
        cf = o.mk_cf()
        own = getattr(cf, "catalogs", None)
        if not isinstance(own, list) or not own or getattr(o, "own_idx", None) is None:
            return dict(skipped="no list of catalog objects")
        return _call(f, cf, own[o.own_idx], verbose=vb)
    ta, ts, ws = kw.get("t_alpha", 0.05), bool(kw.get("t_scale", False)), bool(kw.get("w_scale", False))
    table = {
        "poisson_N": lambda: _call(pe.number_test, o.f1, obs("poisson_N")),
        "poisson_L": lambda: sim(pe.likelihood_test, "poisson_L", o.f1, obs("poisson_L")),
        "poisson_CL": lambda: sim(pe.conditional_likelihood_test, "poisson_CL", o.f1, obs("poisson_CL")),
        "poisson_S": lambda: sim(pe.spatial_test, "poisson_S", o.f1, o.mk_catalog()),
        "poisson_M": lambda: sim(pe.magnitude_test, "poisson_M", o.f1, o.mk_catalog()),
        "nbd_N": lambda: _call(be.negative_binomial_number_test, o.f1, obs("nbd_N"),
                               inp["variance_factor"] * float(numpy.sum(numpy.array(inp["rates1"]))) + 1.0),
        "paired_T": lambda: _call(pe.paired_t_test, o.f1, o.f2, o.mk_catalog(), alpha=ta, scale=ts),
        "W": lambda: _call(pe.w_test, o.f1, o.f2, o.mk_catalog(), scale=ws),
        "binary_S": lambda: sim(be.binary_spatial_test, "binary_S", o.f1, o.mk_catalog()),
        "binary_CL": lambda: sim(be.binary_conditional_likelihood_test, "binary_CL", o.f1, obs("binary_CL")),
        "binary_T": lambda: _call(be.binary_paired_t_test, o.f1, o.f2, o.mk_catalog(), alpha=ta, scale=ts),
        "brier": lambda: sim(br.brier_score_test, "brier", o.f1, obs("brier")),
        # (l) ONE OBJECT IN TWO ROLES: the same forecast object as both arguments of a comparison test; the observed catalog is one of
        # the forecast's OWN catalog objects (the one that is first in the base order, wherever it is stored now)
        "paired_T_same": lambda: _call(pe.paired_t_test, o.f1, o.f1, o.mk_catalog(), alpha=ta, scale=ts),
        "W_same": lambda: _call(pe.w_test, o.f1, o.f1, o.mk_catalog(), scale=ws),
        "cat_N_own": lambda: own_catalog(ce.number_test),
        "cat_N": lambda: _call(ce.number_test, o.mk_cf(), o.mk_catalog(), verbose=vb),
        "cat_S": lambda: _call(ce.spatial_test, o.mk_cf(), o.mk_catalog(), verbose=vb),
        "cat_M": lambda: _call(ce.magnitude_test, o.mk_cf(), o.mk_catalog(), verbose=vb),
        "cat_PL": lambda: _call(ce.pseudolikelihood_test, o.mk_cf(), o.mk_catalog(), verbose=vb),
        "cat_resampled_M": lambda: seeded_cat(ce.resampled_magnitude_test),
        "cat_MLL": lambda: seeded_cat(ce.MLL_magnitude_test, full_calculation=bool(kw.get("mll_full", False))),
    }
    out = {}
    for n in names:
        if safe.get(n):
            out[n] = dict(skipped=safe[n])
            continue
        CALL["errstate"] = bool(kw.get("errstate")) and n in ERR_ROBUST
        try:
            out[n] = table[n]()
        finally:
            CALL["errstate"] = False
    return out


# ----------------------------------------------------------------------------- the property's predicate
def _close(a, b, rel=REL, abs_=ABS):
    if a is None or b is None or isinstance(a, str) or isinstance(b, str):
        return a == b
    if math.isnan(a) or math.isnan(b):
        return math.isnan(a) and math.isnan(b)
    if math.isinf(a) or math.isinf(b):
        return a == b
    return abs(a - b) <= rel * max(abs(a), abs(b)) + abs_


def _close_list(xs, ys):
    return len(xs) == len(ys) and all(_close(a, b) for a, b in zip(xs, ys))


def _bits_equal(xs, ys):
    def key(v):
        return v if (v is None or isinstance(v, str)) else numpy.float64(v).tobytes()
    return len(xs) == len(ys) and all(key(a) == key(b) for a, b in zip(xs, ys))


def _sortkey(v):
    return (0, 0.0) if v is None else ((1, 0.0) if isinstance(v, float) and math.isnan(v) else (2, v))


def _quantile_band_ok(base, other):
    """empirical quantiles (delta_1 = P(X >= obs), delta_2 = P(X <= obs)) may move only as far as values of the
    distribution lie within rounding distance of the observed statistic"""
    if base["q"] == other["q"]:
        return True
    if len(base["q"]) != 2 or len(other["q"]) != 2 or None in base["q"] + other["q"] or len(base["obs"]) != 1:
        return _close_list(base["q"], other["q"])
    obs = base["obs"][0]
    dist = [v for v in base["dist"] if isinstance(v, float) and not math.isnan(v)]
    if obs is None or isinstance(obs, str) or math.isnan(obs) or not dist:
        return _close_list(base["q"], other["q"])
    t = REL * abs(obs) + ABS if math.isfinite(obs) else 0.0
    n = len(dist)
    lo1, hi1 = sum(1 for v in dist if v >= obs + t) / n, sum(1 for v in dist if v >= obs - t) / n
    lo2, hi2 = sum(1 for v in dist if v <= obs - t) / n, sum(1 for v in dist if v <= obs + t) / n
    d1, d2 = other["q"]
    return lo1 - 1e-12 <= d1 <= hi1 + 1e-12 and lo2 - 1e-12 <= d2 <= hi2 + 1e-12


def _compare(name, kind, base, other):
    """None if `other` (outcome on a permuted input) is what C20 allows given `base`, else a description"""
    if name == "cat_N_own" and ("skipped" in base or "skipped" in other):
        return None                  # a forecast that is not backed by a list of catalog objects has no "own catalog"
    if set(base) != set(other) or "exc" in base or "none" in base or "skipped" in base:
        return None if base == other else f"{name}: outcome changed from {_brief(base)} to {_brief(other)}"
    if base["status"] != other["status"]:
        return f"{name}: status {base['status']!r} became {other['status']!r}"
    if not _close_list(base["obs"], other["obs"]):
        return f"{name}: observed statistic {base['obs']} became {other['obs']}"
    if name in ("paired_T", "binary_T", "paired_T_same") and _degenerate_t(base) and _degenerate_t(other):
        # sample variance of the log-rate differences is zero up to rounding (all target events in bins with the same
        # rate ratio): t = ig / (sqrt(+-eps) / sqrt N) is nan or astronomically large depending on the last bit
        return None if _close(base["q"][1], other["q"][1]) else f"{name}: t critical {base['q']} became {other['q']}"
    if name in GRIDDED_ANALYTIC:
        if not _close_list(base["q"], other["q"]):
            return f"{name}: analytic quantile {base['q']} became {other['q']}"
        if not _close_list(base["dist"], other["dist"]):
            return f"{name}: analytic distribution parameters {base['dist']} became {other['dist']}"
    elif name in GRIDDED_SIM or name in CATALOG_SEEDED:
        if kind == "layout":
            # same logical order of the rates in another memory layout: same sequence of simulated catalogs; only a total
            # that numpy sums in memory order may differ in its last bit
            if len(base["dist"]) != len(other["dist"]) or not _close_list(base["dist"], other["dist"]):
                return f"{name}: simulated distribution changed with the memory layout of the rate array"
            if not _quantile_band_ok(base, other) and not _close_list(base["q"], other["q"]):
                return f"{name}: quantile score {base['q']} became {other['q']} with another memory layout of the rate array"
        if kind == "events":        # fixed seed, observed events re-ordered: bit for bit
            if not _bits_equal(base["dist"], other["dist"]):
                k = next((i for i, (a, b) in enumerate(zip(base["dist"], other["dist"])) if a != b), None)
                return f"{name}: seeded simulated distribution differs (first at index {k})"
            if not _bits_equal(base["q"], other["q"]):
                return f"{name}: seeded quantile score {base['q']} became {other['q']}"
    elif name in CATALOG_FREE:
        a, b = sorted(base["dist"], key=_sortkey), sorted(other["dist"], key=_sortkey)
        if not _close_list(a, b):
            return f"{name}: simulation-free test distribution changed as a multiset (sizes {len(a)}, {len(b)})"
        if not _quantile_band_ok(base, other):
            return f"{name}: quantile {base['q']} became {other['q']}"
    return None


def _degenerate_t(oc):
    t = oc["q"][0]
    return t is None or math.isnan(t) or abs(t) > 1e7


def _brief(o):
    s = repr(o)
    return s if len(s) < 200 else s[:200] + "..."


# ----------------------------------------------------------------------------- correspondence with the Lean model
def _fbits(x):
    return str(int(numpy.float64(x).view(numpy.uint64)))


def _unbits(s):
    return float(numpy.uint64(int(s)).view(numpy.float64))


def _parts(lists):
    return ";".join(ilist(l) for l in lists)


def _impl_counts(o, catalog=None):
    with contextlib.redirect_stdout(io.StringIO()), numpy.errstate(all="ignore"):
        c = catalog if catalog is not None else o.mk_catalog()
        sp = [int(v) for v in c.spatial_counts()]
        mg = [int(v) for v in c.magnitude_counts()]
        smc = c.spatial_magnitude_counts()
        sm = [[int(v) for v in row] for row in smc]
        oc = [int(v) for v in c.spatial_event_probability()]
        ok = all(float(v) == int(v) for v in numpy.asarray(smc).ravel())
    return dict(spatial=sp, magnitude=mg, spaceMag=sm, occupancy=oc, integral=ok)


def _parse_counts(s):
    sp, mg, sm, oc = s.split("|")
    li = lambda t: [] if t == "-" else [int(v) for v in t.split(",")]
    return dict(spatial=li(sp), magnitude=li(mg), spaceMag=[] if sm == "-" else [li(r) for r in sm.split(";")],
                occupancy=li(oc))


def _private(mod, name, nparams, run):
    """a PRIVATE helper of the tree under test that one correspondence op calls directly; None (counted, recorded as an
    assumption) when it is gone or takes other arguments - the public evaluations reach the same mechanism"""
    import inspect
    fn = getattr(mod, name, None)
    ok = callable(fn)
    if ok:
        try:
            names = list(inspect.signature(fn).parameters)
            ok = len(names) == nparams and names[-1] == "random_numbers"
        except (TypeError, ValueError):
            ok = False
    if not ok:
        key = f"helper-missing:{mod.__name__.split('.')[-1]}.{name}"
        run.count(key)
        note = f"{key}: direct correspondence skipped, the public evaluations decide"
        if note not in run.assumptions:
            run.assumptions.append(note)
        return None
    return fn


def _guard(method):
    """an exception raised by the implementation while the harness reads a quantity the model also computes is a
    model/implementation difference on that case, not a harness crash"""
    def wrapped(self, o, tag, *a):
        try:
            return method(self, o, tag, *a)
        except Exception as e:
            self.run.mismatch(dict(self.case, variant=tag, op=method.__name__),
                              f"implementation raised {type(e).__name__}: {e}", "the model is total on this input")
            self.run.count(f"corr-exception:{method.__name__}:{type(e).__name__}")
    return wrapped


class _Corr:
    """queues driver requests for one case; `finish` compares"""

    def __init__(self, run, case):
        self.run, self.case, self.drv, self.todo = run, case, Driver(), []

    @_guard
    def counts(self, o, tag, expect_perm_of=None, catalog=None):
        if (self.case.get("inp", {}).get("kw") or {}).get("obs_form") in ("dict", "json"):
            return          # the catalog's own region came back without magnitudes: its magnitude gridding is not the forecast's
        impl = _impl_counts(o, catalog)
        i = self.drv.ask(f"c20_counts {o.nc} {o.nb} {ilist(o.ev_cells)} {ilist(o.ev_bins)}")
        self.todo.append(("counts", tag, i, impl, o, expect_perm_of))

    @_guard
    def locate(self, o, tag, catalog=None):
        """quadtree regions: the cell index list `region.get_index_of` gives for the stored events, in storage order, is
        the model's per-event first-hit scan of the half-open boxes (Model/Perm.lean findLocation; no memory)"""
        cat = catalog if catalog is not None else o.mk_catalog()
        if cat.event_count == 0:
            return
        lons, lats = numpy.array(cat.get_longitudes(), dtype=float), numpy.array(cat.get_latitudes(), dtype=float)
        impl = [int(v) for v in numpy.atleast_1d(o.region.get_index_of(lons, lats))]
        b = ";".join(",".join(frac(v) for v in box) for box in o.boxes)
        pts = ";".join(f"{frac(x)},{frac(y)}" for x, y in zip(lons, lats))
        i = self.drv.ask(f"c20_locate {b} {pts}")
        self.todo.append(("locate", tag, i, impl, o, None))

    @_guard
    def mean(self, o, tag):
        with contextlib.redirect_stdout(io.StringIO()), numpy.errstate(all="ignore"):
            cf = o.mk_cf()
            data = numpy.array(cf.get_expected_rates().data)
        i = self.drv.ask(f"c20_mean {o.nc} {o.nb} {_parts(o.cat_cells)} {_parts(o.cat_bins)}")
        self.todo.append(("mean", tag, i, data, o, None))

    @_guard
    def jointll(self, o, tag, outcomes):
        smc = numpy.zeros((o.nc, o.nb), dtype=int)
        for c, b in zip(o.ev_cells, o.ev_bins):
            smc[c, b] += 1
        for name, norm, cnt, rates in (("poisson_L", 0, smc.ravel(), o.d1.ravel()),
                                       ("poisson_CL", 0, smc.ravel(), o.d1.ravel()),
                                       ("poisson_S", 1, smc.sum(axis=1), o.d1.sum(axis=1)),
                                       ("poisson_M", 1, smc.sum(axis=0), o.d1.sum(axis=0))):
            oc = outcomes.get(name)
            if not oc or "obs" not in oc:
                continue
            i = self.drv.ask(f"c20_jointll {norm} {ilist(cnt)} {','.join(_fbits(v) for v in rates)}")
            self.todo.append(("jointll", f"{tag}/{name}", i, oc["obs"][0], o, None))

    @_guard
    def tw(self, o, tag, outcomes):
        n = len(o.ev_cells)
        if n == 0 or n > 5000:       # the model's rank statistics are quadratic in the number of events
            return
        r1 = [o.d1[c, b] for c, b in zip(o.ev_cells, o.ev_bins)]
        r2 = [o.d2[c, b] for c, b in zip(o.ev_cells, o.ev_bins)]
        with numpy.errstate(all="ignore"):
            try:
                ir1, n1 = o.f1.target_event_rates(o.mk_catalog())
                ir2, n2 = o.f2.target_event_rates(o.mk_catalog())
            except Exception as e:
                self.run.mismatch(dict(self.case, variant=tag), f"target_event_rates raised {type(e).__name__}", "rates")
                return
        if (self.case.get("inp", {}).get("kw") or {}).get("obs_class") == "accessor-order":
            # the catalog's accessors are the source of truth: they present the events in time order
            order = sorted(range(n), key=lambda k: o.events[k][1])
            r1, r2 = [r1[k] for k in order], [r2[k] for k in order]
        if not (_bits_equal(list(ir1), r1) and _bits_equal(list(ir2), r2)):
            self.run.mismatch(dict(self.case, variant=tag), "target_event_rates differ from data[cell, bin] per event",
                              "targetRates = ev.map (rateAt data)")
        if min(min(r1), min(r2)) <= 0.0:
            return
        args = f"{','.join(_fbits(v) for v in r1)} {','.join(_fbits(v) for v in r2)} {_fbits(n1)} {_fbits(n2)}"
        kw = (self.case.get("inp") or {}).get("kw") or {}
        t = outcomes.get("paired_T") if not kw.get("t_scale") else None       # scaled rates: oracle only
        if t and "obs" in t and n >= 2:
            i = self.drv.ask("c20_ttest " + args)
            self.todo.append(("ttest", tag, i, (t["obs"][0], t["q"][0]), o, None))
        w = outcomes.get("W") if not kw.get("w_scale") else None
        if w and "obs" in w:
            i = self.drv.ask("c20_wtest " + args)
            self.todo.append(("wtest", tag, i, w["obs"][0], o, None))

    @_guard
    def binary(self, o, tag, outcomes):
        if float(o.d1.min()) <= 0.0:
            return                      # masked bins (D17, property C16) are outside the model of the binary likelihood
        smc = numpy.zeros((o.nc, o.nb), dtype=int)
        for c, b in zip(o.ev_cells, o.ev_bins):
            smc[c, b] += 1
        for name, op, cnt, rates in (("binary_S", "c20_binaryll", smc.sum(axis=1), o.d1.sum(axis=1)),
                                     ("binary_CL", "c20_binaryll", smc.ravel(), o.d1.ravel()),
                                     ("brier", "c20_brier", smc.ravel(), o.d1.ravel())):
            oc = outcomes.get(name)
            if not oc or "obs" not in oc:
                continue
            i = self.drv.ask(f"{op} {ilist(cnt)} {','.join(_fbits(v) for v in rates)}")
            self.todo.append(("real", f"{tag}/{name}", i, oc["obs"][0], o, None))

    @_guard
    def concrete(self, o, tag, outcomes):
        """wave 4: the CONCRETE models of C05 / C16 (`PoissonLL.testStat`, `BinaryBrier` statistics - the functions
        `Properties/C20_Concrete.lean` proves permutation invariant) on this storage order of events / cells"""
        smc = numpy.zeros((o.nc, o.nb), dtype=int)
        for c, b in zip(o.ev_cells, o.ev_bins):
            smc[c, b] += 1
        d = ";".join(",".join(_fbits(v) for v in row) for row in o.d1)
        c = ";".join(",".join(str(int(v)) for v in row) for row in smc)
        for name, mode in (("poisson_L", "L"), ("poisson_CL", "CL"), ("poisson_S", "S"), ("poisson_M", "M")):
            oc = outcomes.get(name)
            if oc and "obs" in oc:
                i = self.drv.ask(f"c05_test {mode} {d} {c}")
                self.todo.append(("ell", f"{tag}/concrete-C05/{name}", i, oc["obs"][0], o, None))
                self.run.count("concrete-model:c05_test")
        if float(o.d1.min()) > 0.0:
            for name, mode in (("binary_S", "S"), ("binary_CL", "CL"), ("brier", "BO")):
                oc = outcomes.get(name)
                if oc and "obs" in oc:
                    i = self.drv.ask(f"c16_test {mode} {d} {c}")
                    self.todo.append(("real", f"{tag}/concrete-C16/{name}", i, oc["obs"][0], o, None))
                    self.run.count("concrete-model:c16_test")

    @_guard
    def catalog_concrete(self, o, tag, outcomes):
        """round 4: the CONCRETE models of the catalog-based S / PL / M tests (C10's `CatEvals.spatialTest`,
        `pseudolikelihoodTest`, `magnitudeTest` - the functions `Properties/C20_Catalog.lean` proves independent of the
        storage order of the synthetic catalogs) on THIS storage order of catalogs / events / cells: status, observed
        statistic, the whole test distribution entry by entry (1e-9)"""
        if not o.located or o.nc * o.nb * max(1, len(o.cats)) > 20000:
            return

        def grid(cells, bins):
            g = [0] * (o.nc * o.nb)
            for c, b in zip(cells, bins):
                g[c * o.nb + b] += 1
            return ",".join(map(str, g))
        sims = ";".join(grid(c, b) for c, b in zip(o.cat_cells, o.cat_bins))
        obs = grid(o.ev_cells, o.ev_bins)
        if not sims:
            return
        for name, op in (("cat_S", "c10_s"), ("cat_PL", "c10_pl"), ("cat_M", "c10_m")):
            oc = outcomes.get(name)
            if not oc or "exc" in oc or "skipped" in oc:
                continue
            i = self.drv.ask(f"{op} {o.nc} {o.nb} {sims} {obs}")
            self.todo.append(("catres", f"{tag}/concrete-C10/{name}", i, oc, o, None))
            self.run.count("concrete-model:" + op)

    @_guard
    def normll(self, o, tag, outcomes):
        oc = outcomes.get("cat_S")
        if not oc or "obs" not in oc or oc["status"] != "normal":
            return
        with contextlib.redirect_stdout(io.StringIO()), numpy.errstate(all="ignore"):
            rates = o.mk_cf().get_expected_rates().spatial_counts()
        cnt = numpy.zeros(o.nc, dtype=int)
        for c in o.ev_cells:
            cnt[c] += 1
        i = self.drv.ask(f"c20_normll {ilist(cnt)} {','.join(_fbits(v) for v in rates)}")
        self.todo.append(("ell", f"{tag}/cat_S", i, oc["obs"][0], o, None))

    @_guard
    def simbinary(self, o, tag, rng):
        from csep.core import binomial_evaluations as be
        data = o.d1.ravel()
        if float(data.min()) <= 0.0:
            return
        w = numpy.cumsum(data)
        w = w / w[-1]
        n = min(len(set(zip(o.ev_cells, o.ev_bins))), len(w))
        light = numpy.sort(data)[:len(w) - n + 1].sum() / data.sum() if n else 1.0
        if n == 0 or n / light > 300:
            return
        seed = rng.randrange(2 ** 31)
        helper = _private(be, "_simulate_catalog", 4, self.run)
        if helper is None:
            return
        numpy.random.seed(seed)
        sim = helper(n, w, numpy.zeros(w.shape))
        numpy.random.seed(seed)
        us = numpy.random.uniform(0, 1, size=4000)
        i = self.drv.ask(f"c20_simbinary {flist(w)} {n} {flist(us)}")
        self.todo.append(("simulate", tag + "/binary", i, [int(v) for v in sim], o, None))

    @_guard
    def simulate(self, o, tag, rng):
        from csep.core import poisson_evaluations as pe
        data = o.d1.ravel()
        w = numpy.cumsum(data)
        w = w / w[-1]
        n = len(o.ev_cells)
        us = numpy.array([rng.random() for _ in range(n)])
        helper = _private(pe, "_simulate_catalog", 4, self.run)
        if helper is None:
            return
        sim = helper(n, w, numpy.zeros(w.shape), random_numbers=us)
        i = self.drv.ask(f"c20_simulate {flist(w)} {n} {flist(us)}")
        self.todo.append(("simulate", tag, i, [int(v) for v in sim], o, None))

    def finish(self, base_counts=None):
        out = self.drv.run()
        parsed = {}
        for what, tag, i, impl, o, ref in self.todo:
            case = dict(self.case, variant=tag, op=what)
            s = out[i]
            self.run.count("corr:" + what + (":" + tag.split("/")[-1] if "/" in tag else ""))
            if what == "counts":
                m = _parse_counts(s)
                parsed[tag] = (m, o)
                got = {k: impl[k] for k in m}
                if got != m or not impl["integral"]:
                    self.run.mismatch(case, got, m)
            elif what == "mean":
                sums, means = s.split("|")
                mm = [[float(Fraction(v)) for v in row.split(",")] for row in means.split(";")]
                parsed["mean/" + tag] = (mm, o)
                if impl.shape != (o.nc, o.nb) or [[float(v) for v in row] for row in impl] != mm:
                    self.run.mismatch(case, impl.tolist(), mm)
            elif what == "real":
                if not _close(float(impl), _unbits(s)):
                    self.run.mismatch(case, impl, _unbits(s))
            elif what in ("jointll", "ell"):
                mv = -math.inf if s == "ninf" else (math.nan if s == "nan" else _unbits(s))
                if not _close(float(impl), mv):
                    self.run.mismatch(case, impl, mv)
            elif what == "ttest":
                ig, var, t = (_unbits(v) for v in s.split(","))
                degenerate = math.isnan(t) or abs(t) > 1e7 or math.isnan(impl[1]) or abs(impl[1]) > 1e7
                if degenerate:
                    self.run.count("ttest:degenerate-variance")
                if not (_close(impl[0], ig) and (degenerate or _close(impl[1], t))):
                    self.run.mismatch(case, list(impl), [ig, t])
            elif what == "wtest":
                if not _close(impl, _unbits(s)):
                    self.run.mismatch(case, impl, _unbits(s))
            elif what == "simulate":
                mv = [] if s == "-" else [int(v) for v in s.split(",")]
                if mv != impl:
                    self.run.mismatch(case, impl, mv)
            elif what == "catres":
                why = _catres_differs(impl, s)
                if why:
                    self.run.mismatch(case, dict(why=why, implementation=_brief(impl)), s[:300])
            elif what == "locate":
                mv = [] if s == "-" else [int(v) for v in s.split(",") if v != "x"]
                if mv != impl:
                    self.run.mismatch(case, impl, mv)
        # the model's own outputs across storage orders: equal (events), re-indexed (cells)
        if "orig" in parsed:
            b, ob = parsed["orig"]
            for tag, (m, o) in parsed.items():
                if tag.startswith("events"):
                    if m != b:
                        self.run.mismatch(dict(self.case, variant=tag), "model counts differ under a permutation of events", m)
                elif tag.startswith("cells"):
                    ok = (m["spatial"] == [b["spatial"][i] for i in o.sigma] and m["magnitude"] == b["magnitude"]
                          and m["spaceMag"] == [b["spaceMag"][i] for i in o.sigma]
                          and m["occupancy"] == [b["occupancy"][i] for i in o.sigma])
                    if not ok:
                        self.run.mismatch(dict(self.case, variant=tag), "model counts are not the re-indexed counts", m)
        if "mean/orig" in parsed:
            b, _ = parsed["mean/orig"]
            for tag, (m, o) in parsed.items():
                if tag.startswith("mean/cats") and m != b:
                    self.run.mismatch(dict(self.case, variant=tag), "model mean rates differ under a permutation of catalogs", m)
                if tag.startswith("mean/cells") and m != [b[i] for i in o.sigma]:
                    self.run.mismatch(dict(self.case, variant=tag), "model mean rates are not the re-indexed mean rates", m)


def _catres_differs(oc, s):
    """implementation outcome of a catalog-based test against the `status|observed|quantile|distribution` line of the
    C10 driver ops; None when they agree at the granularity of the property"""
    if s == "noresult":
        return None if oc.get("none") else "the model returns no result (None)"
    if oc.get("none"):
        return "the implementation returns None, the model a result"
    st, ob, _q, d = s.split("|")
    if str(oc.get("status")) != {"normal": "normal", "undersampled": "undersampled", "not-valid": "not-valid"}[st]:
        return f"status {oc.get('status')!r} vs {st!r}"
    val = lambda x: -math.inf if x == "-inf" else _unbits(x)
    io_ = oc["obs"][0] if oc.get("obs") else None
    io_nan = io_ is None or (isinstance(io_, float) and math.isnan(io_))
    if ob == "none":
        if not io_nan:
            return f"observed statistic {io_!r}, model: undefined"
    elif io_nan or not _close(float(io_), val(ob)):
        return f"observed statistic {io_!r} vs {val(ob)!r}"
    md = [] if d == "-" else [val(x) for x in d.split(",")]
    idist = [x for x in (oc.get("dist") or []) if x is not None]
    if len(idist) != len(md) or not all(_close(float(a), b) for a, b in zip(idist, md)):
        return f"test distribution differs (lengths {len(idist)} / {len(md)})"
    return None


def float_sum_cases(run, rng, n):
    """round 4 (`Properties/C20_FloatSum.lean`): the two summation orders the evaluations use, as modelled on Soft64 -
    sequential (`sum()`, `cumsum`) and numpy's pairwise `numpy.sum` - against Python / numpy bit for bit on term lists shaped
    like log-likelihood terms, in storage order and permuted; and the proved bound |s - s'| <= (d + d')*2^-52*sum|x| on the
    implementation's own floats. Statements about numpy (trusted base): counted, never a verdict."""
    drv, todo = Driver(), []
    for _ in range(n):
        m = rng.choice([0, 1, 2, 5, 7, 8, 9, 16, 31, 64, 127, 128, 129, 200, 257, 600])
        kind = rng.choice(["loglik", "counts", "mixed"])
        if kind == "counts":
            xs = [float(rng.randint(0, 50)) for _ in range(m)]
        elif kind == "loglik":
            xs = [rng.randint(1, 4) * math.log(10.0 ** rng.uniform(-6, 1)) for _ in range(m)]
        else:
            xs = [rng.uniform(-1, 1) * 10.0 ** rng.uniform(-12, 3) for _ in range(m)]
        ys = list(xs)
        rng.shuffle(ys)
        todo.append((kind, xs, ys, drv.ask(f"c20_fsum {flist(xs)}"), drv.ask(f"c20_fsum {flist(ys)}")))
    out = drv.run()
    for kind, xs, ys, i, j in todo:
        for terms, line in ((xs, out[i]), (ys, out[j])):
            a, b = line.split(" ")
            seq = 0.0
            for x in terms:
                seq += x
            pw = float(numpy.sum(numpy.array(terms, dtype=float)))
            run.count("float-sum:sequential-" + ("bitexact" if Fraction(a) == Fraction(seq) else "DIFFERS"))
            run.count("float-sum:numpy-pairwise-" + ("bitexact" if Fraction(b) == Fraction(pw) else "DIFFERS"))
        sx, sy = float(numpy.sum(numpy.array(xs))), float(numpy.sum(numpy.array(ys)))
        bound = 2 * max(1, len(xs)) * Fraction(1, 2 ** 52) * sum(abs(Fraction(x)) for x in xs)
        ok = abs(Fraction(sx) - Fraction(sy)) <= bound and (kind != "counts" or sx == sy)
        run.count("float-sum:permuted-within-proved-bound" if ok else "float-sum:permuted-OUTSIDE-proved-bound")


# ----------------------------------------------------------------------------- one case
ALL = ["paired_T_same", "W_same", "cat_N_own", "poisson_N", "poisson_L", "poisson_CL", "poisson_S", "poisson_M", "nbd_N", "paired_T", "W", "binary_S", "binary_CL",
       "binary_T", "brier", "cat_N", "cat_S", "cat_M", "cat_PL", "cat_resampled_M", "cat_MLL"]
GRIDDED = [n for n in ALL if not n.startswith("cat_")]
CATALOG = [n for n in ALL if n.startswith("cat_")]


SPATIAL_ONLY = ["paired_T_same", "W_same", "poisson_N", "nbd_N", "poisson_S", "poisson_M", "binary_S", "paired_T", "W", "cat_N", "cat_S", "cat_PL"]


def _names(inp, names):
    only = inp.get("only")
    if (inp.get("kw") or {}).get("obs_form") in ("dict", "json"):
        # the dict / JSON image of a catalog carries its region WITHOUT magnitudes (unchanged tree): only the evaluations that grid the
        # observation in space, or through the forecast's own bins, are defined for it
        names = [n for n in names if n in SPATIAL_ONLY]
    return [n for n in names if only is None or n in only]


def _expand_tile(inp):
    """a long catalog described compactly: the base events repeated (new ids, new origin times) up to `tile` events, with
    permutations derived from the case's own seed"""
    import random
    n0, n = len(inp["events"]), inp["tile"]
    r = random.Random(inp["seed"])
    events = []
    for k in range(n):
        e = list(inp["events"][k % n0])
        e[0], e[1] = k, e[1] + 1000 * (k // n0)
        events.append(e)
    p1 = list(range(n)); r.shuffle(p1)
    p2 = sorted(range(n), key=lambda i: events[i][1])
    p3 = list(range(n))[::-1]
    return dict(inp, events=events, ev_perms=[p1, p2, p3][:max(1, len(inp["ev_perms"]))], tile=None)


def check_input(run, inp, rng, tag="gen"):
    compact = inp
    if inp.get("tile"):
        inp = _expand_tile(inp)
        run.count("events:more-than-2^16")
    kw = inp.get("kw") or {}
    if kw.get("obs_class") == "accessor-order" and kw.get("obs_form") == "pickle":
        kw["obs_form"] = "deepcopy"          # a class defined inside a function does not pickle (Python, not the library)
    if "qt" in inp and kw.get("obs_form") in ("dict", "json"):
        kw["obs_form"] = "deepcopy"          # the unchanged tree loses a quadtree region through the dict / JSON form (known finding D43)
    if kw.get("obs_class") == "UCERF3Catalog" and kw.get("obs_form") in ("dict", "json"):
        kw["obs_form"] = "copy"              # to_dict / from_dict are defined for the CSEP row format
    ALL_, CATALOG_ = _names(inp, ALL), _names(inp, CATALOG)
    for key in sorted(kw):
        run.count(f"kw:{key}={kw[key]}")
    summary = dict(tag=tag, shape=inp["shape"], cells=len(inp["origins"]), bins=len(inp["mags"]), events=len(inp["events"]),
                   n_cat=len(inp["cats"]), kinds=inp["kinds"], seed=inp["seed"])
    distinct_ev = len({(e[6], e[7]) for e in inp["events"]}) >= 2
    nontrivial = distinct_ev or len(inp["cats"]) >= 2 or len(inp["origins"]) >= 2
    run.case(summary, repr((inp["origins"], inp["events"][:5], inp["seed"])) if nontrivial else None)
    run.count(f"shape:{inp['shape']}")
    if "qt" not in inp:
        run.count(f"origins:{inp.get('origin_style', 'clean')}")
    run.count(f"events:{'0' if not inp['events'] else ('1-3' if len(inp['events']) <= 3 else ('4-30' if len(inp['events']) <= 30 else '31+'))}")
    run.count(f"rates:{inp['kinds'][0]}")
    full = dict(summary, inp=compact)
    corr = _Corr(run, full)
    base_o = _objects(inp)
    if kw.get("bad_call_first"):
        # (i) STATE AFTER A CAUGHT EXCEPTION: calls the library rejects, on the SAME forecast objects every later evaluation uses
        from csep.core import poisson_evaluations as _pe
        for what, f in (("random_numbers of the wrong width", lambda: _pe.conditional_likelihood_test(
                            base_o.f1, base_o.mk_catalog(), num_simulations=2, seed=1,
                            random_numbers=numpy.full((2, len(inp["events"]) + 1), 0.5))),
                        ("observation that is not a catalog, scale=True", lambda: _pe.paired_t_test(base_o.f1, base_o.f2, [1, 2, 3], scale=True))):
            try:
                with contextlib.redirect_stdout(io.StringIO()), numpy.errstate(all="ignore"):
                    f()
                run.count("bad-call-first:accepted")
            except Exception as e:
                run.count(f"bad-call-first:raised-{type(e).__name__}")
    base = _evaluate(base_o, inp, ALL_)
    for n, oc in base.items():
        run.count(f"outcome:{n}:" + ("exc:" + oc["exc"] if "exc" in oc else ("none" if "none" in oc else
                                     ("skipped:" + oc["skipped"] if "skipped" in oc else oc["status"]))))
    qt = "qt" in inp
    if qt:
        run.count("qt-with-edge-events" if any(len(e) > 8 and e[8] in ("W", "S", "SW") for e in inp["events"])
                  else "qt-no-edge-events")
        run.count(f"qt-adjacent-pairs:{'0' if not inp.get('adjacent') else '1+'}")

    def sane(o, tag):
        """the generator's expectations about a variant (documented tiles, every event inside a tile); returns whether
        the count correspondence can be asked"""
        if o.keys_ok is not True:
            got, want = o.keys_ok
            run.mismatch(dict(full, variant=tag, op="tiles"), got, want)
            run.count("qt-tiles-differ")
        if not o.located:
            run.count("qt-event-outside-every-tile")
        return o.located
    if sane(base_o, "orig"):
        corr.counts(base_o, "orig")
        corr.mean(base_o, "orig")
        corr.jointll(base_o, "orig", base)
        corr.tw(base_o, "orig", base)
        corr.binary(base_o, "orig", base)
        corr.concrete(base_o, "orig", base)
        corr.catalog_concrete(base_o, "orig", base)
        corr.normll(base_o, "orig", base)
        if qt:
            corr.locate(base_o, "orig")
        if any(v > 0 for v in base_o.d1.ravel()):
            corr.simulate(base_o, "orig", rng)
            corr.simbinary(base_o, "orig", rng)
    nvar = 0
    ncalls = len(ALL_)

    def judge(kind, k, names, res, how=None):
        nonlocal ncalls
        ncalls += len(names)
        for n in names:
            if n not in base or n not in res:
                run.count(f"judge:evaluation-not-in-both:{kind}:{n}")
                continue
            why = _compare(n, "events" if kind == "inplace" else kind, base[n], res[n])
            if why:
                what = f"permuting the {kind}" if kind != "inplace" else f"re-ordering the observed events in place ({how})"
                run.oracle_failure(dict(full, permuted=kind, perm_index=k, evaluation=n), f"{what}: {why}")
                run.count(f"oracle-fail:{kind}:{n}")

    def variant(kind, k, names, **kw):
        nonlocal nvar
        o = _objects(inp, **kw)
        res = _evaluate(o, inp, names)
        nvar += 1
        judge(kind, k, names, res)
        return o, res
    for k, p in enumerate(inp["ev_perms"]):
        # odd variants re-use the region and forecast OBJECTS of the base input (only the catalog objects are new)
        o, res = variant("events", k, ALL_, ev_perm=p, share=base_o if k % 2 else None)
        run.count("events-variant:" + ("shared-region-and-forecasts" if k % 2 else "fresh-objects"))
        if sane(o, f"events{k}"):
            corr.counts(o, f"events{k}")
            if qt and k >= 2:
                corr.locate(o, f"events{k}")
            if k == 0:
                corr.tw(o, f"events{k}", res)
                corr.concrete(o, f"events{k}", res)
    for k, p in enumerate(inp["cat_perms"]):
        o, res = variant("catalogs", k, CATALOG_, cat_perm=p, share=base_o if k % 2 else None)
        if sane(o, f"cats{k}"):
            corr.mean(o, f"cats{k}")
            if k == 0:
                corr.catalog_concrete(o, f"cats{k}", res)
    # memory layout of the rate arrays as a storage order: nothing else changes
    GRIDDED_ = _names(inp, GRIDDED)
    for k, lay in enumerate(inp.get("layout_variants") or []):
        o, res = variant("layout", k, GRIDDED_, layout=lay)
        run.count(f"layout-variant:{inp.get('layout', 'C')}->{lay}")
        if k == 0 and sane(o, f"layout{k}"):
            corr.jointll(o, f"layout{k}", res)
            corr.tw(o, f"layout{k}", res)
            corr.binary(o, f"layout{k}", res)
            corr.concrete(o, f"layout{k}", res)
    # the forecasts written to CSEP1 ascii files with the cell blocks in several orders and loaded with the library's loader
    for k, p in enumerate(inp.get("file_perms") or []):
        o, res = variant("cells", 100 + k, GRIDDED_, cell_perm=p, via_file="module-loader" if k % 2 else "classmethod")
        run.count("file-variant:gridded-ascii:" + ("csep.load_gridded_forecast" if k % 2 else "GriddedForecast.load_ascii"))
        if sane(o, f"file{k}"):
            corr.counts(o, f"cells-file{k}")
            corr.jointll(o, f"file{k}", res)
            corr.binary(o, f"file{k}", res)
            corr.concrete(o, f"file{k}", res)
            if k == 0:
                corr.tw(o, f"file{k}", res)
    # the catalog forecast written to a csep-ascii file with its catalogs in several orders, loaded with the library's loader
    for k, p in enumerate(inp.get("cat_file_perms") or []):
        o, res = variant("catalogs", 100 + k, CATALOG_, cat_perm=p, cf_via_file="skip-empty" if k % 2 else "explicit")
        run.count("file-variant:catalog-forecast-ascii:" + ("empty-catalogs-skipped" if k % 2 else "empty-catalogs-explicit"))
        if sane(o, f"cats-file{k}"):
            corr.mean(o, f"cats-file{k}")
            if k == 0:
                corr.catalog_concrete(o, f"cats-file{k}", res)
    for k, p in enumerate(inp["cell_perms"]):
        o, res = variant("cells", k, ALL_, cell_perm=p, layout=(inp.get("cell_layouts") or ["C"] * (k + 1))[k])
        if sane(o, f"cells{k}"):
            corr.counts(o, f"cells{k}")
            corr.mean(o, f"cells{k}")
            if k == 0:
                corr.jointll(o, f"cells{k}", res)
                corr.binary(o, f"cells{k}", res)
                corr.concrete(o, f"cells{k}", res)
                corr.catalog_concrete(o, f"cells{k}", res)
                corr.normll(o, f"cells{k}", res)
    if not inp.get("no_session") and kw.get("obs_form") not in ("dict", "json"):
        nvar += _inplace_session(run, inp, base_o, base, corr, judge)
    # ALIASING OF RETURNED OBJECTS + HISTORY: every array the public API of the shared forecast objects / a catalog hands out is
    # overwritten in place by the caller, then ALL evaluations are repeated on the SAME forecast objects (fresh catalog objects of
    # the base order) after the permuted runs, scale=True variants included: the outcome must be the base outcome
    if not inp.get("tile"):
        try:
            probe = base_o.mk_catalog()
            for arr in (base_o.f1.data, base_o.f2.data, base_o.f1.spatial_counts(), base_o.f1.magnitude_counts(),
                        probe.spatial_counts(), probe.magnitude_counts()):
                a = numpy.asarray(arr)
                if a.flags.writeable:
                    a[...] = 7
        except Exception as e:
            run.count(f"returned-arrays:could-not-overwrite:{type(e).__name__}")
        again = _evaluate(base_o, inp, GRIDDED_)
        nvar += 1
        run.count("history:base-input-re-evaluated-on-the-same-forecast-objects")
        judge("events", 900, GRIDDED_, again)
    # the forecast objects shared by the base input and every second event / catalog variant still hold the rates they were
    # built from (no evaluation may write into a caller's array)
    for nm, f, d in (("first", base_o.f1, base_o.d1), ("second", base_o.f2, base_o.d2)):
        now = numpy.asarray(f.data, dtype=float)
        if now.shape != d.shape or not numpy.array_equal(now, d):
            run.oracle_failure(dict(full, evaluation="caller-owned arrays"), f"the rates of the {nm} forecast object changed while "
                                                                              "the evaluations ran")
    corr.finish()
    run.extra["variants_evaluated"] = run.extra.get("variants_evaluated", 0) + nvar + 1
    run.evaluations += nvar           # every permuted variant is an evaluation of the property's predicate
    run.extra["evaluation_calls"] = run.extra.get("evaluation_calls", 0) + ncalls


def _reorder_in_place(cat, how, perm, seed):
    """re-order the stored rows of the catalog object `cat` WITHOUT making a new catalog object"""
    if how == "slice-assign":
        cat.catalog[:] = cat.catalog[numpy.array(perm, dtype=int)]
    elif how == "setter":
        cat.catalog = cat.catalog[numpy.array(perm, dtype=int)]
    elif how == "sort-time":
        cat.catalog.sort(order="origin_time")
    elif how == "sort-magnitude":
        cat.catalog.sort(order="magnitude")
    elif how == "shuffle":
        numpy.random.default_rng(seed).shuffle(cat.catalog)
    else:
        raise ValueError(how)


def _inplace_session(run, inp, base_o, base, corr, judge):
    """ONE observed-catalog object, ONE catalog-forecast object, the base region and forecast objects: every evaluation
    is run, the stored rows are re-ordered in place, every evaluation is run again on the same objects, ... Each round
    must give what the base input gave with fresh objects (seeded results bit for bit). Finally the synthetic catalogs
    (the list and the rows of each) are re-ordered in place as well."""
    cat, cf = base_o.mk_catalog(), base_o.mk_cf()
    n = len(inp["events"])
    ids = [str(e[0]) for e in inp["events"]]
    o = SimpleNamespace(**vars(base_o))
    o.mk_catalog, o.catalog = (lambda: cat), cat
    cat_nr = base_o.mk_catalog_nr()          # shared too: the first D40 evaluation binds the forecast's region to it
    o.mk_catalog_nr = lambda: cat_nr
    # a pass over a CatalogForecast that ends in an exception leaves its cursor mid-pass (known finding D27 of property
    # C13, not a storage-order matter): the forecast OBJECT is re-used only where no catalog-based evaluation raises
    # (the "own catalog" evaluation identifies its catalog by position in a fresh forecast object: not part of the session)
    ALL_, CATALOG_ = [n for n in _names(inp, ALL) if n != "cat_N_own"], [n for n in _names(inp, CATALOG) if n != "cat_N_own"]
    share_cf = not any("exc" in base[x] for x in CATALOG_)
    run.count("inplace:catalog-forecast-object-" + ("shared" if share_cf else "fresh (D27)"))
    if share_cf:
        o.mk_cf = lambda: cf
    rounds = 0

    def evaluate(k, how, names):
        nonlocal rounds
        res = _evaluate(o, inp, names)
        rounds += 1
        judge("inplace", k, names, res, how)
        return res
    evaluate(-1, "first use of the shared objects", ALL_)
    steps = inp.get("inplace") or [["slice-assign", 0], ["sort-time", 0]]
    for k, (how, pidx) in enumerate(steps):
        if n == 0:
            break
        perm = inp["ev_perms"][pidx % len(inp["ev_perms"])]
        try:
            _reorder_in_place(cat, how, perm, inp["seed"] + k)
            _reorder_in_place(cat_nr, how, perm, inp["seed"] + k)
            now = [v.decode() if isinstance(v, bytes) else str(v) for v in cat.get_event_ids()]
        except Exception as e:                    # numpy refusing the operation is not the property's business
            run.count(f"inplace-unavailable:{how}:{type(e).__name__}")
            break
        if sorted(now) != sorted(ids):
            raise AssertionError("harness: in-place re-ordering changed the set of events")
        order = [ids.index(i) for i in now]
        o.events = [inp["events"][i] for i in order]
        o.ev_cells, o.ev_bins = [base_o.ev_cells[i] for i in order], [base_o.ev_bins[i] for i in order]
        run.count(f"inplace:{how}" + (":order-unchanged" if order == list(range(n)) and k == 0 else ""))
        evaluate(k, how, ALL_ if k == 0 else [x for x in ALL_ if x not in CATALOG_SEEDED])
        if base_o.located:
            corr.counts(o, f"events-inplace{k}", None, cat)
            if "qt" in inp:
                corr.locate(o, f"events-inplace{k}", cat)
    # the synthetic catalogs, in place: the list of catalogs and the rows of every catalog
    if share_cf and cf.catalogs and isinstance(cf.catalogs, list) and inp["cat_perms"]:
        q = inp["cat_perms"][0]
        cf.catalogs[:] = [cf.catalogs[i] for i in q]
        for j, c in enumerate(cf.catalogs):
            if c.event_count >= 2:
                c.catalog[:] = c.catalog[::-1].copy()
        res = _evaluate(o, inp, CATALOG_)
        rounds += 1
        # the observed rows are permuted too by now, the synthetic catalogs re-ordered: multiset comparison
        judge("catalogs", -1, CATALOG_, res)
        run.count("inplace:synthetic-catalogs")
    return rounds


def run(run, rng, tier):
    import os
    import json
    import time
    import csep
    run.extra["csep_file"] = csep.__file__
    run.assumptions.append("Cartesian regions: events lie strictly inside their cell and magnitude bin (lookup edge cases "
                           "are C01/C02); quadtree regions: events inside tiles, exactly on tile edges and on tile corners "
                           "(coordinates taken from mercantile's tile bounds), magnitudes strictly inside their bin")
    run.assumptions.append("binary/Brier simulations are not executed when active bins outnumber positive-rate bins (D10)")
    cdir = os.path.join(os.path.dirname(os.path.dirname(os.path.abspath(__file__))), "corpus", "C20")
    if os.path.isdir(cdir):
        for fn in sorted(os.listdir(cdir)):
            if fn.endswith(".json"):
                payload = json.load(open(os.path.join(cdir, fn)))
                check_input(run, payload["case"]["inp"] if "case" in payload else payload["inp"], rng, tag="corpus:" + fn)
    # every shape once, then random
    shapes = ["single", "qt-single", "row", "qt-quadkeys", "col", "qt-catalog", "rect", "subset", "subset-large"]
    # fixed case counts (deterministic for a seed); the wall-clock budget is only a safety cap on slow machines
    budget = 100.0 if tier == "quick" else 900.0
    ncases = 90 if tier == "quick" else 1000
    t0 = time.time()
    k = 0
    while k < ncases and (time.time() - t0 < budget or k < len(shapes)):
        inp = gen_input(rng, tier, force=shapes[k] if k < len(shapes) else None)
        check_input(run, inp, rng)
        k += 1
    # a catalog with more than 2^16 events (and not a multiple of 2^16), a subset of the evaluations, no session
    for _ in range(1 if tier == "quick" else 3):
        inp = gen_input(rng, tier, force=rng.choice(["rect", "row"]))
        while not inp["events"]:
            inp = gen_input(rng, tier, force="rect")
        inp = dict(inp, tile=65536 + rng.randint(1, 999), ev_perms=inp["ev_perms"][:1], cat_perms=[], cell_perms=inp["cell_perms"][:1],
                   inplace=[], no_session=True, nsim=5, layout_variants=(inp.get("layout_variants") or [])[:1],
                   file_perms=(inp.get("file_perms") or [])[1:2], cat_file_perms=[], cell_layouts=(inp.get("cell_layouts") or ["C"])[:1],
                   only=["poisson_N", "poisson_L", "poisson_CL", "poisson_S", "poisson_M", "nbd_N", "paired_T", "W", "cat_N"])
        check_input(run, inp, rng, tag="long-catalog")
        k += 1
    run.extra["generated_cases"] = k
    if FORM_UNSUPPORTED:
        run.extra["copy_forms_unsupported_by_the_tree"] = sorted(FORM_UNSUPPORTED)
    float_sum_cases(run, rng, 60 if tier == "quick" else 600)


def replay(run, payload):
    from .core import Rng
    case = payload["case"]
    check_input(run, case["inp"], Rng(payload.get("seed", 0), "C20-replay"), tag="replay")
