"""Core of the /verif correspondence harness.

Every property check is `python check Cxx --tier quick|thorough [--replay file]`:

  1. build the Lean project (theorems + native driver) under a file lock,
  2. audit the property's theorems (present, no sorry/admit/native_decide/bv_decide/axiom,
     `#print axioms` within {propext, Classical.choice, Quot.sound}),
  3. run the property's harness module (harness/cXX.py): corpus first, then generated cases;
     for each case call the real pyCSEP code from /repo's working tree, evaluate the direct
     oracle on its output, run the Lean model on the same case through the driver and diff,
  4. decide (DESIGN.md section 1.3), write evidence/<id>.json, exit 0 / 1 / 2.
"""
import fcntl
import importlib
import json
import os
import random
import re
import subprocess
import sys
import time
import traceback
from fractions import Fraction

VERIF = os.path.dirname(os.path.dirname(os.path.abspath(__file__)))
LEAN = os.path.join(VERIF, "lean")
REPO = os.environ.get("VERIF_REPO", "/repo")
DRIVER = os.path.join(LEAN, ".lake", "build", "bin", "driver")
TABLES_INFO = {}
SRC_TIE_INFO = {}      # SOURCE-TIE hook: result of harness/source_tie.py for the property under check
ALLOWED_AXIOMS = {"propext", "Classical.choice", "Quot.sound"}
GUARD = "SCECCODE_PYCSEP_VERIF"

# make sure `import csep` is /repo's current working tree
if REPO not in sys.path:
    sys.path.insert(0, REPO)
os.environ.setdefault(GUARD, "1")


# ----------------------------------------------------------------------------- helpers
def frac(x):
    """exact rational text of a float / int / Fraction for the driver"""
    if isinstance(x, Fraction):
        f = x
    elif isinstance(x, bool):
        f = Fraction(int(x))
    elif isinstance(x, int):
        f = Fraction(x)
    else:
        f = Fraction(float(x))
    return str(f.numerator) if f.denominator == 1 else f"{f.numerator}/{f.denominator}"


def unfrac(s):
    return Fraction(s)


def flist(xs):
    xs = list(xs)
    return ",".join(frac(x) for x in xs) if xs else "-"


def ilist(xs):
    xs = list(xs)
    return ",".join(str(int(x)) for x in xs) if xs else "-"


def next_up(x, n=1):
    import math
    for _ in range(n):
        x = math.nextafter(x, math.inf)
    return x


def next_down(x, n=1):
    import math
    for _ in range(n):
        x = math.nextafter(x, -math.inf)
    return x


class Rng(random.Random):
    """single PRNG; every random choice of a run derives from VERIF_SEED"""

    def __init__(self, seed, salt=""):
        super().__init__(f"{seed}/{salt}")
        self.seed_value = seed


def seed_from_env():
    try:
        return int(os.environ.get("VERIF_SEED", "0"))
    except ValueError:
        return 0


# ----------------------------------------------------------------------------- lean side
def _run(cmd, cwd=None, timeout=3600, env=None):
    p = subprocess.run(cmd, cwd=cwd, stdout=subprocess.PIPE, stderr=subprocess.STDOUT,
                       text=True, timeout=timeout, env=env)
    return p.returncode, p.stdout


def lean_build(extra_targets=(), prop=None):
    """lake build of library + driver, serialised by a lock (checks may run in parallel)."""
    os.makedirs(os.path.join(LEAN, ".lake"), exist_ok=True)
    lock = open(os.path.join(LEAN, ".lake", "verif.lock"), "w")
    fcntl.flock(lock, fcntl.LOCK_EX)
    try:
        t0 = time.time()
        # source-derived tables: re-extract from the tree under test; lake rebuilds what depends on them
        global TABLES_INFO
        try:
            from . import gen_tables
            changed, problems, _ = gen_tables.regenerate(REPO, LEAN)
            TABLES_INFO = dict(regenerated=changed, problems=problems)
        except Exception as e:  # extraction failure is not a verdict; the correspondence decides
            TABLES_INFO = dict(regenerated=False, problems=[f"gen_tables crashed: {e}"])
        # SOURCE-TIE hook (begin): regenerate lean/PycsepVerif/GeneratedSrc.lean from the Python source under test
        global SRC_TIE_INFO
        SRC_TIE_INFO = {}
        try:
            from . import source_tie
            source_tie.pre_build(REPO, LEAN)
        except Exception as e:  # a translator crash is not a verdict; the correspondence decides
            source_tie = None
            SRC_TIE_INFO = dict(error=f"source translator crashed: {e!r}")
        # SOURCE-TIE hook (end)
        rc, out = _run(["lake", "build", "PycsepVerif", "driver", *extra_targets], cwd=LEAN)
        # SOURCE-TIE hook (begin): re-check `Src.<f>_eq_model` for the functions this property reads
        if rc == 0 and prop is not None and source_tie is not None:
            try:
                SRC_TIE_INFO = source_tie.post_build(prop, LEAN)
            except Exception as e:
                SRC_TIE_INFO = dict(error=f"source tie check crashed: {e!r}")
        # SOURCE-TIE hook (end)
        return rc == 0, out, time.time() - t0
    finally:
        fcntl.flock(lock, fcntl.LOCK_UN)
        lock.close()


_BAD = re.compile(r"\b(sorry|admit|native_decide|bv_decide|implemented_by|unsafe)\b|^\s*axiom\s|maxHeartbeats\s+0",
                  re.M)


def strip_comments(src):
    src = re.sub(r"/-.*?-/", "", src, flags=re.S)
    src = re.sub(r"--.*", "", src)
    return src


def theorems_in(path):
    """fully qualified names of `theorem`s declared in a Properties file (namespace tracking)"""
    src = strip_comments(open(path).read())
    ns, out = [], []
    for line in src.splitlines():
        m = re.match(r"\s*namespace\s+(\S+)", line)
        if m:
            ns.append(m.group(1))
            continue
        m = re.match(r"\s*end\s+(\S+)", line)
        if m and ns and ns[-1] == m.group(1):
            ns.pop()
            continue
        m = re.match(r"\s*(?:@\[[^\]]*\]\s*)?(?:private\s+|protected\s+|noncomputable\s+)*(?:theorem|lemma)\s+([^\s:({\[]+)", line)
        if m and "private" not in re.split(r"theorem|lemma", line)[0]:
            name = m.group(1)
            out.append(name[len("_root_."):] if name.startswith("_root_.") else ".".join(ns + [name]))
    return out


def property_modules(prop):
    """Properties/Cxx.lean plus the table theorems Properties/Cxx_*.lean"""
    d = os.path.join(LEAN, "PycsepVerif", "Properties")
    mods = [f"PycsepVerif.Properties.{prop}"]
    for f in sorted(os.listdir(d)) if os.path.isdir(d) else []:
        if f.startswith(prop + "_") and f.endswith(".lean"):
            mods.append("PycsepVerif.Properties." + f[:-5])
    return mods


def lean_files_of(prop):
    """files whose text is grepped for forbidden constructs: everything the property files import
    inside the project (transitively)."""
    seen, todo = [], property_modules(prop)
    while todo:
        mod = todo.pop()
        path = os.path.join(LEAN, *mod.split(".")) + ".lean"
        if mod in seen or not os.path.exists(path):
            continue
        seen.append(mod)
        for m in re.finditer(r"^import\s+(PycsepVerif\.\S+)", open(path).read(), re.M):
            todo.append(m.group(1))
    return seen


def audit(prop, required):
    """returns dict(ok, obligations, discharged, axioms, problems, theorems)"""
    problems = []
    pfile = os.path.join(LEAN, "PycsepVerif", "Properties", f"{prop}.lean")
    if not os.path.exists(pfile):
        return dict(ok=False, obligations=len(required), discharged=0, axioms=[], problems=[f"missing {pfile}"],
                    theorems=[])
    names = []
    for mod in property_modules(prop):
        names += theorems_in(os.path.join(LEAN, *mod.split(".")) + ".lean")
    for r in required:
        if r not in names:
            problems.append(f"required theorem {r} is missing from Properties/{prop}.lean")
    mods = lean_files_of(prop)
    for mod in mods:
        path = os.path.join(LEAN, *mod.split(".")) + ".lean"
        m = _BAD.search(strip_comments(open(path).read()))
        if m:
            problems.append(f"forbidden construct {m.group(0).strip()!r} in {mod}")
    # `#print axioms` for every theorem of the property
    tmp = os.path.join(LEAN, ".lake", f"audit_{prop}_{os.getpid()}.lean")
    with open(tmp, "w") as f:
        for mod in property_modules(prop):
            f.write(f"import {mod}\n")
        for n in names:
            f.write(f"#print axioms {n}\n")
    rc, out = _run(["lake", "env", "lean", tmp], cwd=LEAN)
    os.unlink(tmp)
    axioms, discharged = set(), 0
    if rc != 0:
        problems.append("axiom audit failed: " + out[-2000:])
    # output: 'Name' depends on axioms: [a, b]   |   'Name' does not depend on any axioms
    flat = re.sub(r"\s+", " ", out)
    for n in names:
        m = re.search(r"'" + re.escape(n) + r"' (does not depend on any axioms|depends on axioms: \[([^\]]*)\])", flat)
        if not m:
            problems.append(f"no axiom report for {n}")
            continue
        ax = set(a.strip() for a in (m.group(2) or "").split(",") if a.strip())
        axioms |= ax
        if ax - ALLOWED_AXIOMS:
            problems.append(f"{n} depends on {sorted(ax - ALLOWED_AXIOMS)}")
        else:
            discharged += 1
    return dict(ok=not problems, obligations=len(names), discharged=discharged, axioms=sorted(axioms),
                problems=problems, theorems=names, modules=mods)


def leanchecker(prop):
    """thorough tier: independent re-check of the compiled property module (and everything it imports)"""
    t0 = time.time()
    rc, out = _run(["lake", "env", "leanchecker", *property_modules(prop)], cwd=LEAN, timeout=3000)
    return rc == 0, out[-1500:], time.time() - t0


def validate_soft64(run, rng, n=2000):
    """bit-exact comparison of Soft64 (+ - * / fl64 on Rat) with numpy float64 on random and boundary operands.
    A disagreement is a harness error for the trusted base (raises), not a property verdict."""
    import numpy
    drv, exp = Driver(), []
    specials = [0.0, 1.0, -1.0, 0.1, 0.5, 1e-300, 5e-324, 2.0 ** -1022, 1.7e308 / 4, 1 - 2.0 ** -53, 1 + 2.0 ** -52,
                3.0, 1e16, 123456.789]
    def pick():
        k = rng.random()
        if k < 0.2:
            return rng.choice(specials) * rng.choice([1, -1])
        if k < 0.6:
            return rng.uniform(-1000, 1000)
        return (rng.random() - 0.5) * 10.0 ** rng.randint(-30, 30)
    for _ in range(n):
        a, b = numpy.float64(pick()), numpy.float64(pick())
        for op, f in (("fadd", a + b), ("fsub", a - b), ("fmul", a * b)):
            if numpy.isfinite(f):
                drv.ask(f"{op} {frac(a)} {frac(b)}"); exp.append((op, a, b, f))
        if b != 0 and numpy.isfinite(a / b):
            drv.ask(f"fdiv {frac(a)} {frac(b)}"); exp.append(("fdiv", a, b, a / b))
        x = Fraction(float(a)) / 3 + Fraction(float(b)) / 7
        drv.ask(f"fl64 {frac(x)}"); exp.append(("fl64", x, None, x.numerator / x.denominator))
    out = drv.run()
    bad = [(e, o) for e, o in zip(exp, out) if Fraction(o) != Fraction(float(e[3]))]
    run.extra["soft64_ops_validated"] = len(exp)
    if bad:
        raise RuntimeError(f"Soft64 disagrees with numpy float64 on {len(bad)} ops, e.g. {bad[0]}")


class Driver:
    """batch interface to the native Lean driver: queue request lines, run once, read responses."""

    def __init__(self):
        self.lines = []

    def ask(self, line):
        assert "\n" not in line
        self.lines.append(line)
        return len(self.lines) - 1

    def run(self):
        if not self.lines:
            return []
        p = subprocess.run([DRIVER], input="\n".join(self.lines) + "\n", stdout=subprocess.PIPE,
                           stderr=subprocess.PIPE, text=True)
        out = p.stdout.split("\n")
        if out and out[-1] == "":
            out.pop()
        if p.returncode != 0 or len(out) != len(self.lines):
            raise RuntimeError(f"driver failed rc={p.returncode} got {len(out)} of {len(self.lines)} lines: "
                               f"{p.stderr[-500:]}")
        return out


# ----------------------------------------------------------------------------- findings
def load_findings():
    p = os.path.join(VERIF, "known_findings.json")
    if not os.path.exists(p):
        return []
    return json.load(open(p)).get("findings", [])


# ----------------------------------------------------------------------------- result accounting
class Run:
    """collects everything one check run sees; decides the exit status"""

    def __init__(self, prop, tier, seed):
        self.prop, self.tier, self.seed = prop, tier, seed
        self.t0 = time.time()
        self.evaluations = 0
        self.nontrivial = set()
        self.samples = []
        self.hist = {}
        self.violations = []      # (what, case, detail, found_input: bool)
        self.known = {}           # finding id -> (text, count)
        self.mismatch_only = []   # model/impl differ, oracle fine
        self.extra = {}
        self.assumptions = []
        self.findings = [f for f in load_findings() if f["property"] == prop and f.get("status") == "known"]

    def count(self, key, n=1):
        self.hist[key] = self.hist.get(key, 0) + n

    def case(self, case, nontrivial_key=None):
        self.evaluations += 1
        if nontrivial_key is not None:
            self.nontrivial.add(nontrivial_key)
        if len(self.samples) < 4:
            self.samples.append(_short(case))

    def oracle_failure(self, case, detail, signature=None):
        """the implementation's own output contradicts the property on `case`"""
        for f in self.findings:
            if signature is not None and f.get("signature") == signature:
                t, c = self.known.get(f["id"], (f["what"], 0))
                self.known[f["id"]] = (t, c + 1)
                return
        self.violations.append(("oracle", case, detail, True))

    def mismatch(self, case, impl, model, oracle_ok=True):
        """model and implementation differ on `case` while the direct oracle accepts the implementation"""
        self.mismatch_only.append((case, impl, model))

    def proof_broken(self, problems):
        self.violations.append(("proof", None, "; ".join(problems), False))


def _short(x, lim=400):
    s = json.dumps(x, default=str)
    return x if len(s) <= lim else s[:lim] + "..."


def write_replay(prop, seed, k, payload):
    d = os.path.join(VERIF, "replays")
    os.makedirs(d, exist_ok=True)
    p = os.path.join(d, f"{prop}-seed{seed}-{k}.json")
    json.dump(payload, open(p, "w"), indent=1, default=str)
    return p


def finish(run, aud, build_s, level_text, trusted, rule, checker_cmd):
    """print verdict lines, write evidence, return exit code"""
    lines, code = [], 0
    k = 0
    for fid, (text, cnt) in sorted(run.known.items()):
        lines.append(f"KNOWN-FINDING: property={run.prop} {text} [{fid}; {cnt} case(s) this run]")
    # de-duplicate violations by detail head
    seen = set()
    for what, case, detail, found in run.violations:
        key = (what, detail[:80])
        if key in seen:
            continue
        seen.add(key)
        payload = dict(property=run.prop, kind=what, detail=detail, case=case, seed=run.seed, tier=run.tier)
        path = write_replay(run.prop, run.seed, k, payload)
        k += 1
        tail = "" if found else " no-failing-input-found"
        lines.append(f"VIOLATION property={run.prop} replay={path}{tail}")
        code = 1
        if k >= 5:
            break
    if not run.violations and run.mismatch_only:
        case, impl, model = run.mismatch_only[0]
        payload = dict(property=run.prop, kind="correspondence", seed=run.seed, tier=run.tier,
                       detail=f"model and implementation differ on {len(run.mismatch_only)} case(s); the direct "
                              f"oracle accepted the implementation's output on every generated case",
                       broken=f"correspondence op for {run.prop}", case=case, impl=impl, model=model)
        path = write_replay(run.prop, run.seed, k, payload)
        lines.append(f"VIOLATION property={run.prop} replay={path} no-failing-input-found")
        code = 1
    ev = dict(
        property_id=run.prop, tier=run.tier, seed=run.seed, level="proof",
        coverage=dict(
            obligations=aud["obligations"], discharged=aud["discharged"],
            checker_cmd=checker_cmd, trusted_base=trusted,
            theorems=aud.get("theorems", []), axioms_seen=aud.get("axioms", []),
            audit_problems=aud.get("problems", []),
            evaluations=run.evaluations, distinct_nontrivial=len(run.nontrivial), rule=rule,
            samples=run.samples, histogram=run.hist,
            model_impl_mismatches=len(run.mismatch_only),
            known_findings_seen={k_: v[1] for k_, v in run.known.items()},
            lean_build_s=round(build_s, 2), source_tables=TABLES_INFO, **run.extra),
        assumptions=run.assumptions,
        wall_s=round(time.time() - run.t0, 2),
        violations=len([l for l in lines if l.startswith("VIOLATION")]))
    # evidence/ holds runs against /repo itself only; a run against another tree (VERIF_REPO: seeded changes,
    # builders' scratch worktrees) writes to the ignored directory evidence_other/ instead
    evdir = "evidence" if os.path.realpath(REPO) == os.path.realpath("/repo") else "evidence_other"
    ev["tree_under_test"] = os.path.realpath(REPO)
    os.makedirs(os.path.join(VERIF, evdir), exist_ok=True)
    json.dump(ev, open(os.path.join(VERIF, evdir, f"{run.prop}.json"), "w"), indent=1, default=str)
    for l in lines:
        print(l)
    print(f"[{run.prop}] tier={run.tier} seed={run.seed} obligations={aud['obligations']} "
          f"discharged={aud['discharged']} cases={run.evaluations} nontrivial={len(run.nontrivial)} "
          f"mismatches={len(run.mismatch_only)} violations={ev['violations']} wall={ev['wall_s']}s")
    return code


def main(argv):
    import argparse
    ap = argparse.ArgumentParser()
    ap.add_argument("prop")
    ap.add_argument("--tier", default=os.environ.get("VERIF_TIER", "quick"), choices=["quick", "thorough"])
    ap.add_argument("--replay")
    a = ap.parse_args(argv)
    prop = a.prop.upper()
    seed = seed_from_env()
    try:
        mod = importlib.import_module(f"harness.{prop.lower()}")
    except ModuleNotFoundError as e:
        print(f"no harness for {prop}: {e}")
        return 2
    run = Run(prop, a.tier, seed)
    # every temporary file of this run lives under one private directory that is removed at the end
    import shutil
    import tempfile
    scratch = tempfile.mkdtemp(prefix=f"verif_{prop}_run_")
    tempfile.tempdir = scratch
    os.environ["TMPDIR"] = scratch
    try:
        return _main_body(a, prop, seed, mod, run)
    finally:
        tempfile.tempdir = None
        shutil.rmtree(scratch, ignore_errors=True)


def _main_body(a, prop, seed, mod, run):
    try:
        ok, out, build_s = lean_build(prop=prop)
        if not ok:
            # a broken build is a broken proof obligation only if it concerns this property's modules;
            # otherwise other properties' files are being edited: still refuse (exit 2) rather than guess
            mods = lean_files_of(prop)
            mine = any(m.replace(".", "/") in out for m in mods) or "Generated" in out
            if not mine:
                print(out[-3000:])
                print(f"[{prop}] lean build failed outside this property's modules")
                return 2
            aud = dict(ok=False, obligations=len(mod.THEOREMS), discharged=0, axioms=[],
                       problems=["lake build failed: " + out[-1500:]], theorems=[])
        else:
            aud = audit(prop, mod.THEOREMS)
        # SOURCE-TIE hook (begin): a lost source tie is not a violation; the correspondence + oracle below are the
        # failing-input search, at thorough size when the tie of a function this property reads is lost
        tie = SRC_TIE_INFO if ok else {}
        lost = tie.get("lost", [])
        run_tier = a.tier
        if lost and a.tier == "quick" and not a.replay and os.environ.get("VERIF_SRC_TIE_ESCALATE", "0") == "1":
            run_tier = "thorough"
        if tie:
            run.extra["source_tie"] = tie.get("functions", {}) or ({"error": tie["error"]} if "error" in tie else {})
            run.extra["source_tie_info"] = dict(regenerated=tie.get("regenerated"), seconds=tie.get("seconds"),
                                                generator_tier=run_tier)
            aud["obligations"] += tie.get("obligations", 0)
            aud["discharged"] += len(tie.get("proved", []))
            aud["theorems"] = list(aud.get("theorems", [])) + list(tie.get("proved", []))
        # SOURCE-TIE hook (end)
        if a.replay:
            payload = json.load(open(a.replay))
            if payload.get("kind") in ("impl-exception", "correspondence-broken"):   # replay = the same deterministic run
                mod.run(run, Rng(payload.get("seed", seed), prop), payload.get("tier", run_tier))
            else:
                mod.replay(run, payload)
        else:
            mod.run(run, Rng(seed, prop), run_tier)
        # SOURCE-TIE hook (begin): validate translator + prelude (trusted) on the translatable functions; report lost ties
        if tie.get("functions") and not a.replay:
            from . import src_tie, py2lean
            names = [t["lean"] for t in py2lean.TARGETS if t["func"] in tie["functions"]
                     and not tie["functions"][t["func"]].startswith("untranslatable")]
            try:
                for fn_, why_ in src_tie.run_src_tie(run, Rng(seed, prop + "/srctie"), a.tier, prop, names) or []:
                    lost = list(lost) + [(fn_, "executable tie: " + why_)]
            except Exception as e:   # the tie is an extra; its failure never decides a check
                run.extra["src_tie_error"] = repr(e)[:300]
        for fn_, why_ in lost:
            print(f"SOURCE-TIE-LOST property={prop} function={fn_} {why_}")
        # SOURCE-TIE hook (end)
        if a.tier == "thorough" and aud["ok"]:
            ok2, out2, s2 = leanchecker(prop)
            run.extra["leanchecker"] = dict(ok=ok2, seconds=round(s2, 1))
            if not ok2:
                aud["ok"] = False
                aud["problems"].append("leanchecker rejected the compiled module: " + out2)
        # the implementation exercised must be the tree under test
        csep_mod = sys.modules.get("csep")
        if csep_mod is not None:
            run.extra.setdefault("csep_file", csep_mod.__file__)
            if not os.path.realpath(csep_mod.__file__).startswith(os.path.realpath(REPO) + os.sep):
                raise RuntimeError(f"csep was imported from {csep_mod.__file__}, not from {REPO}")
        if not aud["ok"]:
            # proof obligation broken: the harness's oracle over the generated cases was the failing-input
            # search; if it found nothing, report with no-failing-input-found and name what broke
            if not any(v[3] for v in run.violations):
                run.proof_broken(aud["problems"])
        checker = f"cd lean && lake build PycsepVerif driver && lake env lean <#print axioms of Properties/{prop}.lean>"
        return finish(run, aud, build_s, "", mod.TRUSTED, mod.RULE, checker)
    except subprocess.TimeoutExpired:
        print(f"[{prop}] timeout")
        return 2
    except Exception as e:
        traceback.print_exc()
        # An exception that escapes from INSIDE the tree under test (innermost frame in REPO) on an input this harness
        # generated: on the unchanged tree no generated input makes pyCSEP raise past the harness (every check exits 0
        # there), so the implementation now fails on an input of the property's quantifier. That is a failing input
        # (the run is deterministic in VERIF_SEED and tier: the replay re-runs it), not a harness error.
        tb = traceback.extract_tb(e.__traceback__)
        # library frames (numpy, scipy, pandas, stdlib) are attributed to the nearest caller that is pyCSEP or harness
        inner = ""
        for fr in reversed(tb):
            rp = os.path.realpath(fr.filename)
            if rp.startswith(os.path.realpath(REPO) + os.sep) or rp.startswith(os.path.realpath(VERIF) + os.sep):
                inner = rp
                break
        if inner.startswith(os.path.realpath(REPO) + os.sep):
            frames = [f"{os.path.relpath(f.filename, REPO) if f.filename.startswith(REPO) else os.path.basename(f.filename)}"
                      f":{f.lineno} {f.name}" for f in tb[-8:]]
            payload = dict(property=prop, kind="impl-exception", seed=seed, tier=a.tier,
                           detail=f"pyCSEP raised {type(e).__name__}: {str(e)[:300]} on a generated input "
                                  f"(re-run: VERIF_SEED={seed} ./check {prop} --tier {a.tier})", frames=frames)
            path = write_replay(prop, seed, "exc", payload)
            print(f"VIOLATION property={prop} replay={path}")
            return 1
        # The exception was raised in the property's own harness code (harness/cXX*.py) while it was digesting what the
        # implementation returned (an answer used as an index / key / shape, a value of an unexpected kind, a private
        # entry point that moved): the correspondence between model and implementation could not be established on
        # this tree, and no generated input was shown to fail. Per the rule for a broken tie: reported, naming the
        # correspondence that no longer checks, with no-failing-input-found. Infrastructure failures (driver, build,
        # memory, OS, time-outs) stay harness errors (exit 2).
        infra = isinstance(e, (MemoryError, OSError, subprocess.SubprocessError)) or (
            isinstance(e, RuntimeError) and str(e).startswith(("driver failed", "Soft64 disagrees", "csep was imported")))
        in_prop_harness = bool(re.search(r"/harness/c\d\d\w*\.py$", inner))
        if in_prop_harness and not infra:
            frames = [f"{os.path.basename(f.filename)}:{f.lineno} {f.name}" for f in tb[-8:]]
            payload = dict(property=prop, kind="correspondence-broken", seed=seed, tier=a.tier,
                           broken=f"correspondence harness of {prop} ({os.path.basename(inner)})",
                           detail=f"the harness could not process the implementation's behaviour on this tree: "
                                  f"{type(e).__name__}: {str(e)[:300]} (re-run: VERIF_SEED={seed} ./check {prop} "
                                  f"--tier {a.tier}); no generated input was shown to violate the property",
                           frames=frames)
            path = write_replay(prop, seed, "corr", payload)
            print(f"VIOLATION property={prop} replay={path} no-failing-input-found")
            return 1
        print(f"[{prop}] harness error (exit 2, not a verdict)")
        return 2
