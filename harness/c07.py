"""C07 — number tests: correspondence of the Poisson / NBD / catalog N-tests with Model/NumberTest.lean + direct oracle."""
import contextlib
import datetime
import io
import math
import os
import shutil
import struct
import tempfile
from fractions import Fraction

import numpy

from .core import Driver

LEVEL_TEXT = ("Proof over the reals: delta1 = 1 - sum_{j<n} pmf(j) = sum_{j>=n} pmf(j) and delta2 = sum_{j<=n} pmf(j) for every "
              "count n (n = 0 included) and every 0 < eps < 1, hence delta1 + delta2 = 1 + pmf(n), both in [0,1]; for the Poisson "
              "law the lower tail has derivative -pmf(n) in the mean, so delta1 is non-decreasing and delta2 non-increasing in "
              "the mean; the NBD parameters are p = mean/var, r = mean^2/(var-mean) and give back mean and variance; the catalog "
              "N-test is C09's counting probabilities of the catalogue sizes. Public functions: epsilon is the code's 1e-6; in "
              "float64 n - 1e-6 and n + 1e-6 floor to n - 1 and n for every count below 2^33 (Soft64, by monotonicity of "
              "rounding; false at 2^35); the mean is (sum of stored rates) x (LAST scale factor) after any history of scale "
              "calls; delta1/delta2 are monotone in that factor and in the number of rows of the observed catalog; the laws "
              "have the stated moments (series E N = mean, E (N-mean)^2 = variance for the code's NBD parameters, which are "
              "admissible exactly when variance > mean). Round 4: for the NBD law delta1 is non-decreasing and delta2 non-increasing "
              "whenever the code's parameters move as r1 <= r2, p2 <= p1 (monotone likelihood ratio => stochastic order, every "
              "count n), in particular in the mean along a fixed or non-decreasing dispersion var/mean; with the VARIANCE fixed "
              "the clause is false of the law (kernel-checked witness: mean 2 -> 3 at variance 4, n = 10); for every epsilon with "
              "2^-k <= eps <= 1 - 2^-k and (n+1) 2^k <= 2^53 the float64 values n -/+ eps floor to n - 1 and n; a history of "
              "scale / scale_to_test_date calls is the history of the factors that took effect; the float64 value of the "
              "code's probability parameter mean / var (fix D47) lies in [0,1], is within 2^-53 relative of the quotient and is "
              "never 0 while mean/var >= 2^-1022; the formula before the fix, 1.0 - ((var - mean)/var), IS 0 at var = 1e17 x "
              "mean and is off by 8e-8 relative at var = 1e10 x mean (kernel-checked findings about the old code); 1.0 - cdf is a "
              "double in [0,1] for every cdf value in [0,1]; the catalog N-test counts the catalogs DELIVERED by the pass, "
              "whatever number (n_cat) the forecast announced, and the pass corrects the announcement. Tied to the code by a numerical correspondence of "
              "the Float instance with the implementation and a scipy oracle on every run.")
LEVEL_NOTE = ("Theorems are over the reals; scipy's poisson.cdf / nbinom.cdf are taken to be the finite sums of the mass function "
              "(compared numerically each run: 1e-9 relative for n <= 2000, 1e-7 for larger n where the Float log-factorial "
              "accumulates rounding). "
              "Monotonicity in the mean is proved for the Poisson law and, since round 4, for the NBD law along non-decreasing "
              "dispersion var/mean (with non-decreasing shape); for the NBD law with a FIXED variance it is false of the law "
              "(proved witness). The NBD tails are judged against the law evaluated in 60-digit decimal arithmetic (exact "
              "rational parameters; scipy only for n > 20000), 1e-9 relative / 1e-12 absolute, over every dispersion var/mean up to "
              "1e17; on the near-Poisson side (p -> 1) the tolerance follows the conditioning of scipy's (r, p) parameterisation.")
DESIGN_REF = "DESIGN.md §4 C07"
TECHNIQUE = "Lean 4 theorems over Mathlib reals (generic RealOps model) + Float-instance correspondence + scipy oracle"

THEOREMS = ["NumberTest.floor_shift", "NumberTest.cdf_shift", "NumberTest.pmf_closed_form", "NumberTest.pmf_total",
            "NumberTest.delta1_eq_upper_tail", "NumberTest.delta1_eq_one_sub", "NumberTest.delta2_eq_lower_tail",
            "NumberTest.delta_sum", "NumberTest.delta_bounds", "NumberTest.delta1_mono_mean",
            "NumberTest.delta2_anti_mean", "NumberTest.lower_tail_deriv", "NumberTest.delta1_succ_eq_one_sub_delta2",
            "NumberTest.delta_mono_count", "NumberTest.stable_eq",
            "NumberTest.nbd_params", "NumberTest.nbd_mean", "NumberTest.nbd_var", "NumberTest.nbd_params_admissible",
            "NumberTest.nbd_delta_eq", "NumberTest.nbd_delta_sum", "NumberTest.nbd_pmf_total",
            "NumberTest.nbd_delta1_eq_upper_tail", "NumberTest.nbd_delta_bounds", "NumberTest.nbd_stable_eq",
            "NumberTest.catalog_ntest_eq", "NumberTest.catalog_ntest_sum",
            # Properties/C07_Public.lean: public wrappers, float64 floor arguments, moments of the laws
            "NumberTest.eps_code_admissible", "NumberTest.float_floor_shift", "NumberTest.float_floor_shift_fails_beyond",
            "NumberTest.forecast_total_after_scaling", "NumberTest.public_number_test_tails",
            "NumberTest.public_number_test_sum_bounds", "NumberTest.public_rates_perm", "NumberTest.public_scale_mono",
            "NumberTest.delta_mono_count_le", "NumberTest.public_more_events", "NumberTest.pois_law_mean",
            "NumberTest.nbd_law_mean", "NumberTest.nbd_law_var", "NumberTest.nbd_params_admissible_iff",
            "NumberTest.nbd_delta1_succ_eq_one_sub_delta2", "NumberTest.nbd_delta_mono_count_le",
            "NumberTest.public_nbd_test_tails", "NumberTest.catalog_public_eq", "NumberTest.catalog_public_perm",
            "NumberTest.catalog_ntest_mono_count",
            # phase 2: array-valued scale factors, forecasts that filter on the fly, history independence
            "NumberTest.array_scale_total", "NumberTest.array_scale_const", "NumberTest.public_array_number_test_tails",
            "NumberTest.cf_ntest_filtered", "NumberTest.cf_ntest_unfiltered", "NumberTest.cf_pass_idempotent",
            "NumberTest.cf_ntest_history",
            # round 4, Properties/C07_Deep.lean: the NBD monotonicity clause decided, any epsilon in float64, the code's
            # float64 probability parameter
            "NumberTest.float_floor_shift_eps", "NumberTest.shiftF_eq_shiftFE", "NumberTest.nbd_delta_mono_params",
            "NumberTest.nbd_delta_mono_mean_dispersion", "NumberTest.nbd_delta_mono_mean_fixed_dispersion",
            "NumberTest.public_nbd_scale_mono_fixed_dispersion", "NumberTest.nbd_fixed_variance_not_monotone",
            "NumberTest.upsilon_float_range", "NumberTest.upsilon_float_rel_err", "NumberTest.upsilon_float_pos",
            "NumberTest.upsilon_old_float_range", "NumberTest.nbd_params_old_eq", "NumberTest.finding_nbd_upsilon_zero",
            "NumberTest.finding_nbd_upsilon_inexact", "NumberTest.history_eq_effective",
            "NumberTest.public_number_test_after_history", "NumberTest.cfa_ntest_announced_irrelevant",
            "NumberTest.cfa_pass_corrects_announced", "NumberTest.delta1_float_range"]
TRUSTED = ["Lean 4.33 kernel", "axioms: propext, Classical.choice, Quot.sound at most",
           "scipy.stats.poisson.cdf(x, mu) / nbinom.cdf(x, r, p) compute the finite sums of the mass function up to floor(x) "
           "(0 for x < 0); compared numerically with the Float instance of the model on every run, not proved",
           "rounding of exp/log/cdf in float64 is outside every theorem (Float instance vs real instance)",
           "numpy.sum of the forecast rates is the forecast total (compared with math.fsum to 1e-12 relative, and with the "
           "model's own sequential sum of stored rate x factor in the public-history cases)",
           "Soft64 = IEEE binary64 for n -/+ eps, mean / var and 1.0 - ((var - mean)/var) (compared with numpy / IEEE arithmetic on "
           "every run, also beyond the proved ranges)",
           "the fraction scale_to_test_date sets (decimal years) is booked by the harness's own arithmetic (C11 / C15's subject)",
           "C09 (get_quantiles) for the catalog N-test",
           "harness/c07.py generators and comparison; driver parsing (Proto.lean)"]
RULE = ("mu in 10^U(-6,5) plus decimal/integer boundary means; n in {0,1,2, floor(mu)+-3, mu+-c*sqrt(mu), U(0,2000), U(0,1e5), "
        "1e5}; NBD variance in (mu, 1e17*mu] (near-Poisson from mu(1+1e-6), wide up to dispersion 1e17; the witnesses of "
        "finding D47 run first); array-level helpers and the public functions on generated GriddedForecast "
        "(optionally scaled) / CSEPCatalog / CatalogForecast objects; observed (and synthetic) catalogs that are NOT cut "
        "to the forecast: events below the lowest magnitude edge (also 1 ulp below it), far above the top edge, outside "
        "the spatial region - n_obs is the number of events of the catalog for all three tests, which must agree on it; "
        "call sequences on ONE catalog forecast (list in memory / CSV file with store on / off / generator object / user "
        "loader function with store on / off; announced n_cat not given / exact / too small / too large): optional first pass "
        "(N-test, get_event_counts, plain loop), then the catalogs are changed in place inside or outside a loop over the "
        "forecast (filter with a string / a list, truncation of catalog.catalog, replaced list entries), then the N-test "
        "twice: distribution and deltas must be those of the catalogs as they are now (re-read from file when store is "
        "off); monotonicity on sorted grids of means for fixed n, and on pairs (mean1, var1), (mean2, var2) drawn from the "
        "whole region the NBD theorem allows; scale_to_test_date entries (before / on the start, inside, leap day, last day, "
        "last second, on / after the end) in the scale histories; epsilon arguments 1e-12..1-2^-53 for the float64 floor; "
        "in half of the scale-history cases the caller modifies in place every array the public API returned (data, "
        "spatial_counts, magnitude_counts, sum, what the result holds; zero / x3 / fill / normalise) after every tested step and "
        "tests again (bit-equal results required); rate array and catalog rows compared with their snapshots afterwards; "
        "round 7: copies (copy / deepcopy / pickle) of forecast, catalog and catalog forecast before use, calls the library "
        "rejects on the same objects before the judged ones, user subclasses of catalog and forecast, numpy.errstate raise + "
        "3-digit decimal context, the observation being one of the forecast's own catalogs; "
        "(mean, var) of every dispersion (one ulp above the mean .. 2^58 x mean) for the float64 probability parameter. "
        "A case is non-trivial when n >= 1 and P(N = n) > 1e-12 (the inclusive/exclusive tail convention is visible), or "
        "for the catalog test when some synthetic size equals n_obs; distinct by (kind, mean, variance, n) / (sizes, n_obs)")

EPS = 1e-6
N_MAX = 100000


def bits(x):
    return str(struct.unpack("<Q", struct.pack("<d", float(x)))[0])


def unbits(s):
    return struct.unpack("<d", struct.pack("<Q", int(s)))[0]


def _close(a, b, rel=1e-9, abs_=0.0):
    if not (math.isfinite(a) and math.isfinite(b)):
        return a == b
    return abs(a - b) <= abs_ + rel * max(abs(a), abs(b))


def _anchor(n, mu):
    """anchor index of the stable evaluation; a non-finite or negative total (possible only for a broken implementation)
    must not crash the harness"""
    return min(n, int(mu)) if (math.isfinite(mu) and mu >= 0) else 0


def _model_tol(n):
    # Float.logFact / logChoose are O(n) sums of logs: their rounding grows with n
    return 1e-9 if n <= 2000 else 1e-7


# ----------------------------------------------------------------------------- generators
def _gen_mu(rng):
    k = rng.random()
    if k < 0.08:
        return rng.choice([1e-6, 1e5, 1.0, 10.0, 100.0, 1000.0, 0.5, 0.0015, 2.0 ** -10, 99999.5, 700.0, 745.2, 746.0])
    if k < 0.16:
        return float(rng.randint(1, 5000))
    if k < 0.24:
        return round(10 ** rng.uniform(-3, 4), rng.randint(0, 3)) or 0.001
    return 10.0 ** rng.uniform(-6, 5)


def _gen_n(rng, mu, sd=None):
    sd = sd if sd is not None else math.sqrt(mu)
    k = rng.random()
    if k < 0.12:
        n = rng.choice([0, 1, 2])
    elif k < 0.42:
        n = int(math.floor(mu)) + rng.randint(-3, 3)
    elif k < 0.67:
        n = int(round(mu + rng.gauss(0, 1.5) * sd))
    elif k < 0.82:
        n = rng.randint(0, 2000)
    elif k < 0.97:
        n = rng.randint(0, N_MAX)
    else:
        n = N_MAX
    return min(max(n, 0), N_MAX)


# ----------------------------------------------------------------------------- Poisson, array level
def _pois_oracle(run, case, mu, n, d1, d2):
    import scipy.stats
    ok = True
    sf = float(scipy.stats.poisson.sf(n - 1, mu))     # P(N >= n)
    cdf = float(scipy.stats.poisson.cdf(n, mu))       # P(N <= n)
    pmf = float(scipy.stats.poisson.pmf(n, mu))
    if not _close(d1, sf, 1e-9, 1e-12):
        run.oracle_failure(case, f"delta1={d1!r} but P(N>=n)={sf!r}"); ok = False
    if not _close(d2, cdf, 1e-9, 1e-300):
        run.oracle_failure(case, f"delta2={d2!r} but P(N<=n)={cdf!r}"); ok = False
    if not abs(d1 + d2 - 1.0 - pmf) <= 1e-9:
        run.oracle_failure(case, f"delta1+delta2-1={d1 + d2 - 1.0!r} but P(N=n)={pmf!r}"); ok = False
    if not (0.0 <= d1 <= 1.0 and 0.0 <= d2 <= 1.0):
        run.oracle_failure(case, f"delta out of [0,1]: {d1!r} {d2!r}"); ok = False
    return ok, pmf


EPS_POOL = [1e-3, 0.25, 0.5, 0.999, 1e-8, 1e-6, 0.1]

# ----------------------------------------------------------------------------- private helpers may be absent
_HELPER = {}


def _helper(run, mod, name, *probe_args, **probe_kw):
    """the private array-level helper `name` of module `mod` if it exists on the tree under test AND accepts the documented
    arguments; otherwise None (counted as helper-missing:<name>, noted in the assumptions): the cases are then driven
    through the PUBLIC number tests on a one-bin forecast of that total and a catalog of that many events"""
    key = (mod.__name__, name)
    if key not in _HELPER:
        import inspect
        fn = getattr(mod, name, None)
        if fn is not None:
            try:
                inspect.signature(fn).bind(*probe_args, **probe_kw)
            except TypeError:
                fn = None
            except ValueError:
                pass                     # no introspectable signature: try it
        _HELPER[key] = fn
        if fn is None:
            run.assumptions.append(f"private helper {mod.__name__}.{name} is absent (or has another signature) on the tree under "
                                   f"test: its direct cases run through the public number tests instead")
    if _HELPER[key] is None:
        run.count(f"helper-missing:{name}")
    return _HELPER[key]


_ONE_BIN = {}
PUBLIC_FALLBACK_MAX_N = 20000


def _public_pair(run, case, mu, n, var=None):
    """(delta1, delta2) of the public gridded N-test on a forecast with the single rate `mu` and a catalog of `n` events"""
    from csep.core import poisson_evaluations as pe, binomial_evaluations as be
    from csep.core.forecasts import GriddedForecast
    if n > PUBLIC_FALLBACK_MAX_N:
        run.count("helper-missing:case-skipped-large-n")
        return None
    reg = _region(1, 1, 1)
    f = GriddedForecast(start_time=datetime.datetime(2020, 1, 1), end_time=datetime.datetime(2021, 1, 1),
                        data=numpy.array([[float(mu)]]), region=reg[0], magnitudes=reg[1], name="one-bin")
    if n not in _ONE_BIN:
        if len(_ONE_BIN) > 64:
            _ONE_BIN.clear()
        _ONE_BIN[n] = _catalog(n, reg, 4242)
    res = pe.number_test(f, _ONE_BIN[n]) if var is None else be.negative_binomial_number_test(f, _ONE_BIN[n], var)
    return res.quantile[0], res.quantile[1]


def _pois_case(run, drv, pending, rng, mu, n, tag, np_types=False, eps=None):
    from csep.core import poisson_evaluations as pe
    case = dict(kind="pois", mu=repr(float(mu)), n=int(n), tag=tag)
    if eps is not None:
        case["eps"] = repr(eps)
    helper = _helper(run, pe, "_number_test_ndarray", 1.0, 1, epsilon=1e-6)
    try:
        if helper is None:
            eps = None
            case.pop("eps", None)
            pair = _public_pair(run, case, mu, n)
            if pair is None:
                return None
            d1, d2 = pair
        elif eps is not None:
            # the documented third argument: any 0 < epsilon < 1 must give the same two tails
            d1, d2 = helper(float(mu), int(n), epsilon=eps) if n % 2 else helper(float(mu), int(n), eps)
        elif np_types:
            d1, d2 = helper(numpy.float64(mu), numpy.int64(n))
        else:
            d1, d2 = helper(float(mu), int(n))
        d1, d2 = float(d1), float(d2)
    except Exception as e:
        run.oracle_failure(case, f"exception {type(e).__name__}: {e}")
        return None
    _, pmf = _pois_oracle(run, case, mu, n, d1, d2)
    run.case(case, ("pois", float(mu), n) if (n >= 1 and pmf > 1e-12) else None)
    run.count("pois:" + ("n=0" if n == 0 else ("visible" if pmf > 1e-12 else "far-tail")))
    i = drv.ask(f"c07_pois {bits(mu)} {n} {_anchor(n, mu)} {bits(eps if eps is not None else EPS)}")
    j = drv.ask(f"c07_poisd {bits(mu)} {n} {bits(eps if eps is not None else EPS)}") if (mu < 700 and n <= 3000) else None
    pending.append(("pois", case, i, j, d1, d2, n))
    if eps is not None:
        run.count("pois:explicit-epsilon")
    return d1, d2


# ----------------------------------------------------------------------------- NBD, array level
EXACT_ORACLE_MAX_N = 20000


def _nbd_exact(mu, var, n):
    """(P(N >= n), P(N <= n), P(N = n)) of the negative-binomial law with mean `mu` and variance `var` (the doubles taken as
    exact rationals), r = mu^2/(var - mu), p = mu/var, in 60-digit decimal arithmetic: pmf(0) = exp(r ln p),
    pmf(k+1) = pmf(k) (r+k)(1-p)/(k+1) - no scipy, no float rounding (rounded once at the end)"""
    from decimal import Decimal, localcontext
    with localcontext() as ctx:
        ctx.prec = 60
        m, v = Decimal(mu), Decimal(var)
        p = m / v
        r = m * m / (v - m)
        q = 1 - p
        t = (r * p.ln()).exp()
        lo = Decimal(0)
        below = Decimal(0)
        for k in range(n + 1):
            if k == n:
                below = lo
            lo += t
            if k < n:
                t = t * (r + k) * q / (k + 1)
        return float(1 - below), float(lo), float(t)


def _nbd_oracle(run, case, mu, var, n, d1, d2):
    import scipy.stats
    p = float(Fraction(mu) / Fraction(var))
    r = float(Fraction(mu) ** 2 / (Fraction(var) - Fraction(mu)))
    if n <= EXACT_ORACLE_MAX_N:
        sf, cdf, pmf = _nbd_exact(mu, var, n)
        run.count("nbd:oracle=exact-decimal")
    else:
        sf = float(scipy.stats.nbinom.sf(n - 1, r, p))
        cdf = float(scipy.stats.nbinom.cdf(n, r, p))
        pmf = float(scipy.stats.nbinom.pmf(n, r, p))
        run.count("nbd:oracle=scipy-exact-parameters")
    # near-Poisson side only: p -> 1 and scipy's (r, p) parameterisation loses 1 - p (relative error ~1e-16/(1 - mu/var),
    # inherent to handing p to nbinom); tails move by about that times r. For var >= 2 mu this term is below 1e-15 r.
    slack = 1e-9 + 4e-16 * r * var / (var - mu)
    if not _close(d1, sf, slack, 1e-12 + slack * 1e-3):
        run.oracle_failure(case, f"delta1={d1!r} but P(N>=n)={sf!r} (r={r!r}, p={p!r})")
    if not _close(d2, cdf, slack, 1e-300 + slack * 1e-3):
        run.oracle_failure(case, f"delta2={d2!r} but P(N<=n)={cdf!r} (r={r!r}, p={p!r})")
    if not abs(d1 + d2 - 1.0 - pmf) <= 1e-9 + slack:
        run.oracle_failure(case, f"delta1+delta2-1={d1 + d2 - 1.0!r} but P(N=n)={pmf!r}")
    if not (0.0 <= d1 <= 1.0 and 0.0 <= d2 <= 1.0):
        run.oracle_failure(case, f"delta out of [0,1]: {d1!r} {d2!r}")
    return pmf


def _nbd_case(run, drv, pending, rng, mu, var, n, tag, vtype="float", eps=None):
    from csep.core import binomial_evaluations as be
    var = float(_as_var(var, vtype, mu))
    case = dict(kind="nbd", mu=repr(float(mu)), var=repr(float(var)), n=int(n), tag=tag, vtype=vtype)
    if eps is not None:
        case["eps"] = repr(eps)
    helper = _helper(run, be, "_nbd_number_test_ndarray", 1.0, 1, 2.0, epsilon=1e-6)
    try:
        if helper is None:
            eps = None
            case.pop("eps", None)
            pair = _public_pair(run, case, mu, n, _as_var(var, vtype, mu))
            if pair is None:
                return None
            d1, d2 = pair
        elif eps is not None:
            d1, d2 = helper(float(mu), int(n), float(var), epsilon=eps)
        elif vtype == "float":
            d1, d2 = helper(float(mu), int(n), float(var))
        else:
            d1, d2 = helper(numpy.float64(mu), numpy.int64(n), _as_var(var, vtype, mu))
        d1, d2 = float(d1), float(d2)
    except Exception as e:
        run.oracle_failure(case, f"exception {type(e).__name__}: {e}")
        return None
    pmf = _nbd_oracle(run, case, mu, var, n, d1, d2)
    run.case(case, ("nbd", float(mu), float(var), n) if (n >= 1 and pmf > 1e-12) else None)
    run.count("nbd:" + ("n=0" if n == 0 else ("visible" if pmf > 1e-12 else "far-tail")))
    i = drv.ask(f"c07_nbd {bits(mu)} {bits(var)} {n} {_anchor(n, mu)} {bits(eps if eps is not None else EPS)}")
    pending.append(("nbd", case, i, None, d1, d2, n))
    if eps is not None:
        run.count("nbd:explicit-epsilon")
    return d1, d2


def _gen_var(rng, mu):
    k = rng.random()
    if k < 0.1:
        return mu * 1e4
    if k < 0.2:
        # near-Poisson: the tolerance of the oracle grows with the condition number r x var/(var-mean) of the parameters
        return mu * (1 + 10 ** rng.uniform(-6, -1))
    if k < 0.3:
        return max(23541.0, mu * 1.5) if mu < 23541.0 else mu * 2.0
    return mu * (1 + 10 ** rng.uniform(-2, 4)) if rng.random() < 0.9 else mu + 10 ** rng.uniform(-3, 3)


# ----------------------------------------------------------------------------- public functions
_REGIONS = {}


def _region(nx, ny, nm):
    key = (nx, ny, nm)
    if key not in _REGIONS:
        from csep.core.regions import CartesianGrid2D
        origins = numpy.array([[x * 0.1, y * 0.1] for x in range(nx) for y in range(ny)])
        mags = numpy.array([4.0 + 0.5 * k for k in range(nm)])
        _REGIONS[key] = (CartesianGrid2D.from_origins(origins, dh=0.1, magnitudes=mags), mags, nx, ny, nm)
    return _REGIONS[key]


_DTYPE = [('id', 'S256'), ('origin_time', '<i8'), ('latitude', '<f8'), ('longitude', '<f8'), ('depth', '<f8'),
          ('magnitude', '<f8')]


def _catalog_array(n, reg, seed, extras=None):
    """structured array of n events inside the space-magnitude region plus `extras` = [below, above, outside] events that
    a catalog not cut to the forecast contains: below the lowest magnitude edge (one of them 1 ulp below it), far
    above the last edge (the top bin is open: still a target event), outside the spatial region (any magnitude).
    The order of the rows is shuffled so that the extra events are interleaved."""
    region, mags, nx, ny, nm = reg
    g = numpy.random.default_rng(seed)
    below, above, outside = extras or (0, 0, 0)
    tot = n + below + above + outside
    arr = numpy.zeros(tot, dtype=_DTYPE)
    arr['id'] = numpy.arange(tot).astype('S')
    arr['origin_time'] = 1_600_000_000_000 + numpy.arange(tot) * 1000
    arr['longitude'] = (g.integers(0, nx, tot) + 0.5) * 0.1
    arr['latitude'] = (g.integers(0, ny, tot) + 0.5) * 0.1
    arr['depth'] = 10.0
    arr['magnitude'] = 4.0 + 0.5 * g.integers(0, nm, tot) + 0.25
    m0 = float(mags[0])
    if below:
        lo = m0 - g.choice([0.05, 0.1, 0.3, 1.1, 2.5], below)
        lo[0] = numpy.nextafter(m0, -1.0) if g.random() < 0.5 else lo[0]
        arr['magnitude'][n:n + below] = lo
    if above:
        arr['magnitude'][n + below:n + below + above] = float(mags[-1]) + g.choice([0.5, 2.0, 4.5], above)
    if outside:
        sl = slice(n + below + above, tot)
        arr['longitude'][sl] = g.choice([-1.05, nx * 0.1 + 0.75, 7.35], outside)
        arr['latitude'][sl] = g.choice([-3.25, ny * 0.1 + 1.15, 0.05], outside)
        arr['magnitude'][sl] = g.choice([m0 - 0.6, m0 + 0.25], outside)
    if tot > n:
        perm = g.permutation(tot)
        for f in ('latitude', 'longitude', 'magnitude'):
            arr[f] = arr[f][perm]
    if tot and seed % 4 == 0:
        # unreported depth, the instant 1970-01-01T00:00:00 (epoch 0 is falsy), events sharing an origin time
        arr['depth'][int(g.integers(tot))] = numpy.nan
        arr['origin_time'][0] = 0
        if tot > 2:
            arr['origin_time'][2] = arr['origin_time'][1]
    if tot and seed % 7 == 0:
        # columns in non-native byte order
        be_dtype = [(nm_, t.replace('<', '>')) for nm_, t in _DTYPE]
        arr = arr.astype(be_dtype)
    return arr


def _catalog(n, reg, seed, extras=None):
    """CSEPCatalog of n in-region events (+ extras, see _catalog_array); structured array: fast for n up to 1e5"""
    from csep.core.catalogs import CSEPCatalog
    return CSEPCatalog(data=_catalog_array(n, reg, seed, extras), region=reg[0])


def _gen_extras(rng, n):
    """numbers of [below-minimum-magnitude, above-top-edge, outside-region] events of an uncut catalog"""
    k = rng.random()
    if k < 0.45:
        return None
    cap = max(1, min(40, n)) if rng.random() < 0.7 else 3
    e = [rng.randint(0, cap) if rng.random() < 0.7 else 0, rng.randint(0, 3) if rng.random() < 0.3 else 0,
         rng.randint(0, cap) if rng.random() < 0.4 else 0]
    if sum(e) == 0:
        e[0] = rng.randint(1, cap)
    return e


def _forecast(spec, reg):
    """GriddedForecast of the given total from a JSON-able spec (so that a public case can be replayed)"""
    from csep.core.forecasts import GriddedForecast
    region, mags, nx, ny, nm = reg
    g = numpy.random.default_rng(spec["wseed"])
    w = g.uniform(0.01, 1.0, size=(nx * ny, nm)) ** spec["wpow"]
    scale = spec["scale"]
    total = float(spec["total"])
    raw_total = total / scale if scale else total
    data = w / w.sum() * raw_total
    f = GriddedForecast(start_time=datetime.datetime(2020, 1, 1), end_time=datetime.datetime(2021, 1, 1),
                        data=data, region=region, magnitudes=mags, name="gen")
    if scale:
        f = f.scale(scale)
    return f, data, scale


def _gen_public(rng):
    dims = [rng.randint(1, 4), rng.randint(1, 3), rng.randint(1, 3)]
    mu_t = min(max(_gen_mu(rng), 1e-6), 1e5)
    scale = None
    spec = dict(wseed=rng.randrange(2 ** 32), wpow=rng.choice([1, 3]), total=repr(mu_t))
    if rng.random() < 0.5:
        scale = rng.choice([0.5, 2.0, 1 / 365.25, 10 ** rng.uniform(-3, 3), 7 / 365])
    spec["scale"] = scale
    f, data, _ = _forecast(spec, _region(*dims))
    mu = mu_t                 # the total the forecast is built to have (the generator does not consult the implementation)
    n = _gen_n(rng, mu) if rng.random() < 0.9 else rng.randint(0, 300)
    if n > 20000 and rng.random() < 0.7:
        n = rng.randint(0, 3000)
    extras = _gen_extras(rng, n)
    if extras and rng.random() < 0.5:
        # keep the TOTAL near the interesting counts: part of the n events become the extra ones
        n = max(0, n - sum(extras))
    if extras and n + sum(extras) > N_MAX:
        extras = None
    nbd = rng.random() < 0.4
    case = dict(kind="public-nbd" if nbd else "public-pois", dims=dims, fspec=spec, n_in=n, extras=extras,
                cat_seed=rng.randrange(2 ** 32), var=repr(_gen_var(rng, mu)) if nbd else None, tag="public")
    if rng.random() < 0.5:
        s2 = rng.choice([0.25, 3.0, 10 ** rng.uniform(-2, 2)])
        mu2 = math.fsum(data.ravel().tolist()) * s2
        case["scale2"] = s2
        case["var2"] = repr(_gen_var(rng, mu2)) if (nbd and 1e-6 <= mu2 <= 1e5) else None
    return case


def _public_case(run, drv, pending, case):
    from csep.core import poisson_evaluations as pe, binomial_evaluations as be
    reg = _region(*case["dims"])
    f, data, scale = _forecast(case["fspec"], reg)
    try:
        mu = float(f.event_count)
    except Exception as e:
        run.oracle_failure(case, f"event_count of the forecast is not a number: {type(e).__name__}: {e}")
        return
    extras = case.get("extras")
    n = case["n_in"] + (sum(extras) if extras else 0)      # the number of events of the observed catalog
    cat = _catalog(case["n_in"], reg, case["cat_seed"], extras)
    nbd = case["kind"].startswith("public-nbd")
    var = float(case["var"]) if nbd else None
    case = dict(case, mu=repr(mu), n=n)
    # the forecast total the test uses is the sum of the (scaled) rates
    tot = math.fsum(data.ravel().tolist()) * (scale if scale else 1.0)
    if not _close(mu, tot, 1e-12):
        run.oracle_failure(case, f"forecast total {mu!r} is not the sum of the scaled rates {tot!r}")
    try:
        res = be.negative_binomial_number_test(f, cat, var) if nbd else pe.number_test(f, cat)
        d1, d2 = float(res.quantile[0]), float(res.quantile[1])
    except Exception as e:
        run.oracle_failure(case, f"exception {type(e).__name__}: {e}")
        return
    if res.observed_statistic != n or cat.event_count != n:
        run.oracle_failure(case, f"observed statistic {res.observed_statistic!r} is not the number of events {n} of the "
                                 f"observed catalog (extras below/above/outside: {extras})")
    if extras:
        # the same inputs through the other gridded N-test: both count the events of the catalog
        try:
            other = pe.number_test(f, cat) if nbd else be.negative_binomial_number_test(f, cat, mu * 2.5 + 1.0)
            if other.observed_statistic != n:
                run.oracle_failure(case, f"{'Poisson' if nbd else 'NBD'} N-test on the same catalog uses n_obs = "
                                         f"{other.observed_statistic!r}, the catalog has {n} events (extras {extras})")
        except Exception as e:
            run.oracle_failure(case, f"exception {type(e).__name__}: {e}")
        run.count("public:uncut-catalog" + (":below-min-mag" if extras[0] else "") + (":outside" if extras[2] else ""))
    if nbd:
        pmf = _nbd_oracle(run, case, mu, var, n, d1, d2)
        i = drv.ask(f"c07_nbd {bits(mu)} {bits(var)} {n} {_anchor(n, mu)} {bits(EPS)}")
        pending.append(("nbd", case, i, None, d1, d2, n))
    else:
        _, pmf = _pois_oracle(run, case, mu, n, d1, d2)
        i = drv.ask(f"c07_pois {bits(mu)} {n} {_anchor(n, mu)} {bits(EPS)}")
        pending.append(("pois", case, i, None, d1, d2, n))
    run.case(case, (case["kind"], mu, var, n, tuple(extras or ())) if (n >= 1 and pmf > 1e-12) else None)
    run.count(case["kind"] + (":scaled" if scale else ":unscaled"))
    # the same forecast object rescaled AFTER a test has read its total: the next test must use the new total
    # (scale is absolute: data = base x last factor)
    if case.get("scale2") is not None:
        s2 = case["scale2"]
        f.scale(s2)
        mu2 = math.fsum(data.ravel().tolist()) * s2
        case2 = dict(case, mu=repr(mu2), tag="public-rescaled")
        if 1e-6 <= mu2 <= 1e5 and (not nbd or case.get("var2") is not None):
            try:
                var2 = float(case["var2"]) if nbd else None
                res2 = be.negative_binomial_number_test(f, cat, var2) if nbd else pe.number_test(f, cat)
                e1, e2 = float(res2.quantile[0]), float(res2.quantile[1])
                ec2 = float(f.event_count)
            except Exception as e:
                run.oracle_failure(case2, f"exception {type(e).__name__}: {e}")
                return
            if not _close(ec2, mu2, 1e-12):
                run.oracle_failure(case2, f"after scale({s2!r}) the forecast total is {ec2!r}, "
                                          f"the rescaled rates sum to {mu2!r}")
            if res2.observed_statistic != n:
                run.oracle_failure(case2, f"observed statistic {res2.observed_statistic!r} is not the number of events {n}")
            if nbd:
                _nbd_oracle(run, case2, mu2, var2, n, e1, e2)
            else:
                _pois_oracle(run, case2, mu2, n, e1, e2)
            run.case(case2, (case2["kind"] + "-rescaled", mu2, n))
            run.count(case2["kind"] + "-rescaled")


def _catalog_case(run, drv, pending, rng, tier, sizes=None, nobs=None, extras=None, obs_extras=None, source=None,
                  n_cat_kind=None):
    """catalog N-test; `sizes` / `nobs` count the events inside the region, `extras` (one [below, above, outside] triple
    or None per synthetic catalog) and `obs_extras` add events of catalogs that were not cut to the region"""
    from csep.core import catalog_evaluations as ce
    from csep.core.forecasts import CatalogForecast
    reg = _region(2, 2, 2)
    if sizes is None:
        ncat = rng.choice([1, 2, 3, 5, 10, 50, 200 if tier == "quick" else 1000])
        kind = rng.choice(["ties", "poisson", "wide", "const"])
        if kind == "ties":
            pool = [rng.randint(0, 12) for _ in range(rng.randint(1, 4))]
            sizes = [rng.choice(pool) for _ in range(ncat)]
        elif kind == "poisson":
            lam = 10 ** rng.uniform(-1, 2)
            sizes = [int(v) for v in numpy.random.default_rng(rng.randrange(2 ** 32)).poisson(lam, ncat)]
        elif kind == "wide":
            sizes = [rng.randint(0, 3000) for _ in range(min(ncat, 20))]
        else:
            sizes = [rng.randint(0, 5)] * ncat
        if rng.random() < 0.4:
            pool_e = [None, None, [1, 0, 0], [2, 0, 1], [0, 0, 3], [rng.randint(1, 6), rng.randint(0, 1), rng.randint(0, 2)]]
            extras = [rng.choice(pool_e) for _ in sizes]
            obs_extras = rng.choice(pool_e[2:])
        tot = [k + (sum(e) if e else 0) for k, e in zip(sizes, extras or [None] * len(sizes))]
        lo, hi = min(tot), max(tot)
        want = rng.choice([rng.choice(tot), rng.choice(tot), lo, hi, max(lo - 1, 0), hi + 1, (lo + hi) // 2, 0])
        if obs_extras and sum(obs_extras) > want:
            obs_extras = [min(want, 1), 0, 0] if want else None
        nobs = want - (sum(obs_extras) if obs_extras else 0)
        # where the catalogs come from and what the forecast is told about their number
        source = rng.choice(["list", "list", "generator"])
        n_cat_kind = rng.choice([None, "exact"]) if source == "list" else rng.choice([None, "exact", "small", "large"])
    source = source or "list"
    extras = extras or [None] * len(sizes)
    cache = {}

    def cat_of(k, e=None):
        key = (k, tuple(e) if e else None)
        if key not in cache:
            cache[key] = _catalog(k, reg, 1000 + k, e)
        return cache[key]
    case = dict(kind="catalog", sizes=[int(s) for s in sizes], nobs=int(nobs), tag="catalog")
    if source != "list" or n_cat_kind:
        case.update(source=source, n_cat_kind=n_cat_kind)
    if any(extras) or obs_extras:
        case.update(extras=extras, obs_extras=obs_extras)
    # what the property speaks about: the number of events of each catalog
    sizes = [k + (sum(e) if e else 0) for k, e in zip(sizes, extras)]
    nobs = nobs + (sum(obs_extras) if obs_extras else 0)
    try:
        cats = [cat_of(k, e) for k, e in zip(case["sizes"], extras)]
        kwn = dict(n_cat=_announced(n_cat_kind, len(cats))) if n_cat_kind else {}
        fc = CatalogForecast(catalogs=(cats if source == "list" else (c for c in cats)), region=reg[0], name="gen", **kwn)
        run.count(f"catalog:source={source}:n_cat={n_cat_kind}")
        obs = cat_of(case["nobs"], obs_extras)
        # verbose on / off / left at its default (True): the progress output must not change the result
        mode = (sum(case["sizes"]) + case["nobs"]) % 3
        kw = [dict(verbose=False), dict(verbose=True), dict()][mode]
        with contextlib.redirect_stdout(io.StringIO()):
            res = ce.number_test(fc, obs, **kw)
        d1, d2 = res.quantile
        res_live, res = res, _Frozen(res)
        _poke_result_list(run, res_live, POKES[(sum(case["sizes"]) + case["nobs"]) % 4])   # the caller edits what it got
        res2 = ce.number_test(fc, obs, verbose=False)   # a second pass over the same forecast
        run.count("catalog:verbose=" + ["off", "on", "default"][mode])
    except Exception as e:
        run.oracle_failure(case, f"exception {type(e).__name__}: {e}")
        return
    _catalog_verdict(run, drv, pending, case, sizes, nobs, res, res2)
    if any(extras) or obs_extras:
        run.count("catalog:uncut-catalogs")


def _catalog_verdict(run, drv, pending, case, sizes, nobs, res, res2, cf=None):
    """oracle + model query for one catalog N-test whose synthetic catalogs NOW hold `sizes` events, the observation `nobs`"""
    try:
        d1, d2 = res.quantile
        d1 = None if d1 is None else float(d1); d2 = None if d2 is None else float(d2)
        td1 = [int(v) for v in res.test_distribution]
        td2 = [int(v) for v in res2.test_distribution]
        q2 = tuple(None if v is None else float(v) for v in res2.quantile)
    except Exception as e:
        run.oracle_failure(case, f"result of the catalog N-test unreadable ({type(e).__name__}: {e}): quantile "
                                 f"{getattr(res, 'quantile', None)!r}")
        return
    ncat = len(sizes)
    kge = sum(1 for s in sizes if s >= nobs)
    kle = sum(1 for s in sizes if s <= nobs)
    keq = sum(1 for s in sizes if s == nobs)
    if res.observed_statistic != nobs:
        run.oracle_failure(case, f"observed statistic {res.observed_statistic!r} is not the number of events {nobs} of the "
                                 f"observed catalog")
    # k/n as the correctly rounded quotient, or within an ulp of it (another order of the same exact arithmetic)
    def is_q(v, k):
        return v is not None and abs(v - k / ncat) <= 2.3e-16
    if not (is_q(d1, kge) and is_q(d2, kle)):
        run.oracle_failure(case, f"quantile={d1!r},{d2!r} expected {kge}/{ncat} {kle}/{ncat} (catalog sizes {sizes[:20]}, "
                                 f"n_obs {nobs})")
    # the test distribution as a MULTISET of catalog sizes (the order in which a forecast reports them is not observable
    # through the property)
    if q2 != (d1, d2) or sorted(td1) != sorted(int(s) for s in sizes) or sorted(td2) != sorted(int(s) for s in sizes):
        run.oracle_failure(case, f"second pass / test distribution differ from the catalog sizes {sizes[:20]}: "
                                 f"{q2!r} {td1[:20]!r} {td2[:20]!r}")
    if Fraction(kge + kle, ncat) != 1 + Fraction(keq, ncat):
        run.oracle_failure(case, "delta1+delta2 != 1 + P(N=n_obs)")
    run.case(case, (case["kind"], tuple(sorted(sizes)), nobs, str(case.get("seq"))) if keq > 0 else None)
    run.count("catalog:" + ("tie-with-obs" if keq else ("below" if kle == 0 else ("above" if kge == 0 else "between"))))
    i = drv.ask(f"c07_cat {','.join(str(int(s)) for s in sizes)} {int(nobs)}")
    pending.append(("cat", case, i, None, d1, d2, ncat))
    if cf:
        pending.append(("cat", case, drv.ask(cf), None, d1, d2, ncat))


# ----------------------------------------------------------------------------- call sequences on one catalog forecast
FILTER_POOL = ["magnitude >= 4.5", "magnitude >= 4.25", "magnitude < 4.5", "longitude < 0.1", "latitude >= 0.1",
               "magnitude >= 3.9", "magnitude > 4.75", "longitude >= 0.0"]
_OPS = {">=": numpy.greater_equal, "<": numpy.less, ">": numpy.greater, "<=": numpy.less_equal}
# input classes on which the unchanged code does not satisfy the property and which wait for a decision (kept out of the
# generators): an ABORTED pass (next()/break) before the N-test makes the test count only the remaining catalogs - this
# is the known finding D27 of C13 ("catalog-forecast:aborted-pass-not-restarted"), the same defect seen through C07
AWAITING_DECISION = ["catalog-forecast: aborted pass (next()/break) before the catalog N-test (D27, known under C13)"]
# D47 (found in round 4 by widening the variance generator; repaired in /repo): binomial_evaluations.py:24 formed the NBD
# probability as 1.0 - ((var - mean) / var): nan for var >= ~9e15 x mean, relative error 1.1e-16 x var/mean below that.
# Since the fix (`upsilon = mean / var`) every dispersion up to 1e17 x mean is generated (`_gen_wide_var`) and judged by
# the exact oracle; the two witnesses of the old code run first in the corpus (D47_WITNESSES): reverting the fix is reported.
D47_WITNESSES = [(1.0, 1e17, 0), (1.0, 1e17, 3), (78159.23998281111, 2.4404283166859148e+16, 1), (1e-6, 23541.0, 0),
                 (1e-6, 1e11, 1)]
SEQ_CUTS = [4.0, 4.5, 4.25, 3.7]


def _announced(kind, delivered):
    """the `n_cat` keyword of CatalogForecast: not given, the number of catalogs the source delivers, fewer, or more (a
    file / generator that holds fewer catalogs than announced, e.g. trailing empty catalogs absent from the file)"""
    return {None: None, "exact": delivered, "small": max(delivered // 2, 1), "large": delivered + 1 + delivered % 3}[kind]


class _SimForecast:
    """bookkeeping of the harness for a CatalogForecast: which rows every catalog holds / hands out, computed on the
    arrays the harness generated (numpy comparisons only, nothing of csep)"""

    def __init__(self, arrays, mode, cfg, nx=2, ny=2):
        self.orig = [a.copy() for a in arrays]
        self.cur = [a.copy() for a in arrays]
        self.mode, self.cfg = ("store" if mode in ("generator", "loader-store") else
                               ("nostore" if mode == "loader-nostore" else mode)), cfg
        self.apply = bool(cfg and cfg["apply"])
        self.nx, self.ny = nx, ny
        self.passes = 0

    def keep(self, a):
        m = numpy.ones(len(a), dtype=bool)
        for f in self.cfg["filters"]:
            name, op, val = f.split()
            m &= _OPS[op](a[name], float(val))
        if self.cfg["spatial"]:
            m &= (a['longitude'] >= 0.0) & (a['longitude'] < self.nx * 0.1) & (a['latitude'] >= 0.0) & (a['latitude'] < self.ny * 0.1)
        return m

    def full_pass(self, mutate=None, chosen=()):
        src = self.orig if self.mode == "nostore" else self.cur
        out = []
        for j, a in enumerate(src):
            if self.apply:
                a = a[self.keep(a)]
            if mutate is not None and j in chosen:
                a = mutate(a)
            out.append(a)
        if self.mode != "nostore":
            self.cur = out
        if self.mode == "store" and self.passes == 0:
            self.apply = False            # the stored catalogs are the filtered ones, they are not filtered again
        self.passes += 1
        return [len(a) for a in out]

    def flags(self):
        """per catalog, per row of the ORIGINAL arrays: 1 = kept by the configured filters, 0 = dropped"""
        return [[int(v) for v in (self.keep(a) if self.cfg else numpy.ones(len(a), dtype=bool))] for a in self.orig]
     # region magnitudes are [4.0, 4.5]; events at 4.25 / 4.75, extras below 4.0


def _gen_seq_case(rng, tier):
    ncat = rng.choice([1, 2, 3, 4, 6, 10, 25])
    pool = [rng.randint(0, 14) for _ in range(rng.randint(2, 5))]
    sizes = [rng.choice(pool) for _ in range(ncat)]
    extras = [[rng.randint(0, 6), rng.randint(0, 1), rng.randint(0, 2)] if rng.random() < 0.7 else None for _ in sizes]
    # source of the catalogs: a list in memory / a CSV file read by load_catalog_forecast (store on / off) / a generator
    # object handed to `catalogs=` / a user-supplied `loader=` function with store on / off
    mode = rng.choice(["memory", "memory", "store", "store", "nostore", "generator", "generator", "loader-store",
                       "loader-nostore"])
    pre = rng.choice(["none", "none", "ntest", "counts", "loop"])
    mut = rng.choice(["filter-str", "filter-str", "filter-list", "truncate", "replace", "none"])
    where = rng.choice(["in-loop", "in-loop", "direct"])
    if mode in ("nostore", "loader-nostore"):
        where = "in-loop"
        if mut == "replace":
            mut = "filter-str"
    if mode in ("store", "generator", "loader-store") and pre == "none":
        where = "in-loop"          # before the first pass the forecast holds a generator, not a list
    subset = rng.choice(["all", "all", "even", "first"])
    seq = dict(mode=mode, pre=pre, mut=mut, where=where, subset=subset, cut=rng.choice(SEQ_CUTS),
               seeds=[rng.randrange(2 ** 31) for _ in sizes], repl=[rng.randint(0, 9), rng.randrange(2 ** 31)])
    # configuration of the forecast: filters it applies on the fly while it is iterated (constructor keywords
    # filters / apply_filters / filter_spatial); half of the configured forecasts meet the N-test as their FIRST pass
    cfg = None
    if rng.random() < 0.55:
        flt = rng.sample(FILTER_POOL, rng.choice([0, 1, 1, 2]))
        cfg = dict(apply=rng.random() < 0.75, filters=flt, as_str=(len(flt) == 1 and rng.random() < 0.3),
                   spatial=rng.random() < 0.4)
        if rng.random() < 0.5:
            seq["pre"] = "none"
            if mode in ("store", "generator", "loader-store"):
                seq["where"] = "in-loop"
        if rng.random() < 0.4 or cfg["apply"]:
            # a forecast that filters on the fly may keep the filtered catalogs (as now) or filter copies on every pass: what
            # a change made by the CALLER to such catalogs then meets is not fixed by the property - the caller's in-place
            # changes are combined only with forecasts that hand out their catalogs as they are
            seq["mut"] = "none"
    # the announced number of catalogs (constructor keyword n_cat): a list must announce its length (the class asserts it);
    # every other source may announce nothing, the right number, too few or too many
    seq["n_cat"] = rng.choice([None, "exact"]) if mode == "memory" else rng.choice([None, "exact", "small", "large", "large"])
    # round-7 classes. (l) ONE OBJECT IN TWO ROLES: the observation IS one of the forecast's own catalog objects (a consistency
    # experiment), also while the forecast filters what it hands out; (h) the forecast replaced by a copy of itself before the
    # judged test; (j) the synthetic catalogs are instances of a user subclass; (k) numeric state
    seq["obs_member"] = rng.randrange(ncat) if (mode == "memory" and rng.random() < 0.45) else None
    seq["fc_copy"] = rng.choice(COPY_FORMS) if rng.random() < 0.25 else None
    seq["user"] = mode in ("memory", "generator", "loader-store", "loader-nostore") and rng.random() < 0.25
    seq["numeric"] = rng.random() < 0.3
    return dict(kind="catalog-seq", sizes=sizes, extras=extras, seq=seq, cfg=cfg, obs_pick=rng.randrange(6),
                tag="catalog-seq")


def _write_forecast_csv(path, arrays):
    with open(path, "w") as f:
        for j, a in enumerate(arrays):
            if len(a) == 0:
                f.write(f",,,,,{j},\n")
                continue
            for i, row in enumerate(a):
                f.write(f"{float(row['longitude'])!r},{float(row['latitude'])!r},{float(row['magnitude'])!r},"
                        f"1992-06-28T12:{(i // 60) % 60:02d}:{i % 60:02d}.0,10.0,{j},{i}\n")


def _catalog_seq_case(run, drv, pending, case):
    """one forecast object: [first pass] -> catalogs changed in place -> N-test (twice). The result must be that of the
    catalogs as they are when the test runs (for a forecast re-read from file on every pass: those of the file)."""
    import csep
    from csep.core import catalog_evaluations as ce
    from csep.core.catalogs import CSEPCatalog
    from csep.core.forecasts import CatalogForecast
    reg = _region(2, 2, 2)
    seq = case["seq"]
    arrays = [_catalog_array(k, reg, sd, e) for k, e, sd in zip(case["sizes"], case["extras"], seq["seeds"])]
    before = [len(a) for a in arrays]
    idx = list(range(len(arrays)))
    chosen = idx if seq["subset"] == "all" else (idx[::2] if seq["subset"] == "even" else idx[:1])
    cut = float(seq["cut"])
    cfg = case.get("cfg")
    sim = _SimForecast(arrays, seq["mode"], cfg)
    first_sizes = sim.full_pass() if seq["pre"] != "none" else None
    if seq["mut"] == "replace":
        if seq["where"] == "in-loop" or (seq["mode"] != "memory" and sim.passes == 0):
            sim.full_pass()
        for j in chosen:
            sim.cur[j] = _catalog_array(seq["repl"][0], reg, seq["repl"][1] + j)
    elif seq["mut"] != "none":
        fn = (lambda a: a[a['magnitude'] >= cut]) if seq["mut"].startswith("filter") else (lambda a: a[:len(a) // 2])
        if seq["where"] == "in-loop":
            sim.full_pass(fn, chosen)
        else:
            for j in chosen:
                sim.cur[j] = fn(sim.cur[j])
    passes_before_test = sim.passes
    expect = sim.full_pass()
    if sim.full_pass() != expect:
        raise RuntimeError("harness bookkeeping: a second pass differs")
    # n_obs: tied with a current size, with a size before the change, or in between
    cands = sorted(set(expect + before))
    pick = case["obs_pick"]
    nobs = [expect[0], before[0], cands[len(cands) // 2], max(cands), min(cands), max(before[-1] - 1, 0)][pick]
    kw = {}
    if cfg:
        kw = dict(apply_filters=cfg["apply"], filter_spatial=cfg["spatial"])
        if cfg["filters"]:
            kw["filters"] = cfg["filters"][0] if cfg["as_str"] else list(cfg["filters"])
    tmpdir = None
    if seq.get("user"):
        CSEPCatalog = _user_classes()["cat"]
        run.count("user-subclass:synthetic-catalogs")
    ann = _announced(seq.get("n_cat"), len(arrays))
    if seq.get("n_cat") is not None:
        kw = dict(kw, n_cat=ann)
    try:
        with contextlib.redirect_stdout(io.StringIO()):
            if seq["mode"] == "memory":
                fc = CatalogForecast(catalogs=[CSEPCatalog(data=a.copy(), region=reg[0], catalog_id=j)
                                               for j, a in enumerate(arrays)], region=reg[0], name="gen", **kw)
            elif seq["mode"] == "generator":
                fc = CatalogForecast(catalogs=(CSEPCatalog(data=a.copy(), region=reg[0], catalog_id=j)
                                               for j, a in enumerate(arrays)), region=reg[0], name="gen", **kw)
            elif seq["mode"] in ("loader-store", "loader-nostore"):
                def user_loader(format=None, filename=None, region=None, name=None, **_):
                    return (CSEPCatalog(data=a.copy(), region=region, catalog_id=j) for j, a in enumerate(arrays))
                fc = CatalogForecast(filename="unused-by-the-loader", loader=user_loader, region=reg[0], name="gen",
                                     store=(seq["mode"] == "loader-store"), **kw)
            else:
                tmpdir = tempfile.mkdtemp(prefix="c07_", dir=os.environ.get("TMPDIR", "/tmp"))
                path = os.path.join(tmpdir, "forecast.csv")
                _write_forecast_csv(path, arrays)
                kwf = dict(kw)
                if not cfg:
                    kwf.setdefault("apply_filters", False)
                fc = csep.load_catalog_forecast(path, region=reg[0], store=(seq["mode"] == "store"), name="gen", **kwf)
            obs = _catalog(nobs, reg, 77)
            member = seq.get("obs_member")
            if member is not None and isinstance(fc.catalogs, list) and member < len(fc.catalogs):
                obs = fc.catalogs[member]                    # (l) the observation is a catalog OF the forecast
                run.count("two-roles:observation-is-a-catalog-of-the-forecast" + (":filtered-on-the-fly" if (cfg and cfg["apply"]) else ""))
            else:
                member = None
            first = None
            if seq["pre"] == "ntest":
                first = ce.number_test(fc, obs, verbose=False)
            elif seq["pre"] == "counts":
                fc.get_event_counts(verbose=False)
            elif seq["pre"] == "loop":
                for _ in fc:
                    pass

            def mutate(j, c):
                if j not in chosen:
                    return
                if seq["mut"] == "filter-str":
                    c.filter(f"magnitude >= {cut!r}")
                elif seq["mut"] == "filter-list":
                    c.filter([f"magnitude >= {cut!r}"])
                elif seq["mut"] == "truncate":
                    c.catalog = c.catalog[:len(c.catalog) // 2]
            if seq["mut"] == "replace":
                if seq["where"] == "in-loop" or not isinstance(fc.catalogs, list):
                    for _ in fc:       # a complete pass; afterwards the catalogs are a list on the forecast
                        pass
                if not isinstance(fc.catalogs, list):
                    # how a forecast keeps its catalogs after a pass is not the property's business: without a list to
                    # assign into, this kind of change by the caller cannot be expressed - skipped, not judged
                    run.count("seq:replace-skipped-catalogs-not-a-list")
                    return
                for j in chosen:
                    fc.catalogs[j] = CSEPCatalog(data=_catalog_array(seq["repl"][0], reg, seq["repl"][1] + j),
                                                 region=reg[0], catalog_id=j)
            elif seq["mut"] != "none":
                if seq["where"] == "in-loop":
                    for j, c in enumerate(fc):
                        mutate(j, c)
                else:
                    try:
                        held = list(fc.catalogs)
                    except TypeError:
                        run.count("seq:direct-skipped-catalogs-not-iterable")
                        return
                    for j, c in enumerate(held):
                        mutate(j, c)
            if seq.get("fc_copy"):
                state = "fresh" if passes_before_test == 0 else "after-a-pass"
                form = seq["fc_copy"]
                if form == "pickle" and (seq.get("user") or seq["mode"].startswith("loader")):
                    form = "deepcopy"      # local classes / functions of the harness cannot be named by pickle
                fc = _copied(run, fc, form, f"catalog-forecast:{seq['mode']}:{state}")      # (h)
            with _numeric_state(seq.get("numeric")):                                                 # (k)
                res = ce.number_test(fc, obs, verbose=False)
            if member is not None:
                # n_obs is the number of events the observed catalog HOLDS (read from the caller's object after the call): the
                # rows it had when handed over, or what is left after the forecast's own filters worked on it
                nobs = int(obs.event_count)
                if nobs not in (before[member], expect[member], first_sizes[member] if first_sizes else expect[member]):
                    run.oracle_failure(case, f"the observed catalog (catalog #{member} of the forecast) holds {nobs} events after the "
                                             f"test; it had {before[member]}, the forecast hands out {expect[member]}")
            res_live, res = res, _Frozen(res)
            _poke_result_list(run, res_live, POKES[(sum(case["sizes"]) + int(nobs)) % 4])
            try:
                _poke_result_list(run, type("R", (), dict(test_distribution=fc.get_event_counts(verbose=False)))(),
                                  "zero") if case["obs_pick"] % 2 else None
            except Exception:
                pass
            res2 = ce.number_test(fc, obs, verbose=False)
    except Exception as e:
        run.oracle_failure(case, f"exception {type(e).__name__}: {e}")
        return
    finally:
        if tmpdir:
            shutil.rmtree(tmpdir, ignore_errors=True)
    try:
        first_td = None if first is None else [int(v) for v in first.test_distribution]
    except Exception as e:
        run.oracle_failure(case, f"test_distribution of the first N-test unreadable: {type(e).__name__}: {e}")
        return
    if first is not None and first_td != first_sizes:
        run.oracle_failure(case, f"N-test on the fresh forecast: distribution {first_td[:20]} is not "
                                 f"the sizes of the catalogs the forecast hands out {first_sizes[:20]}")
    # Lean model of the forecast (CF): only for histories made of full passes (no change by the caller)
    cf = None
    if seq["mut"] == "none":
        fl = sim.flags()
        cats = ";".join(",".join(map(str, c)) or "-" for c in fl)
        if not any(fl):
            cats = "-"
        cf = (f"c07_cf {1 if (cfg and cfg['apply']) else 0} {passes_before_test} {len(fl)} {cats} {int(nobs)}")
    _catalog_verdict(run, drv, pending, case, expect, nobs, res, res2, cf=cf)
    if cfg:
        run.count("seq-cfg:" + ("apply" if cfg["apply"] else "configured-not-applied") + (":spatial" if cfg["spatial"] else "")
                  + (":first-pass" if passes_before_test == 0 else ":later-pass"))
    run.count(f"seq:{seq['mode']}:{seq['mut']}" + (":changed" if expect != before else ""))
    run.count(f"seq-pre:{seq['pre']}")
    run.count(f"seq-source:{seq['mode']}:n_cat={seq.get('n_cat')}" + (":first-pass" if passes_before_test == 0 else ":later-pass"))



# ----------------------------------------------------------------------------- public functions: scale histories, layouts
LAYOUTS = ["C", "F", "strided", "int64", "neg-stride"]
HIST_POOL = [0.5, 2.0, 1, 1.0, 1 / 365.25, 7 / 365, 3, 0.1, 10.0]


# test dates for scale_to_test_date: before / on the start, just inside, leap day, mid-year, last day (fraction 1), last second
# (fraction > 1), on / after the end
DATE_POOL = [[2019, 12, 31, 0, 0, 0], [2020, 1, 1, 0, 0, 0], [2020, 1, 1, 0, 0, 1], [2020, 2, 29, 0, 0, 0], [2020, 7, 1, 12, 0, 0],
             [2020, 12, 30, 0, 0, 0], [2020, 12, 31, 0, 0, 0], [2020, 12, 31, 23, 59, 59], [2021, 1, 1, 0, 0, 0], [2021, 6, 1, 0, 0, 0],
             [2020, 3, 1, 0, 0, 0], [2020, 1, 2, 0, 0, 0]]
_T0, _T1 = datetime.datetime(2020, 1, 1), datetime.datetime(2021, 1, 1)


def _decyear(dt):
    """the harness's own decimal year (year + elapsed fraction of that year, leap years counted)"""
    import calendar
    ndy = 366.0 if calendar.isleap(dt.year) else 365.0
    nd = sum(calendar.monthrange(dt.year, i)[1] for i in range(1, dt.month))
    return dt.year + (nd + (dt.day - 1) + dt.hour / 24.0 + dt.minute / 1440.0
                      + (dt.second + dt.microsecond * 1e-6) / 86400.0) / ndy


def _date_factor(spec):
    """(datetime, inside the period?, the fraction scale_to_test_date is documented to set: the test day counts fully)"""
    t = datetime.datetime(*spec["date"])
    inside = _T0 < t < _T1
    frac = (_decyear(t + datetime.timedelta(1)) - _decyear(_T0)) / (_decyear(_T1) - _decyear(_T0))
    return t, inside, frac


def _gen_hist(rng):
    """one forecast OBJECT, a history of 0..4 `scale` calls (the factor REPLACES the previous one; 1 recovers the stored
    rates), an N-test after every step on one catalog object. Rates in C / Fortran order, a strided or reversed view, or
    integer rates."""
    dims = [rng.randint(1, 4), rng.randint(1, 3), rng.randint(1, 3)]
    layout = rng.choice(LAYOUTS)
    total = min(max(_gen_mu(rng), 1e-4), 2e4)
    hist = []
    for _ in range(rng.choice([0, 1, 2, 2, 3, 4])):
        if rng.random() < 0.3:
            # scale() documents "int, float, or ndarray": a factor per magnitude bin / per cell / per bin / 0-d / 1-element
            hist.append(dict(arr=rng.choice(["mag", "cell", "full", "0d", "one", "row"]), seed=rng.randrange(2 ** 32),
                             zero=rng.random() < 0.2))
            continue
        if rng.random() < 0.25:
            # the other public way to set the factor: scale_to_test_date (forecast period 2020-01-01 .. 2021-01-01)
            hist.append(dict(date=rng.choice(DATE_POOL) if rng.random() < 0.5 else
                             [2020, rng.randint(1, 12), rng.randint(1, 28), rng.randint(0, 23), rng.randint(0, 59), rng.randint(0, 59)],
                             aware=rng.random() < 0.0))
            continue
        v = rng.choice(HIST_POOL) if rng.random() < 0.6 else 10 ** rng.uniform(-3, 3)
        hist.append(v if isinstance(v, int) else repr(float(v)))
    mu_guess = total
    n = _gen_n(rng, mu_guess) if rng.random() < 0.7 else rng.randint(0, 300)
    n = min(n, 30000)
    extras = _gen_extras(rng, n)
    nbd = rng.random() < 0.4
    return dict(kind="public-hist-nbd" if nbd else "public-hist-pois", dims=dims, layout=layout, wseed=rng.randrange(2 ** 32),
                total=repr(total), hist=hist, n_in=n, extras=extras, cat_seed=rng.randrange(2 ** 32),
                disp=[repr(10 ** rng.uniform(-2, 3)) for _ in range(len(hist) + 1)], chain=rng.random() < 0.5,
                vtype=rng.choice(["float", "float", "int", "np", "0d"]),
                # the observed catalog is filtered IN PLACE between two tests (its event count changes), at this step
                obs_filter=[rng.randint(0, 2), rng.choice([4.5, 4.25, 4.0, 3.7]), rng.choice(["inplace", "copy"])]
                if rng.random() < 0.35 else None,
                # an observed catalog without events, built without a data array
                empty=rng.choice(["noarg", "list", "none"]) if rng.random() < 0.06 else None,
                # the caller modifies in place what the public API returned, after every tested step
                alias=rng.choice(POKES) if rng.random() < 0.5 else None,
                # round-7 classes: copies before use (forecast, catalog), user subclasses, rejected calls, numeric state
                pre7=dict(copy=[rng.choice(COPY_FORMS) if rng.random() < 0.6 else None for _ in range(2)] if rng.random() < 0.3 else None,
                          user=rng.random() < 0.25,
                          reject=[rng.choice(REJECTS7) for _ in range(rng.randint(1, 2))] if rng.random() < 0.4 else None,
                          numeric=rng.random() < 0.3), tag="public-hist")


def _hist_forecast(case, reg):
    from csep.core.forecasts import GriddedForecast
    region, mags, nx, ny, nm = reg
    g = numpy.random.default_rng(case["wseed"])
    shape = (nx * ny, nm)
    total = float(case["total"])
    layout = case["layout"]
    if layout == "int64":
        data = g.integers(0, 6, size=shape).astype(numpy.int64)
        if data.sum() == 0:
            data[0, 0] = 1
    else:
        w = g.uniform(0.01, 1.0, size=shape)
        base = w / w.sum() * total
        if g.random() < 0.3 and base.size > 1:
            # bins without rate and bins with rates far below machine epsilon next to ordinary ones
            mask = g.random(shape) < 0.35
            mask.flat[int(g.integers(base.size))] = False
            base[mask] = g.choice([0.0, 5e-324, 1e-300, 1e-40, 1e-17], size=int(mask.sum()))
        if layout == "C":
            data = numpy.ascontiguousarray(base)
        elif layout == "F":
            data = numpy.asfortranarray(base)
        elif layout == "strided":
            big = numpy.zeros((shape[0] * 2, shape[1] * 3))
            big[::2, ::3] = base
            data = big[::2, ::3]
        else:
            data = numpy.ascontiguousarray(base[::-1, ::-1])[::-1, ::-1]
    FC = _user_classes()["fc"] if (case.get("pre7") or {}).get("user") else GriddedForecast      # (j)
    f = FC(start_time=datetime.datetime(2020, 1, 1), end_time=datetime.datetime(2021, 1, 1),
           data=data, region=region, magnitudes=mags, name="gen")
    return f, data


def _factor(spec, shape):
    """the argument of scale(): an int / float, or an ndarray that broadcasts against the (cells, magnitudes) rates"""
    if isinstance(spec, dict) and "date" in spec:
        return spec
    if isinstance(spec, dict):
        g = numpy.random.default_rng(spec["seed"])
        shp = {"mag": (shape[1],), "cell": (shape[0], 1), "full": shape, "0d": (), "one": (1,), "row": (1, shape[1])}[spec["arr"]]
        v = numpy.asarray(g.choice([0.25, 0.5, 1.0, 2.0, 0.1, 3.0, 1 / 365.25], size=shp) if shp else g.choice([0.5, 2.0, 0.1]))
        if spec.get("zero") and v.size > 1:
            v = v.copy(); v.flat[0] = 0.0
        return v
    return spec if isinstance(spec, int) else float(spec)


def _as_var(var, vtype, mu=None):
    """the variance argument as a Python float / int / numpy scalar / 0-d array (an int only if it stays above the mean)"""
    if vtype == "int":
        return int(var) if (int(var) >= 2 and (mu is None or int(var) > 1.001 * mu)) else float(var)
    if vtype == "np":
        return numpy.float64(var)
    if vtype == "0d":
        return numpy.array(var)
    return float(var)


# ----------------------------------------------------------------------------- round-7 classes
COPY_FORMS = ["copy", "deepcopy", "pickle"]
REJECTS7 = ["ntest-none", "nbd-badvar", "rates-type", "rates-outside-scaled", "getrates-len", "cat-filter-bad", "cat-filter-list-bad"]
_USER7 = {}
_UNSUPPORTED7 = set()


def _user_classes():
    """(j) user subclasses overriding documented accessors consistently, with __len__ / __bool__ (the repo's own tests use such
    a catalog); `filter` hands back a NEW catalog when asked to (in_place=False) as the base class documents"""
    if not _USER7:
        from csep.core.catalogs import CSEPCatalog
        from csep.core.forecasts import GriddedForecast

        class UserCatalog(CSEPCatalog):
            def get_number_of_events(self):
                return int(super().get_number_of_events())

            def get_magnitudes(self):
                return numpy.array(super().get_magnitudes(), dtype=float)

            def __len__(self):
                return self.get_number_of_events()

            def __bool__(self):
                return self.get_number_of_events() > 0

        class UserForecast(GriddedForecast):
            def spatial_counts(self, cartesian=False):
                return numpy.array(super().spatial_counts(cartesian=cartesian), copy=True)

            def magnitude_counts(self):
                return numpy.array(super().magnitude_counts(), copy=True)

            def __len__(self):
                return int(numpy.size(self.data))
        _USER7.update(cat=UserCatalog, fc=UserForecast)
    return _USER7


def _copied(run, obj, form, what):
    """(h) the object replaced by a copy of itself BEFORE use; a form the tree under test cannot make is left out (counted)"""
    import copy, pickle
    if not form or (form, what) in _UNSUPPORTED7:
        return obj
    if form == "pickle" and type(obj).__name__.startswith("User"):
        form = "deepcopy"          # the harness's user subclasses are local classes: pickle cannot name them
    try:
        new = {"copy": copy.copy, "deepcopy": copy.deepcopy, "pickle": lambda o: pickle.loads(pickle.dumps(o))}[form](obj)
        run.count(f"copy-before-use:{what}:{form}")
        return new
    except Exception as e:
        _UNSUPPORTED7.add((form, what))
        run.assumptions.append(f"{form} of a {what} is not supported by the tree under test ({type(e).__name__}): form left out")
        run.count(f"copy-before-use:{what}:{form}:unsupported")
        return obj


def _rejected_call(run, kind, f, cat, reg):
    """(i) a call on the SAME forecast / catalog that the library rejects; the caller catches the exception and carries on"""
    from csep.core import poisson_evaluations as pe, binomial_evaluations as be
    from csep.core.catalogs import CSEPCatalog
    try:
        with numpy.errstate(all="ignore"), contextlib.redirect_stdout(io.StringIO()):
            if kind == "ntest-none":
                pe.number_test(f, None)
            elif kind == "nbd-badvar":
                be.negative_binomial_number_test(f, cat, "23541")
            elif kind == "rates-type":
                f.target_event_rates("not a catalog", scale=True)
            elif kind == "rates-outside-scaled":
                arr = numpy.zeros(2, dtype=_DTYPE)
                arr['longitude'] = [99.0, 0.05]; arr['latitude'] = 0.05; arr['magnitude'] = 4.2; arr['depth'] = 10.0
                f.target_event_rates(CSEPCatalog(data=arr, region=reg[0]), scale=True)
            elif kind == "getrates-len":
                f.get_rates([0.05], [0.05, 0.05], [4.2])
            elif kind == "cat-filter-bad":
                cat.filter("magnitude >> 4.0")
            else:
                cat.filter(["magnitude >= 0.0", "bogus_column >= 1"])
        run.count(f"rejected-call:{kind}:accepted")
    except Exception:
        run.count(f"rejected-call:{kind}:raised")


def _numeric_state(on):
    """(k) numpy.errstate(divide='raise', invalid='raise') + a 3-digit decimal context, or nothing"""
    import decimal
    st = contextlib.ExitStack()
    if on:
        st.enter_context(numpy.errstate(divide="raise", invalid="raise"))
        ctx = st.enter_context(decimal.localcontext())
        ctx.prec = 3
    return st


POKES = ["zero", "scale", "normalise", "fill"]


def _poke(obj, mode):
    """what a caller may do with an array a public call RETURNED to it: change it in place (returns True if it did)"""
    if not isinstance(obj, numpy.ndarray) or obj.size == 0:
        return False
    try:
        if mode == "zero":
            obj[...] = 0
        elif mode == "scale":
            obj *= 3
        elif mode == "fill":
            obj[...] = 7
        else:
            obj /= obj.sum()
        return True
    except (TypeError, ValueError):        # integer array and true division, read-only view: nothing was changed
        return False


def _poke_returned(run, f, res, mode):
    """every array the public API of a gridded forecast / a result hands out, modified in place by the caller"""
    k = 0
    for name, get in (("data", lambda: f.data), ("spatial_counts", lambda: f.spatial_counts()),
                      ("magnitude_counts", lambda: f.magnitude_counts()), ("sum", lambda: f.sum()),
                      ("test_distribution", lambda: getattr(res, "test_distribution", None)),
                      ("quantile", lambda: getattr(res, "quantile", None))):
        try:
            obj = get()
        except Exception:
            continue
        for o in (obj if isinstance(obj, (tuple, list)) else [obj]):
            if _poke(o, mode):
                k += 1
                run.count("alias:returned-array-modified:" + name)
    return k


class _Frozen:
    """the observables of a result, copied before the caller modifies what the result holds"""

    def __init__(self, res):
        self.quantile = tuple(res.quantile)
        self.observed_statistic = res.observed_statistic
        self.test_distribution = [int(v) for v in res.test_distribution]


def _poke_result_list(run, res, mode):
    td = getattr(res, "test_distribution", None)
    try:
        if isinstance(td, list) and td:
            td[:] = [0] * len(td) if mode in ("zero", "normalise") else [3 * int(v) + 1 for v in td]
            run.count("alias:returned-list-modified:test_distribution")
        elif _poke(td, mode):
            run.count("alias:returned-array-modified:test_distribution")
    except Exception:
        pass


def _hist_case(run, drv, pending, case):
    from csep.core import poisson_evaluations as pe, binomial_evaluations as be
    reg = _region(*case["dims"])
    f, data = _hist_forecast(case, reg)
    flat = [float(v) for v in data.ravel().tolist()]          # the stored rates, row-major
    base_total = math.fsum(flat)
    extras = case.get("extras")
    n = case["n_in"] + (sum(extras) if extras else 0)
    cat = _catalog(case["n_in"], reg, case["cat_seed"], extras)
    cat_mags = numpy.array(cat.get_magnitudes(), dtype=float)      # bookkeeping of the harness, taken before any test
    if (case.get("pre7") or {}).get("user") and not case.get("empty"):
        cat = _user_classes()["cat"](data=numpy.array(cat.catalog, copy=True), region=reg[0])        # (j)
        run.count("user-subclass:catalog+forecast")
    try:
        cat_bytes = cat.catalog.tobytes()
    except Exception:
        cat_bytes = None
    if case.get("empty"):
        from csep.core.catalogs import CSEPCatalog
        cat = {"noarg": lambda: CSEPCatalog(), "list": lambda: CSEPCatalog(data=[]),
               "none": lambda: CSEPCatalog(data=None, region=reg[0])}[case["empty"]]()
        n, cat_mags = 0, numpy.zeros(0)
        run.count("hist:empty-catalog-without-array")
    nbd = case["kind"].endswith("nbd")
    hist = [_factor(v, data.shape) for v in case["hist"]]
    snapshot = data.copy()
    # what happens between two tests: one scale call, or two chained ones (f.scale(a).scale(b))
    if case["chain"] and len(hist) >= 2:
        actions = [hist[:2]] + [[v] for v in hist[2:]]
    else:
        actions = [[v] for v in hist]
    applied, enc, dated = [], [], False
    for step in range(len(actions) + 1):
        if step > 0:
            r = f
            for v in actions[step - 1]:
                if isinstance(v, dict):
                    t, inside, frac = _date_factor(v)
                    try:
                        r = r.scale_to_test_date(t)
                    except Exception as e:
                        run.oracle_failure(dict(case, step=step), f"scale_to_test_date({t}): {type(e).__name__}: {e}")
                        return
                    dated = True
                    enc.append(("i" if inside else "o") + bits(frac))
                    if inside:
                        applied.append(float(frac))
                    run.count("hist:scale_to_test_date:" + ("inside" if inside else "outside-unchanged"))
                    continue
                r = r.scale(v)
                applied.append(v)
                enc.append("s" + bits(v) if not isinstance(v, numpy.ndarray) else "a")
        of = case.get("obs_filter")
        if of and step == min(of[0], len(actions)) and step > 0 and n > 0:
            if len(of) > 2 and of[2] == "copy":
                # a NEW catalog object made by filter(in_place=False): its own row count, the original keeps its rows
                n_before = n
                cat_new = cat.filter(f"magnitude >= {float(of[1])!r}", in_place=False)
                if cat.event_count != n_before:
                    run.oracle_failure(dict(case, step=step), f"filter(in_place=False) changed the original catalog: "
                                                               f"{cat.event_count!r} rows, it held {n_before}")
                cat = cat_new
                run.count("hist:observed-catalog-is-a-filtered-copy")
            else:
                cat.filter(f"magnitude >= {float(of[1])!r}")
            n = int(numpy.count_nonzero(cat_mags >= float(of[1])))
            cat_mags = cat_mags[cat_mags >= float(of[1])]
            run.count("hist:observed-catalog-filtered-between-tests")
        last = applied[-1] if applied else 1.0
        is_arr = isinstance(last, numpy.ndarray)
        if is_arr:
            fflat = [float(v) for v in numpy.broadcast_to(last, data.shape).ravel().tolist()]
            mu_ref = math.fsum(b * c for b, c in zip(flat, fflat))
            run.count("hist:array-valued-scale:" + ("x".join(map(str, last.shape)) or "0d"))
        else:
            mu_ref = base_total * float(last)
        if not (1e-6 <= mu_ref <= 1e5):
            continue
        c = dict(case, step=step, mu=repr(mu_ref), n=n)
        pre7 = case.get("pre7") or {}
        for kind in pre7.get("reject") or []:
            if not (kind.startswith("cat-filter") and case.get("empty")):
                _rejected_call(run, kind, f, cat, reg)          # (i) rejected, caught; the legal calls follow
        fx, cx = f, cat
        if pre7.get("copy"):                                    # (h) the test sees copies; the originals go on in the history
            fx = _copied(run, f, pre7["copy"][0], "gridded-forecast")
            cx = _copied(run, cat, pre7["copy"][1], "catalog")
        try:
            mu = float(fx.event_count)
            with _numeric_state(pre7.get("numeric")):           # (k)
                if nbd:
                    var = mu_ref * (1.0 + float(case["disp"][step]))
                    c["var"] = repr(float(_as_var(var, case["vtype"], mu_ref)))
                    var = float(c["var"])
                    res = be.negative_binomial_number_test(fx, cx, _as_var(var, case["vtype"], mu_ref))
                else:
                    var = None
                    res = pe.number_test(fx, cx)
            d1, d2 = float(res.quantile[0]), float(res.quantile[1])
            if pre7.get("numeric"):
                run.count("numeric-state:errstate-raise+decimal-prec-3")
        except Exception as e:
            run.oracle_failure(c, f"exception {type(e).__name__}: {e}")
            return
        if not _close(mu, mu_ref, 1e-12, 2e-12 * base_total if dated else 0.0):
            run.oracle_failure(c, f"after the scale history {case['hist'][:len(applied)]!r} the forecast total is {mu!r}; the "
                                  f"stored rates sum to {base_total!r}, the rates x last factor to {mu_ref!r}")
        if res.observed_statistic != n or cat.event_count != n:
            run.oracle_failure(c, f"observed statistic {res.observed_statistic!r} is not the number of events {n}")
        if nbd:
            pmf = _nbd_oracle(run, c, mu_ref, var, n, d1, d2)
            if is_arr:
                i = drv.ask(f"c07_puban {','.join(bits(v) for v in flat)} {','.join(bits(v) for v in fflat)} {n} {bits(var)}")
            elif dated and "a" not in enc:
                i = drv.ask(f"c07_pubhn {','.join(bits(v) for v in flat)} {','.join(enc) or '-'} {n} {bits(var)}")
            else:
                i = drv.ask(f"c07_pubn {','.join(bits(v) for v in flat)} {','.join(bits(v) for v in applied if not isinstance(v, numpy.ndarray)) or '-'} {n} {bits(var)}")
            pending.append(("nbd", c, i, None, d1, d2, n))
        else:
            _, pmf = _pois_oracle(run, c, mu_ref, n, d1, d2)
            if is_arr:
                i = drv.ask(f"c07_puba {','.join(bits(v) for v in flat)} {','.join(bits(v) for v in fflat)} {n}")
            elif dated and "a" not in enc:
                i = drv.ask(f"c07_pubh {','.join(bits(v) for v in flat)} {','.join(enc) or '-'} {n}")
            else:
                i = drv.ask(f"c07_pub {','.join(bits(v) for v in flat)} "
                            f"{','.join(bits(v) for v in applied if not isinstance(v, numpy.ndarray)) or '-'} {n}")
            pending.append(("pois", c, i, None, d1, d2, n))
        run.case(c, (c["kind"], mu_ref, var, n, step, case["layout"]) if (n >= 1 and pmf > 1e-12) else None)
        run.count(f"hist:{case['layout']}:step{min(step, 3)}" + (":nbd" if nbd else ""))
        if case.get("alias"):
            # ALIASING OF RETURNED OBJECTS: the caller works in place on the arrays the public API handed out (data,
            # spatial_counts(), magnitude_counts(), what the result holds); the forecast must stay the one that was built
            try:
                _poke_returned(run, f, res, case["alias"])
                res_b = be.negative_binomial_number_test(f, cat, _as_var(var, case["vtype"], mu_ref)) if nbd else pe.number_test(f, cat)
                e1, e2, mu_b = float(res_b.quantile[0]), float(res_b.quantile[1]), float(f.event_count)
            except Exception as e:
                run.oracle_failure(c, f"after in-place changes to returned arrays: exception {type(e).__name__}: {e}")
                return
            if not ((e1, e2) == (d1, d2) and _close(mu_b, mu_ref, 1e-12, 2e-12 * base_total if dated else 0.0)):
                run.oracle_failure(c, f"the caller modified arrays RETURNED by the forecast / result in place ({case['alias']}); the "
                                      f"N-test then gives {e1!r}, {e2!r} (total {mu_b!r}) instead of {d1!r}, {d2!r} (total {mu_ref!r})")
                return
    if not numpy.array_equal(snapshot, data):
        run.oracle_failure(case, "the number test / scale (or an in-place change of an array the forecast RETURNED) changed the "
                                 "rate array handed to the constructor")
    # ALIASING OF CALLER-OWNED INPUT: the catalog's rows are bit-for-bit what they were (unless the case filtered it)
    if cat_bytes is not None and not (case.get("obs_filter") or case.get("empty")):
        try:
            now = cat.catalog.tobytes()
        except Exception:
            now = None
        if now != cat_bytes:
            run.oracle_failure(case, "the rows of the observed catalog were changed by the number tests")



# ----------------------------------------------------------------------------- sizes
def _big_grid_case(run, drv, pending):
    """a forecast with more than 2^16 space-magnitude bins (66000 cells x 2) and a catalog of more than 2^16 events"""
    from csep.core import poisson_evaluations as pe, binomial_evaluations as be
    from csep.core.forecasts import GriddedForecast
    reg = _region(330, 200, 2)
    region, mags, nx, ny, nm = reg
    data = numpy.full((nx * ny, nm), 0.5)
    data[::3, 0] = 0.75
    f = GriddedForecast(start_time=datetime.datetime(2020, 1, 1), end_time=datetime.datetime(2021, 1, 1), data=data,
                        region=region, magnitudes=mags, name="big")
    mu_ref = math.fsum(data.ravel().tolist())
    n = 71003
    cat = _catalog(n, reg, 12345)
    for nbd in (False, True):
        case = dict(kind="big-grid", nbd=nbd, mu=repr(mu_ref), n=n, tag="sizes")
        try:
            var = mu_ref * 3.0
            res = be.negative_binomial_number_test(f, cat, var) if nbd else pe.number_test(f, cat)
            d1, d2 = float(res.quantile[0]), float(res.quantile[1])
            if int(res.observed_statistic) != n:
                run.oracle_failure(case, f"observed statistic {res.observed_statistic!r} is not the number of events {n}")
            if not _close(float(f.event_count), mu_ref, 1e-12):
                run.oracle_failure(case, f"forecast total {float(f.event_count)!r}, the rates sum to {mu_ref!r}")
        except Exception as e:
            run.oracle_failure(case, f"exception {type(e).__name__}: {e}")
            continue
        if nbd:
            _nbd_oracle(run, case, mu_ref, var, n, d1, d2)
        else:
            _pois_oracle(run, case, mu_ref, n, d1, d2)
        run.case(case, ("big-grid", nbd))
        run.count("sizes:more-than-65536-bins-and-events")


# ----------------------------------------------------------------------------- sessions on shared objects
SESSION_OPS = ["scale", "scale", "ntest", "ntest", "copy_scale", "poke", "poke", "paired_t", "w_test", "binary_t", "target_rates", "spatial_counts",
               "magnitude_counts", "cl_test", "cat_filter", "event_count"]


def _gen_session(rng):
    """two or three gridded forecasts built on ONE rates array and ONE region, one observed catalog; a random sequence of
    public calls on them (scalings with scalars and arrays, N-tests, OTHER evaluations that read the same objects with
    scale=True, marginal reads, an in-place filter of the catalog); after every step every forecast is N-tested"""
    dims = [rng.randint(1, 3), rng.randint(1, 3), rng.randint(1, 3)]
    steps = []
    for _ in range(rng.randint(4, 8)):
        op = rng.choice(SESSION_OPS)
        st = dict(op=op, f=rng.randrange(3), g=rng.randrange(3))
        if op == "scale":
            st["v"] = (dict(arr=rng.choice(["mag", "cell", "full", "0d"]), seed=rng.randrange(2 ** 32)) if rng.random() < 0.35
                       else rng.choice([0.5, 2.0, 1, 3, repr(1 / 365.25), repr(10 ** rng.uniform(-2, 2))]))
        if op == "copy_scale":
            st["v"] = rng.choice([0.5, 2.0, 3, repr(10 ** rng.uniform(-1, 1))])
        if op == "poke":
            st["mode"] = rng.choice(POKES)
        if op == "cat_filter":
            st["cut"] = rng.choice([4.5, 4.25, 5.0])
        steps.append(st)
    return dict(kind="session", dims=dims, wseed=rng.randrange(2 ** 32), total=repr(10 ** rng.uniform(-2, 3)),
                n_in=rng.choice([0, 1, 2, 5, rng.randint(2, 60), rng.randint(2, 400)]), cat_seed=rng.randrange(2 ** 32),
                nf=rng.choice([2, 3]), steps=steps, disp=repr(10 ** rng.uniform(-1, 2)), tag="session")


def _session_case(run, drv, pending, case):
    import warnings
    from csep.core import poisson_evaluations as pe, binomial_evaluations as be
    from csep.core.forecasts import GriddedForecast
    reg = _region(*case["dims"])
    region, mags, nx, ny, nm = reg
    g = numpy.random.default_rng(case["wseed"])
    w = g.uniform(0.01, 1.0, size=(nx * ny, nm))
    data = w / w.sum() * float(case["total"])
    snapshot = data.copy()
    flat = [float(v) for v in data.ravel().tolist()]
    fs = [GriddedForecast(start_time=datetime.datetime(2020, 1, 1), end_time=datetime.datetime(2020, 1, 1) +
                          datetime.timedelta(days=[365, 30, 1826][k]), data=data, region=region, magnitudes=mags, name=f"F{k}")
          for k in range(case["nf"])]
    factors = [1.0] * case["nf"]                 # bookkeeping: the factor each forecast object carries
    cat = _catalog(case["n_in"], reg, case["cat_seed"])
    cat_mags = numpy.array(cat.get_magnitudes(), dtype=float)
    n = case["n_in"]

    def verify(step):
        for k, f in enumerate(fs):
            last = factors[k]
            fflat = [float(v) for v in numpy.broadcast_to(numpy.asarray(last, dtype=float), data.shape).ravel().tolist()]
            mu_ref = math.fsum(b * c for b, c in zip(flat, fflat))
            if not (1e-6 <= mu_ref <= 1e5):
                continue
            nbd = (step + k) % 3 == 0
            c = dict(case, step=step, f=k, mu=repr(mu_ref), n=n)
            try:
                if nbd:
                    var = mu_ref * (1.0 + float(case["disp"]))
                    c["var"] = repr(var)
                    res = be.negative_binomial_number_test(f, cat, var)
                else:
                    res = pe.number_test(f, cat)
                d1, d2 = float(res.quantile[0]), float(res.quantile[1])
                obs_stat = int(res.observed_statistic)
            except Exception as e:
                run.oracle_failure(c, f"after step {step} ({case['steps'][step - 1]['op'] if step else 'start'}): "
                                      f"exception {type(e).__name__}: {e}")
                return False
            if obs_stat != n:
                run.oracle_failure(c, f"after step {step}: observed statistic {obs_stat} is not the number of events {n}")
            if nbd:
                pmf = _nbd_oracle(run, c, mu_ref, var, n, d1, d2)
                i = drv.ask(f"c07_puban {','.join(bits(v) for v in flat)} {','.join(bits(v) for v in fflat)} {n} {bits(var)}")
                pending.append(("nbd", c, i, None, d1, d2, n))
            else:
                _, pmf = _pois_oracle(run, c, mu_ref, n, d1, d2)
                i = drv.ask(f"c07_puba {','.join(bits(v) for v in flat)} {','.join(bits(v) for v in fflat)} {n}")
                pending.append(("pois", c, i, None, d1, d2, n))
            run.case(c, ("session", case["wseed"], step, k) if (n >= 1 and pmf > 1e-12) else None)
        if not numpy.array_equal(snapshot, data):
            run.oracle_failure(dict(case, step=step), f"after step {step} the rates array handed to the forecasts has changed")
            return False
        return True

    if not verify(0):
        return
    for i, st in enumerate(case["steps"], start=1):
        k, k2 = st["f"] % case["nf"], st["g"] % case["nf"]
        op = st["op"]
        if op == "copy_scale" and not isinstance(factors[k], numpy.ndarray):
            # a deep copy of a forecast object, rescaled and N-tested: the copy has base x ITS factor; the original is
            # verified below like after every step
            import copy
            v = float(st["v"]) if isinstance(st["v"], str) else st["v"]
            mu_c = math.fsum(flat) * float(v)
            if 1e-6 <= mu_c <= 1e5:
                c = dict(case, step=i, f=k, mu=repr(mu_c), n=n, copy=True)
                try:
                    g2 = copy.deepcopy(fs[k]).scale(v)
                    res = pe.number_test(g2, cat)
                    d1, d2 = float(res.quantile[0]), float(res.quantile[1])
                    _pois_oracle(run, c, mu_c, n, d1, d2)
                    if not _close(float(g2.event_count), mu_c, 1e-12):
                        run.oracle_failure(c, f"deep copy rescaled by {v!r}: total {float(g2.event_count)!r}, rates x factor {mu_c!r}")
                except Exception as e:
                    run.oracle_failure(c, f"deep copy + scale + N-test: {type(e).__name__}: {e}")
            run.count("session-op:copy_scale")
            if not verify(i):
                return
            continue
        try:
            with warnings.catch_warnings(), numpy.errstate(all="ignore"), contextlib.redirect_stdout(io.StringIO()):
                warnings.simplefilter("ignore")
                if op == "scale":
                    v = _factor(st["v"], data.shape)
                    fs[k].scale(v)
                    factors[k] = v
                elif op == "poke":
                    _poke_returned(run, fs[k], pe.number_test(fs[k], cat), st["mode"])
                    tr = fs[k].target_event_rates(cat, scale=bool(i % 2))
                    _poke(tr[0], st["mode"])
                elif op == "ntest":
                    pe.number_test(fs[k], cat)
                elif op == "paired_t" and n >= 2:
                    pe.paired_t_test(fs[k], fs[k2], cat, scale=True)
                elif op == "w_test" and n >= 2:
                    pe.w_test(fs[k], fs[k2], cat, scale=True)
                elif op == "binary_t" and n >= 2:
                    be.binary_paired_t_test(fs[k], fs[k2], cat, scale=True)
                elif op == "target_rates":
                    fs[k].target_event_rates(cat, scale=True)
                elif op == "spatial_counts":
                    fs[k].spatial_counts()
                elif op == "magnitude_counts":
                    fs[k].magnitude_counts()
                elif op == "cl_test":
                    pe.conditional_likelihood_test(fs[k], cat, num_simulations=2, seed=1)
                elif op == "event_count":
                    _ = fs[k].event_count, cat.event_count
                elif op == "cat_filter" and n > 0:
                    cat.filter(f"magnitude >= {float(st['cut'])!r}")
                    n = int(numpy.count_nonzero(cat_mags >= float(st["cut"])))
                    cat_mags = cat_mags[cat_mags >= float(st["cut"])]
        except Exception:
            pass       # the intermediate calls are not this property's observables; what they leave behind is
        run.count("session-op:" + op)
        if not verify(i):
            return


# ----------------------------------------------------------------------------- float64 arguments of the floor
def _shift_cases(run, drv, pending, rng, count):
    """Soft64 model of (floor(n - 1e-6), floor(n + 1e-6)) against numpy's float64, also beyond the proved range"""
    ns = [0, 1, 2, 3, 99999, 100000, 100001, 2 ** 33 - 1, 2 ** 33, 2 ** 34, 2 ** 35, 2 ** 35 - 1, 2 ** 40, 2 ** 52]
    for _ in range(count):
        k = rng.random()
        ns.append(rng.randint(0, N_MAX) if k < 0.5 else (rng.randint(0, 2 ** 33 - 1) if k < 0.8 else rng.randint(2 ** 33, 2 ** 53)))
    for n in ns:
        lo = math.floor(float(numpy.float64(n) - EPS))
        hi = math.floor(float(numpy.float64(n) + EPS))
        case = dict(kind="shift", n=n, tag="shift")
        if n < 2 ** 33 and (lo, hi) != (n - 1, n):
            run.oracle_failure(case, f"float64: floor(n - 1e-6), floor(n + 1e-6) = {lo}, {hi} for n = {n}")
        run.case(case, ("shift", n))
        run.count("shift:" + ("proved-range" if n < 2 ** 33 else "beyond"))
        pending.append(("shift", case, drv.ask(f"c07_shift {n}"), None, lo, hi, n))


def _shifte_cases(run, drv, pending, rng, count):
    """(floor(n - eps), floor(n + eps)) in float64 for the epsilon values the array-level helpers are called with
    (Soft64 `shiftFE` against numpy; theorem float_floor_shift_eps: 2^-k <= eps <= 1 - 2^-k and (n+1) 2^k <= 2^53)"""
    pool = EPS_POOL + [2.0 ** -20, 1 - 2.0 ** -20, 2.0 ** -30, 1e-12, 0.75, 1 - 2.0 ** -53]
    ns = [0, 1, 2, 99999, 100000, 2 ** 25 - 1, 2 ** 32 - 1, 2 ** 33, 2 ** 42, 2 ** 52 - 1]
    todo = [(n, e) for n in ns[:5] for e in pool]
    for _ in range(count):
        k = rng.random()
        todo.append((rng.randint(0, N_MAX) if k < 0.6 else rng.randint(0, 2 ** rng.randint(17, 53)), rng.choice(pool)))
    for n, e in todo:
        lo = math.floor(float(numpy.float64(n) - numpy.float64(e)))
        hi = math.floor(float(numpy.float64(n) + numpy.float64(e)))
        case = dict(kind="shifte", n=n, eps=repr(e), tag="shifte")
        proved = any(Fraction(2) ** -k <= Fraction(e) <= 1 - Fraction(2) ** -k and (n + 1) * 2 ** k <= 2 ** 53
                     for k in range(1, 53))
        if proved and (lo, hi) != (n - 1, n):
            run.oracle_failure(case, f"float64: floor(n - eps), floor(n + eps) = {lo}, {hi} for n = {n}, eps = {e!r}")
        run.case(case, ("shifte", n, e))
        run.count("shifte:" + ("proved-range" if proved else "beyond"))
        fe = Fraction(e)
        pending.append(("shifte", case, drv.ask(f"c07_shifte {n} {fe.numerator}/{fe.denominator}"), None, lo, hi, n))


def _gen_wide_pair(rng):
    """(mean, var) of any admissible dispersion: near-Poisson down to one ulp above the mean, wide up to 1e17 x mean"""
    mu = _gen_mu(rng)
    k = rng.random()
    if k < 0.35:
        var = mu * 10 ** rng.uniform(0.001, 17)
    elif k < 0.5:
        var = mu * 2.0 ** rng.randint(1, 58)
    elif k < 0.65:
        var = float(numpy.nextafter(mu, numpy.inf)) if rng.random() < 0.3 else mu * (1 + 10 ** rng.uniform(-15, -3))
    elif k < 0.8:
        var = rng.choice([23541.0, 1e10, 1e17, 1.0, 2.0 ** 53, 1e300])
    else:
        var = _gen_var(rng, mu)
    return mu, (var if var > mu else mu * 2.0)


def _d47_public(run):
    """the first witness through the PUBLIC function: forecast total 1, one observed event, variance 1e17"""
    from csep.core import binomial_evaluations as be
    from csep.core.forecasts import GriddedForecast
    reg = _region(1, 1, 1)
    case = dict(kind="public-d47", mu="1.0", var="1e+17", n=1, tag="corpus-D47")
    try:
        f = GriddedForecast(start_time=datetime.datetime(2020, 1, 1), end_time=datetime.datetime(2021, 1, 1),
                            data=numpy.array([[1.0]]), region=reg[0], magnitudes=reg[1], name="one-bin")
        with numpy.errstate(all="ignore"):
            res = be.negative_binomial_number_test(f, _catalog(1, reg, 4242), 1e17)
        d1, d2 = float(res.quantile[0]), float(res.quantile[1])
    except Exception as e:
        run.oracle_failure(case, f"exception {type(e).__name__}: {e}")
        return
    _nbd_oracle(run, case, 1.0, 1e17, 1, d1, d2)
    run.case(case, ("public-d47",))


def _gen_wide_var(rng, mu):
    """a variance with dispersion var/mean in (1e4, 1e17]"""
    k = rng.random()
    if k < 0.6:
        return mu * 10 ** rng.uniform(4, 17)
    if k < 0.8:
        return mu * 2.0 ** rng.randint(14, 56)
    c = [v for v in (23541.0, 1e10, 1e17, 2.0 ** 53, 1e12) if 1e4 * mu < v <= 1e17 * mu]
    return rng.choice(c) if c else mu * 1e17


def _ups_cases(run, drv, pending, rng, count):
    """`upsilon = mean / var` (binomial_evaluations.py:24 since fix D47) and the formula before the fix,
    `1.0 - ((var - mean) / var)`: Soft64 `upsilonF` / `upsilonOldF` bit-for-bit against IEEE arithmetic over every dispersion;
    theorems upsilon_float_range / _rel_err / _pos: the repaired value is in (0, 1] and within 2^-53 of the quotient"""
    todo = [(1.0, 1e17), (1.0, 1e10), (3.0, 3.0 * 2 ** 40), (1e-6, 23541.0), (1e5, 1e5 + 1e-6), (5.0, 5.000000000000005)]
    todo += [_gen_wide_pair(rng) for _ in range(count)]
    worst = run.extra.get("nbd_old_upsilon_worst_rel_error_vs_mean_over_var", [0.0, None])
    for mu, var in todo:
        old = 1.0 - ((var - mu) / var)
        ups = mu / var
        case = dict(kind="ups", mu=repr(mu), var=repr(var), tag="ups")
        exact = Fraction(mu) / Fraction(var)
        if not (0.0 < ups <= 1.0 and abs(Fraction(ups) - exact) <= exact * Fraction(1, 2 ** 53)):
            run.oracle_failure(case, f"float64: mean / var = {ups!r} is not in (0, 1] within 2^-53 of the quotient")
        if not 0.0 <= old <= 1.0:
            run.oracle_failure(case, f"float64: 1.0 - ((var - mean) / var) = {old!r} is outside [0, 1]")
        rel = abs(old - ups) / ups
        if rel > worst[0]:
            worst = [rel, [mu, var]]
        run.case(case, ("ups", mu, var))
        run.count("ups:old-formula:" + ("p=0" if old == 0.0 else ("p=1" if old == 1.0 else "interior")))
        fm, fv = Fraction(mu), Fraction(var)
        pending.append(("ups", case, drv.ask(f"c07_ups {fm.numerator}/{fm.denominator} {fv.numerator}/{fv.denominator}"),
                        None, ups, old, 0))
    run.extra["nbd_old_upsilon_worst_rel_error_vs_mean_over_var"] = worst


def _mono_pair_nbd(run, drv, pending, rng):
    """theorem nbd_delta_mono_mean_dispersion: mean1 <= mean2, dispersion var/mean not decreasing, shape mean^2/(var-mean)
    not decreasing => delta1 up, delta2 down (fixed dispersion is the boundary case disp2 = disp1)"""
    n = rng.choice([0, 1, 2, rng.randint(3, 50), rng.randint(50, 2000), rng.randint(2000, N_MAX)])
    centre = max(n, 0.5)
    m1 = min(max(centre * 10 ** rng.uniform(-1, 0.5), 1e-6), 5e4)
    m2 = min(m1 * (1 + 10 ** rng.uniform(-3, 0.7)), 1e5)
    d1 = 1 + 10 ** rng.uniform(-2, 3)
    hi = 1 + (m2 / m1) * (d1 - 1)
    t = rng.choice([0.0, 1.0, rng.random()])
    d2 = min(d1 + t * (hi - d1), 1e12)
    if not (d2 >= d1 and m2 / (d2 - 1) >= m1 / (d1 - 1) * (1 - 1e-12)):
        d2 = d1
    a = _nbd_case(run, drv, pending, rng, m1, m1 * d1, n, "mono-pair")
    b = _nbd_case(run, drv, pending, rng, m2, m2 * d2, n, "mono-pair")
    if a is None or b is None:
        return
    slack = 1e-9
    if a[0] > b[0] + slack + slack * abs(b[0]) or b[1] > a[1] + slack + slack * abs(a[1]):
        case = dict(kind="mono-pair-nbd", n=n, mu1=repr(m1), mu2=repr(m2), disp1=repr(d1), disp2=repr(d2), tag="mono-pair")
        run.oracle_failure(case, f"NBD not monotone along non-decreasing dispersion and shape: delta({m1!r}, x{d1!r})={a!r} "
                                 f"delta({m2!r}, x{d2!r})={b!r}")
    run.count("mono-pair:nbd" + (":fixed-dispersion" if d2 == d1 else ""))


# ----------------------------------------------------------------------------- consecutive counts
def _count_chain(run, drv, pending, rng, law):
    """fixed law, counts n, n+1, ..: delta1(n+1) = 1 - delta2(n); delta1 non-increasing, delta2 non-decreasing in n"""
    mu = _gen_mu(rng)
    vtype = rng.choice(["float", "int", "np", "0d"])
    var = float(_as_var(_gen_var(rng, mu), vtype, mu)) if law == "nbd" else None
    n0 = max(0, _gen_n(rng, mu) - 2)
    vals = []
    for n in range(n0, min(n0 + rng.randint(2, 5), N_MAX + 1)):
        v = _pois_case(run, drv, pending, rng, mu, n, "chain") if law == "pois" else \
            _nbd_case(run, drv, pending, rng, mu, var, n, "chain", vtype=vtype)
        if v is None:
            return
        vals.append((n, v))
    for (n, a), (_, b) in zip(vals, vals[1:]):
        case = dict(kind="chain-" + law, mu=repr(mu), var=repr(var) if var else None, n=n, tag="chain")
        if abs(b[0] - (1.0 - a[1])) > 1e-12:
            run.oracle_failure(case, f"delta1(n+1)={b[0]!r} is not 1 - delta2(n) = {1.0 - a[1]!r}")
        if b[0] > a[0] + 1e-15 or a[1] > b[1] + 1e-15:
            run.oracle_failure(case, f"not monotone in the count: delta(n)={a!r} delta(n+1)={b!r}")
    run.count("count-chain:" + law)

# ----------------------------------------------------------------------------- monotonicity
def _mono_grid(run, drv, pending, rng, law):
    """fixed n, sorted grid of means: delta1 non-decreasing, delta2 non-increasing (Poisson; NBD along fixed var/mean)"""
    n = rng.choice([0, 1, 2, rng.randint(3, 50), rng.randint(50, 2000), rng.randint(2000, N_MAX)])
    centre = max(n, 0.5)
    width = 4 * math.sqrt(centre) + 1
    means = sorted(set(min(max(centre + rng.uniform(-1, 1) * width, 1e-6), 1e5) for _ in range(rng.randint(6, 14))))
    disp = 1 + 10 ** rng.uniform(-2, 3)
    vals = []
    for mu in means:
        if law == "pois":
            v = _pois_case(run, drv, pending, rng, mu, n, "mono")
        else:
            v = _nbd_case(run, drv, pending, rng, mu, mu * disp, n, "mono")
        if v is None:
            return
        vals.append(v)
    for (m1, a), (m2, b) in zip(zip(means, vals), list(zip(means, vals))[1:]):
        slack = 1e-12 if law == "pois" else 1e-9
        if a[0] > b[0] + slack + slack * abs(b[0]) or b[1] > a[1] + slack + slack * abs(a[1]):
            case = dict(kind="mono-" + law, n=n, mu1=repr(m1), mu2=repr(m2), disp=repr(disp), tag="mono")
            run.oracle_failure(case, f"not monotone in the mean: delta({m1!r})={a!r} delta({m2!r})={b!r}")
    run.count("mono-grid:" + law)


# ----------------------------------------------------------------------------- flush / run / replay
def _flush(run, drv, pending):
    out = drv.run()
    worst = {"pois": 0.0, "nbd": 0.0}
    for kind, case, i, j, d1, d2, n in pending:
        if kind == "cat":
            def val(s):
                k, m = s.split(":")
                return int(k) / int(m)
            try:
                a, b = out[i].split()
                ok = (abs(val(a) - d1) <= 2.3e-16 and abs(val(b) - d2) <= 2.3e-16)
            except Exception:
                ok = False
            if not ok:
                run.mismatch(case, [d1, d2], out[i])
            continue
        if kind == "shifte":
            if out[i].split() != [str(d1), str(d2)]:
                run.mismatch(case, [d1, d2], out[i])
            continue
        if kind == "ups":
            try:
                ok = [Fraction(t) for t in out[i].split()] == [Fraction(d1), Fraction(d2)]
            except Exception:
                ok = False
            if not ok:
                run.mismatch(case, [repr(d1), repr(d2)], out[i])
            continue
        if kind == "shift":
            toks = out[i].split()
            ok = len(toks) == 4 and toks[0] == str(d1) and toks[1] == str(d2) and toks[3] == bits(EPS)
            if ok:
                num, den = toks[2].split("/")
                ok = Fraction(int(num), int(den)) == Fraction(EPS)
            if not ok:
                run.mismatch(case, [d1, d2, str(Fraction(EPS)), bits(EPS)], out[i])
            continue
        tol = _model_tol(n)
        for idx in (i, j):
            if idx is None:
                continue
            try:
                toks = out[idx].split()
                m1, m2 = unbits(toks[0]), unbits(toks[1])
            except Exception:
                run.mismatch(case, [d1, d2], out[idx])
                continue
            # delta1 = 1 - cdf: the cdf is matched to `tol` relative, so delta1 to `tol` absolute
            e1 = abs(m1 - d1)
            e2 = abs(m2 - d2) / d2 if d2 > 1e-300 else abs(m2 - d2)
            # far tail: scipy's nbinom/poisson cdf (incomplete beta/gamma) is itself only accurate to ~1e-4 relative
            # for values below 1e-100 with extreme parameters (checked against 80-digit arithmetic at mu=746,
            # var=746.5379585072582, n=27: exact 4.65302410205866e-275, model 4.65302410205884e-275, scipy
            # 4.65341176023563e-275) — such values are compared to 1e-3 relative
            tol2 = tol if d2 >= 1e-100 else max(tol, 1e-3)
            if n <= 2000 and d2 >= 1e-100:
                worst[kind] = max(worst[kind], e1, e2)
            if not (e1 <= tol and e2 <= tol2):
                run.mismatch(case, [d1, d2], [m1, m2])
            if len(toks) == 3 and not _close(unbits(toks[2]), float(case["mu"]), 1e-12):
                # the model's own total (sum of stored rates x last factor) against the reference total
                run.mismatch(case, case["mu"], repr(unbits(toks[2])))
            if kind == "nbd" and len(toks) == 4:
                mu, var = float(case["mu"]), float(case["var"])
                p = float(Fraction(mu) / Fraction(var))
                r = float(Fraction(mu) ** 2 / (Fraction(var) - Fraction(mu)))
                cond = var / (var - mu)
                # the code forms p = mean / var (one rounding) and r with mean**2 and var - mean (two roundings + cancellation)
                if not (_close(unbits(toks[2]), r, 4e-16 * cond + 1e-14) and _close(unbits(toks[3]), p, 4e-16)):
                    run.mismatch(case, [r, p], [unbits(toks[2]), unbits(toks[3])])
    prev = run.extra.get("model_vs_impl_worst_rel_n_le_2000", {"pois": 0.0, "nbd": 0.0})
    run.extra["model_vs_impl_worst_rel_n_le_2000"] = {k: max(worst[k], prev[k]) for k in worst}
    pending.clear()
    drv.lines.clear()


def _corpus(run, drv, pending, rng):
    # D47: the witnesses of the old probability formula run first (array-level helper and public function)
    for mu, var, n in D47_WITNESSES:
        _nbd_case(run, drv, pending, rng, mu, var, n, "corpus-D47")
    _d47_public(run)
    # the suite's one numeric example and the conventions at small counts
    for mu, n in [(0.0015, 0), (0.0015, 1), (1.0, 1), (3.0, 3), (1e-6, 0), (1e-6, 1), (1e5, N_MAX), (1e5, 0),
                  (700.0, 700), (746.0, 746), (2.5, 2), (2.5, 3)]:
        _pois_case(run, drv, pending, rng, mu, n, "corpus")
    for mu, var, n in [(10.0, 23541.0, 3), (10.0, 10.01, 10), (1e5, 1e9, 99000), (1e-6, 1e-2, 0), (1e-6, 1e-2, 1),
                       (5.0, 50.0, 5)]:
        _nbd_case(run, drv, pending, rng, mu, var, n, "corpus")
    for sizes, nobs in [([0, 3, 7, 7, 5, 2], 7), ([4], 4), ([4], 3), ([4], 5), ([0, 0, 0], 0), ([1, 2, 3], 0),
                        # more than 2^16 events in one catalog (and not a multiple of 2^16)
                        ([70001, 3, 65536, 65537], 65536)]:
        _catalog_case(run, drv, pending, rng, "quick", sizes, nobs)
    _big_grid_case(run, drv, pending)


def run(run, rng, tier):
    drv, pending = Driver(), []
    quick = tier == "quick"
    run.assumptions.append("scipy poisson/nbinom cdf = finite sum of the mass function (numerically compared, not proved)")
    _corpus(run, drv, pending, rng)
    for _ in range(700 if quick else 10000):
        mu = _gen_mu(rng)
        _pois_case(run, drv, pending, rng, mu, _gen_n(rng, mu), "grid", np_types=rng.random() < 0.3,
                   eps=rng.choice(EPS_POOL) if rng.random() < 0.2 else None)
    for _ in range(500 if quick else 6000):
        mu = _gen_mu(rng)
        var = _gen_var(rng, mu)
        _nbd_case(run, drv, pending, rng, mu, var, _gen_n(rng, mu, math.sqrt(var)), "grid",
                  eps=rng.choice(EPS_POOL) if rng.random() < 0.2 else None)
    _flush(run, drv, pending)
    for _ in range(30 if quick else 250):
        _mono_grid(run, drv, pending, rng, "pois")
    for _ in range(15 if quick else 120):
        _mono_grid(run, drv, pending, rng, "nbd")
    _flush(run, drv, pending)
    for _ in range(150 if quick else 2000):
        _public_case(run, drv, pending, _gen_public(rng))
    for _ in range(120 if quick else 2000):
        _hist_case(run, drv, pending, _gen_hist(rng))
    for _ in range(40 if quick else 700):
        _session_case(run, drv, pending, _gen_session(rng))
    _shift_cases(run, drv, pending, rng, 150 if quick else 5000)
    _shifte_cases(run, drv, pending, rng, 150 if quick else 5000)
    _ups_cases(run, drv, pending, rng, 300 if quick else 8000)
    # every admissible dispersion: var/mean in (1e4, 1e17] (D47), judged by the exact oracle like every other NBD case
    for _ in range(250 if quick else 5000):
        mu = _gen_mu(rng)
        var = _gen_wide_var(rng, mu)
        n = rng.choice([0, 1, 2, 3, rng.randint(0, 30), int(mu) + rng.randint(0, 3), _gen_n(rng, mu, min(math.sqrt(var), 1e6))])
        _nbd_case(run, drv, pending, rng, mu, var, min(max(n, 0), N_MAX), "wide",
                  vtype=rng.choice(["float", "float", "np", "0d"]))
        run.count("nbd:wide-dispersion")
    for _ in range(40 if quick else 500):
        _mono_pair_nbd(run, drv, pending, rng)
    for _ in range(40 if quick else 600):
        _count_chain(run, drv, pending, rng, "pois")
        _count_chain(run, drv, pending, rng, "nbd")
    _flush(run, drv, pending)
    for _ in range(120 if quick else 1500):
        _catalog_case(run, drv, pending, rng, tier)
    for _ in range(150 if quick else 2500):
        _catalog_seq_case(run, drv, pending, _gen_seq_case(rng, tier))
    _flush(run, drv, pending)


def replay(run, payload):
    case = payload["case"]
    drv, pending = Driver(), []
    rng = __import__("random").Random(0)
    k = case.get("kind", "")
    if k.startswith("public-") and "fspec" in case:
        _public_case(run, drv, pending, {kk: v for kk, v in case.items() if kk not in ("mu", "n")})
    elif k.startswith("public-hist"):
        _hist_case(run, drv, pending, {kk: v for kk, v in case.items() if kk not in ("mu", "n", "step", "var")})
    elif k == "catalog-seq":
        _catalog_seq_case(run, drv, pending, case)
    elif k == "session":
        _session_case(run, drv, pending, {kk: v for kk, v in case.items() if kk not in ("mu", "n", "step", "var", "f")})
    elif k == "big-grid":
        _big_grid_case(run, drv, pending)
    elif k == "shift":
        _shift_cases(run, drv, pending, rng, 0)
    elif k == "public-d47":
        _d47_public(run)
    elif k == "shifte":
        _shifte_cases(run, drv, pending, rng, 0)
    elif k == "ups":
        _ups_cases(run, drv, pending, rng, 0)
    elif k == "mono-pair-nbd":
        vals = [_nbd_case(run, drv, pending, rng, float(case[m]), float(case[m]) * float(case[d]), int(case["n"]), "replay")
                for m, d in (("mu1", "disp1"), ("mu2", "disp2"))]
        if None not in vals:
            a, b = vals
            if a[0] > b[0] + 1e-9 + 1e-9 * abs(b[0]) or b[1] > a[1] + 1e-9 + 1e-9 * abs(a[1]):
                run.oracle_failure(case, f"NBD not monotone along non-decreasing dispersion and shape: {a!r} then {b!r}")
    elif k.startswith("chain-"):
        for n in (int(case["n"]), int(case["n"]) + 1):
            if k == "chain-pois":
                _pois_case(run, drv, pending, rng, float(case["mu"]), n, "replay")
            else:
                _nbd_case(run, drv, pending, rng, float(case["mu"]), float(case["var"]), n, "replay")
    elif k in ("pois", "public-pois"):
        _pois_case(run, drv, pending, rng, float(case["mu"]), int(case["n"]), "replay",
                   eps=float(case["eps"]) if case.get("eps") else None)
    elif k in ("nbd", "public-nbd"):
        _nbd_case(run, drv, pending, rng, float(case["mu"]), float(case["var"]), int(case["n"]), "replay",
                  vtype=case.get("vtype", "float"), eps=float(case["eps"]) if case.get("eps") else None)
    elif k == "catalog":
        _catalog_case(run, drv, pending, rng, "quick", case["sizes"], case["nobs"], case.get("extras"),
                      case.get("obs_extras"), source=case.get("source"), n_cat_kind=case.get("n_cat_kind"))
    elif k.startswith("mono-"):
        vals = []
        for mu in (float(case["mu1"]), float(case["mu2"])):
            if k == "mono-pois":
                vals.append(_pois_case(run, drv, pending, rng, mu, int(case["n"]), "replay"))
            else:
                vals.append(_nbd_case(run, drv, pending, rng, mu, mu * float(case["disp"]), int(case["n"]), "replay"))
        if None not in vals:
            slack = 1e-12 if k == "mono-pois" else 1e-9
            a, b = vals
            if a[0] > b[0] + slack + slack * abs(b[0]) or b[1] > a[1] + slack + slack * abs(a[1]):
                run.oracle_failure(case, f"not monotone in the mean: {a!r} then {b!r}")
    _flush(run, drv, pending)
