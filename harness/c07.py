"""C07 — number tests: correspondence of the Poisson / NBD / catalog N-tests with Model/NumberTest.lean + direct oracle."""
import datetime
import math
import struct
from fractions import Fraction

import numpy

from .core import Driver

LEVEL_TEXT = ("Proof over the reals: delta1 = 1 - sum_{j<n} pmf(j) = sum_{j>=n} pmf(j) and delta2 = sum_{j<=n} pmf(j) for every "
              "count n (n = 0 included) and every 0 < eps < 1, hence delta1 + delta2 = 1 + pmf(n), both in [0,1]; for the Poisson "
              "law the lower tail has derivative -pmf(n) in the mean, so delta1 is non-decreasing and delta2 non-increasing in "
              "the mean; the NBD parameters are p = mean/var, r = mean^2/(var-mean) and give back mean and variance; the catalog "
              "N-test is C09's counting probabilities of the catalogue sizes. Tied to the code by a numerical correspondence of "
              "the Float instance with the implementation and a scipy oracle on every run.")
LEVEL_NOTE = ("Theorems are over the reals; scipy's poisson.cdf / nbinom.cdf are taken to be the finite sums of the mass function "
              "(compared numerically each run: 1e-9 relative for n <= 2000, 1e-7 for larger n where the Float log-factorial "
              "accumulates rounding). "
              "Monotonicity in the mean is proved for the Poisson law; for the NBD law with a FIXED variance it is false in "
              "general (heavy upper tail at small mean) and is only checked along a fixed dispersion var/mean.")
DESIGN_REF = "DESIGN.md §4 C07"
TECHNIQUE = "Lean 4 theorems over Mathlib reals (generic RealOps model) + Float-instance correspondence + scipy oracle"

THEOREMS = ["NumberTest.floor_shift", "NumberTest.cdf_shift", "NumberTest.pmf_closed_form", "NumberTest.pmf_total",
            "NumberTest.delta1_eq_upper_tail", "NumberTest.delta1_eq_one_sub", "NumberTest.delta2_eq_lower_tail",
            "NumberTest.delta_sum", "NumberTest.delta_bounds", "NumberTest.delta1_mono_mean",
            "NumberTest.delta2_anti_mean", "NumberTest.lower_tail_deriv", "NumberTest.delta1_succ_eq_one_sub_delta2",
            "NumberTest.delta_mono_count", "NumberTest.stable_eq",
            "NumberTest.nbd_params", "NumberTest.nbd_mean", "NumberTest.nbd_var", "NumberTest.nbd_params_admissible",
            "NumberTest.nbd_delta_eq", "NumberTest.nbd_delta_sum", "NumberTest.nbd_pmf_total",
            "NumberTest.nbd_delta1_eq_upper_tail", "NumberTest.nbd_delta_bounds", "NumberTest.nbd_stable_eq",
            "NumberTest.catalog_ntest_eq", "NumberTest.catalog_ntest_sum"]
TRUSTED = ["Lean 4.33 kernel", "axioms: propext, Classical.choice, Quot.sound at most",
           "scipy.stats.poisson.cdf(x, mu) / nbinom.cdf(x, r, p) compute the finite sums of the mass function up to floor(x) "
           "(0 for x < 0); compared numerically with the Float instance of the model on every run, not proved",
           "rounding of exp/log/cdf in float64 is outside every theorem (Float instance vs real instance)",
           "numpy.sum of the forecast rates is the forecast total (compared with math.fsum to 1e-12 relative)",
           "C09 (get_quantiles) for the catalog N-test",
           "harness/c07.py generators and comparison; driver parsing (Proto.lean)"]
RULE = ("mu in 10^U(-6,5) plus decimal/integer boundary means; n in {0,1,2, floor(mu)+-3, mu+-c*sqrt(mu), U(0,2000), U(0,1e5), "
        "1e5}; NBD variance in (mu, 1e4*mu]; array-level helpers and the public functions on generated GriddedForecast "
        "(optionally scaled) / CSEPCatalog / CatalogForecast objects; monotonicity on sorted grids of means for fixed n. "
        "A case is non-trivial when n >= 1 and P(N = n) > 1e-12 (the inclusive/exclusive tail convention is visible), or "
        "for the catalog test when some synthetic size equals n_obs; distinct by (kind, mean, variance, n) / (sizes, n_obs)")

EPS = 1e-6
N_MAX = 100000


def bits(x):
    return str(struct.unpack("<Q", struct.pack("<d", float(x)))[0])


def unbits(s):
    return struct.unpack("<d", struct.pack("<Q", int(s)))[0]


def _close(a, b, rel=1e-9, abs_=0.0):
    if not (math.isfinite(a) and math.isfinite(b)):
        return a == b
    return abs(a - b) <= abs_ + rel * max(abs(a), abs(b))


def _model_tol(n):
    # Float.logFact / logChoose are O(n) sums of logs: their rounding grows with n
    return 1e-9 if n <= 2000 else 1e-7


# ----------------------------------------------------------------------------- generators
def _gen_mu(rng):
    k = rng.random()
    if k < 0.08:
        return rng.choice([1e-6, 1e5, 1.0, 10.0, 100.0, 1000.0, 0.5, 0.0015, 2.0 ** -10, 99999.5, 700.0, 745.2, 746.0])
    if k < 0.16:
        return float(rng.randint(1, 5000))
    if k < 0.24:
        return round(10 ** rng.uniform(-3, 4), rng.randint(0, 3)) or 0.001
    return 10.0 ** rng.uniform(-6, 5)


def _gen_n(rng, mu, sd=None):
    sd = sd if sd is not None else math.sqrt(mu)
    k = rng.random()
    if k < 0.12:
        n = rng.choice([0, 1, 2])
    elif k < 0.42:
        n = int(math.floor(mu)) + rng.randint(-3, 3)
    elif k < 0.67:
        n = int(round(mu + rng.gauss(0, 1.5) * sd))
    elif k < 0.82:
        n = rng.randint(0, 2000)
    elif k < 0.97:
        n = rng.randint(0, N_MAX)
    else:
        n = N_MAX
    return min(max(n, 0), N_MAX)


# ----------------------------------------------------------------------------- Poisson, array level
def _pois_oracle(run, case, mu, n, d1, d2):
    import scipy.stats
    ok = True
    sf = float(scipy.stats.poisson.sf(n - 1, mu))     # P(N >= n)
    cdf = float(scipy.stats.poisson.cdf(n, mu))       # P(N <= n)
    pmf = float(scipy.stats.poisson.pmf(n, mu))
    if not _close(d1, sf, 1e-9, 1e-12):
        run.oracle_failure(case, f"delta1={d1!r} but P(N>=n)={sf!r}"); ok = False
    if not _close(d2, cdf, 1e-9, 1e-300):
        run.oracle_failure(case, f"delta2={d2!r} but P(N<=n)={cdf!r}"); ok = False
    if not abs(d1 + d2 - 1.0 - pmf) <= 1e-9:
        run.oracle_failure(case, f"delta1+delta2-1={d1 + d2 - 1.0!r} but P(N=n)={pmf!r}"); ok = False
    if not (0.0 <= d1 <= 1.0 and 0.0 <= d2 <= 1.0):
        run.oracle_failure(case, f"delta out of [0,1]: {d1!r} {d2!r}"); ok = False
    return ok, pmf


def _pois_case(run, drv, pending, rng, mu, n, tag, np_types=False):
    from csep.core import poisson_evaluations as pe
    case = dict(kind="pois", mu=repr(float(mu)), n=int(n), tag=tag)
    try:
        if np_types:
            d1, d2 = pe._number_test_ndarray(numpy.float64(mu), numpy.int64(n))
        else:
            d1, d2 = pe._number_test_ndarray(float(mu), int(n))
        d1, d2 = float(d1), float(d2)
    except Exception as e:
        run.oracle_failure(case, f"exception {type(e).__name__}: {e}")
        return None
    _, pmf = _pois_oracle(run, case, mu, n, d1, d2)
    run.case(case, ("pois", float(mu), n) if (n >= 1 and pmf > 1e-12) else None)
    run.count("pois:" + ("n=0" if n == 0 else ("visible" if pmf > 1e-12 else "far-tail")))
    i = drv.ask(f"c07_pois {bits(mu)} {n} {min(n, int(mu))} {bits(EPS)}")
    j = drv.ask(f"c07_poisd {bits(mu)} {n} {bits(EPS)}") if (mu < 700 and n <= 3000) else None
    pending.append(("pois", case, i, j, d1, d2, n))
    return d1, d2


# ----------------------------------------------------------------------------- NBD, array level
def _nbd_oracle(run, case, mu, var, n, d1, d2):
    import scipy.stats
    p = float(Fraction(mu) / Fraction(var))
    r = float(Fraction(mu) ** 2 / (Fraction(var) - Fraction(mu)))
    sf = float(scipy.stats.nbinom.sf(n - 1, r, p))
    cdf = float(scipy.stats.nbinom.cdf(n, r, p))
    pmf = float(scipy.stats.nbinom.pmf(n, r, p))
    # the float parameters of the code carry a relative error ~1e-16/(1-mu/var); tails move by about that times r
    slack = 1e-9 + 4e-16 * r * var / (var - mu)
    if not _close(d1, sf, slack, 1e-12 + slack * 1e-3):
        run.oracle_failure(case, f"delta1={d1!r} but P(N>=n)={sf!r} (r={r!r}, p={p!r})")
    if not _close(d2, cdf, slack, 1e-300 + slack * 1e-3):
        run.oracle_failure(case, f"delta2={d2!r} but P(N<=n)={cdf!r} (r={r!r}, p={p!r})")
    if not abs(d1 + d2 - 1.0 - pmf) <= 1e-9 + slack:
        run.oracle_failure(case, f"delta1+delta2-1={d1 + d2 - 1.0!r} but P(N=n)={pmf!r}")
    if not (0.0 <= d1 <= 1.0 and 0.0 <= d2 <= 1.0):
        run.oracle_failure(case, f"delta out of [0,1]: {d1!r} {d2!r}")
    return pmf


def _nbd_case(run, drv, pending, rng, mu, var, n, tag):
    from csep.core import binomial_evaluations as be
    case = dict(kind="nbd", mu=repr(float(mu)), var=repr(float(var)), n=int(n), tag=tag)
    try:
        d1, d2 = be._nbd_number_test_ndarray(float(mu), int(n), float(var))
        d1, d2 = float(d1), float(d2)
    except Exception as e:
        run.oracle_failure(case, f"exception {type(e).__name__}: {e}")
        return None
    pmf = _nbd_oracle(run, case, mu, var, n, d1, d2)
    run.case(case, ("nbd", float(mu), float(var), n) if (n >= 1 and pmf > 1e-12) else None)
    run.count("nbd:" + ("n=0" if n == 0 else ("visible" if pmf > 1e-12 else "far-tail")))
    i = drv.ask(f"c07_nbd {bits(mu)} {bits(var)} {n} {min(n, int(mu))} {bits(EPS)}")
    pending.append(("nbd", case, i, None, d1, d2, n))
    return d1, d2


def _gen_var(rng, mu):
    k = rng.random()
    if k < 0.1:
        return mu * 1e4
    if k < 0.2:
        return mu * (1 + 10 ** rng.uniform(-3, -1))
    if k < 0.3:
        return max(23541.0, mu * 1.5) if mu < 23541.0 else mu * 2.0
    return mu * (1 + 10 ** rng.uniform(-2, 4)) if rng.random() < 0.9 else mu + 10 ** rng.uniform(-3, 3)


# ----------------------------------------------------------------------------- public functions
_REGIONS = {}


def _region(nx, ny, nm):
    key = (nx, ny, nm)
    if key not in _REGIONS:
        from csep.core.regions import CartesianGrid2D
        origins = numpy.array([[x * 0.1, y * 0.1] for x in range(nx) for y in range(ny)])
        mags = numpy.array([4.0 + 0.5 * k for k in range(nm)])
        _REGIONS[key] = (CartesianGrid2D.from_origins(origins, dh=0.1, magnitudes=mags), mags, nx, ny, nm)
    return _REGIONS[key]


def _catalog(n, reg, seed):
    """CSEPCatalog of n in-region events (structured array; fast for n up to 1e5)"""
    from csep.core.catalogs import CSEPCatalog
    region, mags, nx, ny, nm = reg
    g = numpy.random.default_rng(seed)
    arr = numpy.zeros(n, dtype=CSEPCatalog.dtype if hasattr(CSEPCatalog, "dtype") else
                      [('id', 'S256'), ('origin_time', '<i8'), ('latitude', '<f8'), ('longitude', '<f8'),
                       ('depth', '<f8'), ('magnitude', '<f8')])
    arr['id'] = numpy.arange(n).astype('S')
    arr['origin_time'] = 1_600_000_000_000 + numpy.arange(n) * 1000
    arr['longitude'] = (g.integers(0, nx, n) + 0.5) * 0.1
    arr['latitude'] = (g.integers(0, ny, n) + 0.5) * 0.1
    arr['depth'] = 10.0
    arr['magnitude'] = 4.0 + 0.5 * g.integers(0, nm, n) + 0.25
    return CSEPCatalog(data=arr, region=region)


def _forecast(rng, reg, total):
    from csep.core.forecasts import GriddedForecast
    region, mags, nx, ny, nm = reg
    g = numpy.random.default_rng(rng.randrange(2 ** 32))
    w = g.uniform(0.01, 1.0, size=(nx * ny, nm)) ** rng.choice([1, 3])
    scale = None
    if rng.random() < 0.5:
        scale = rng.choice([0.5, 2.0, 1 / 365.25, 10 ** rng.uniform(-3, 3), 7 / 365])
    raw_total = total / scale if scale else total
    data = w / w.sum() * raw_total
    f = GriddedForecast(start_time=datetime.datetime(2020, 1, 1), end_time=datetime.datetime(2021, 1, 1),
                        data=data, region=region, magnitudes=mags, name="gen")
    if scale:
        f = f.scale(scale)
    return f, data, scale


def _public_case(run, drv, pending, rng, tier):
    from csep.core import poisson_evaluations as pe, binomial_evaluations as be
    reg = _region(rng.randint(1, 4), rng.randint(1, 3), rng.randint(1, 3))
    mu_t = min(max(_gen_mu(rng), 1e-6), 1e5)
    f, data, scale = _forecast(rng, reg, mu_t)
    mu = float(f.event_count)
    n = _gen_n(rng, mu) if rng.random() < 0.9 else rng.randint(0, 300)
    if n > 20000 and rng.random() < 0.7:
        n = rng.randint(0, 3000)
    cat = _catalog(n, reg, rng.randrange(2 ** 32))
    nbd = rng.random() < 0.4
    var = _gen_var(rng, mu) if nbd else None
    case = dict(kind="public-nbd" if nbd else "public-pois", mu=repr(mu), n=n, var=repr(var), scale=repr(scale),
                shape=list(data.shape), tag="public")
    # the forecast total the test uses is the sum of the (scaled) rates
    tot = math.fsum(data.ravel().tolist()) * (scale if scale else 1.0)
    if not _close(mu, tot, 1e-12):
        run.oracle_failure(case, f"forecast total {mu!r} is not the sum of the scaled rates {tot!r}")
    try:
        res = be.negative_binomial_number_test(f, cat, var) if nbd else pe.number_test(f, cat)
        d1, d2 = float(res.quantile[0]), float(res.quantile[1])
    except Exception as e:
        run.oracle_failure(case, f"exception {type(e).__name__}: {e}")
        return
    if res.observed_statistic != n or cat.event_count != n:
        run.oracle_failure(case, f"observed statistic {res.observed_statistic!r} is not the number of events {n}")
    if nbd:
        pmf = _nbd_oracle(run, case, mu, var, n, d1, d2)
        i = drv.ask(f"c07_nbd {bits(mu)} {bits(var)} {n} {min(n, int(mu))} {bits(EPS)}")
        pending.append(("nbd", case, i, None, d1, d2, n))
    else:
        _, pmf = _pois_oracle(run, case, mu, n, d1, d2)
        i = drv.ask(f"c07_pois {bits(mu)} {n} {min(n, int(mu))} {bits(EPS)}")
        pending.append(("pois", case, i, None, d1, d2, n))
    run.case(case, (case["kind"], mu, var, n) if (n >= 1 and pmf > 1e-12) else None)
    run.count(case["kind"] + (":scaled" if scale else ":unscaled"))
    # the same forecast object rescaled AFTER a test has read its total: the next test must use the new total
    # (scale is absolute: data = base x last factor)
    if rng.random() < 0.5:
        s2 = rng.choice([0.25, 3.0, 10 ** rng.uniform(-2, 2)])
        f.scale(s2)
        mu2 = math.fsum(data.ravel().tolist()) * s2
        case2 = dict(case, kind=case["kind"] + "-rescaled", mu=repr(mu2), scale2=repr(s2), tag="public-rescaled")
        if 1e-6 <= mu2 <= 1e5:
            try:
                var2 = _gen_var(rng, mu2) if nbd else None
                case2["var"] = repr(var2)
                res2 = be.negative_binomial_number_test(f, cat, var2) if nbd else pe.number_test(f, cat)
                e1, e2 = float(res2.quantile[0]), float(res2.quantile[1])
            except Exception as e:
                run.oracle_failure(case2, f"exception {type(e).__name__}: {e}")
                return
            if not _close(float(f.event_count), mu2, 1e-12):
                run.oracle_failure(case2, f"after scale({s2!r}) the forecast total is {float(f.event_count)!r}, "
                                          f"the rescaled rates sum to {mu2!r}")
            if nbd:
                _nbd_oracle(run, case2, mu2, var2, n, e1, e2)
            else:
                _pois_oracle(run, case2, mu2, n, e1, e2)
            run.case(case2, (case2["kind"], mu2, n))
            run.count(case2["kind"])


def _catalog_case(run, drv, pending, rng, tier, sizes=None, nobs=None):
    from csep.core import catalog_evaluations as ce
    from csep.core.forecasts import CatalogForecast
    reg = _region(2, 2, 2)
    if sizes is None:
        ncat = rng.choice([1, 2, 3, 5, 10, 50, 200 if tier == "quick" else 1000])
        kind = rng.choice(["ties", "poisson", "wide", "const"])
        if kind == "ties":
            pool = [rng.randint(0, 12) for _ in range(rng.randint(1, 4))]
            sizes = [rng.choice(pool) for _ in range(ncat)]
        elif kind == "poisson":
            lam = 10 ** rng.uniform(-1, 2)
            sizes = [int(v) for v in numpy.random.default_rng(rng.randrange(2 ** 32)).poisson(lam, ncat)]
        elif kind == "wide":
            sizes = [rng.randint(0, 3000) for _ in range(min(ncat, 20))]
        else:
            sizes = [rng.randint(0, 5)] * ncat
        lo, hi = min(sizes), max(sizes)
        nobs = rng.choice([rng.choice(sizes), rng.choice(sizes), lo, hi, max(lo - 1, 0), hi + 1, (lo + hi) // 2, 0])
    cache = {}

    def cat_of(k):
        if k not in cache:
            cache[k] = _catalog(k, reg, 1000 + k)
        return cache[k]
    case = dict(kind="catalog", sizes=[int(s) for s in sizes], nobs=int(nobs), tag="catalog")
    try:
        fc = CatalogForecast(catalogs=[cat_of(k) for k in sizes], region=reg[0], name="gen")
        res = ce.number_test(fc, cat_of(nobs), verbose=False)
        d1, d2 = res.quantile
        res2 = ce.number_test(fc, cat_of(nobs), verbose=False)   # a second pass over the same forecast
    except Exception as e:
        run.oracle_failure(case, f"exception {type(e).__name__}: {e}")
        return
    ncat = len(sizes)
    kge = sum(1 for s in sizes if s >= nobs)
    kle = sum(1 for s in sizes if s <= nobs)
    keq = sum(1 for s in sizes if s == nobs)
    if not (d1 == kge / ncat and d2 == kle / ncat):
        run.oracle_failure(case, f"quantile={d1!r},{d2!r} expected {kge}/{ncat} {kle}/{ncat}")
    if tuple(res2.quantile) != (d1, d2) or list(res.test_distribution) != [int(s) for s in sizes]:
        run.oracle_failure(case, f"second pass / test distribution differ: {res2.quantile!r} {res.test_distribution!r}")
    if Fraction(kge + kle, ncat) != 1 + Fraction(keq, ncat):
        run.oracle_failure(case, "delta1+delta2 != 1 + P(N=n_obs)")
    run.case(case, ("catalog", tuple(sorted(sizes)), nobs) if keq > 0 else None)
    run.count("catalog:" + ("tie-with-obs" if keq else ("below" if kle == 0 else ("above" if kge == 0 else "between"))))
    i = drv.ask(f"c07_cat {','.join(str(int(s)) for s in sizes)} {int(nobs)}")
    pending.append(("cat", case, i, None, d1, d2, ncat))


# ----------------------------------------------------------------------------- monotonicity
def _mono_grid(run, drv, pending, rng, law):
    """fixed n, sorted grid of means: delta1 non-decreasing, delta2 non-increasing (Poisson; NBD along fixed var/mean)"""
    n = rng.choice([0, 1, 2, rng.randint(3, 50), rng.randint(50, 2000), rng.randint(2000, N_MAX)])
    centre = max(n, 0.5)
    width = 4 * math.sqrt(centre) + 1
    means = sorted(set(min(max(centre + rng.uniform(-1, 1) * width, 1e-6), 1e5) for _ in range(rng.randint(6, 14))))
    disp = 1 + 10 ** rng.uniform(-2, 3)
    vals = []
    for mu in means:
        if law == "pois":
            v = _pois_case(run, drv, pending, rng, mu, n, "mono")
        else:
            v = _nbd_case(run, drv, pending, rng, mu, mu * disp, n, "mono")
        if v is None:
            return
        vals.append(v)
    for (m1, a), (m2, b) in zip(zip(means, vals), list(zip(means, vals))[1:]):
        slack = 1e-12 if law == "pois" else 1e-9
        if a[0] > b[0] + slack + slack * abs(b[0]) or b[1] > a[1] + slack + slack * abs(a[1]):
            case = dict(kind="mono-" + law, n=n, mu1=repr(m1), mu2=repr(m2), disp=repr(disp), tag="mono")
            run.oracle_failure(case, f"not monotone in the mean: delta({m1!r})={a!r} delta({m2!r})={b!r}")
    run.count("mono-grid:" + law)


# ----------------------------------------------------------------------------- flush / run / replay
def _flush(run, drv, pending):
    out = drv.run()
    worst = {"pois": 0.0, "nbd": 0.0}
    for kind, case, i, j, d1, d2, n in pending:
        if kind == "cat":
            def val(s):
                k, m = s.split(":")
                return int(k) / int(m)
            try:
                a, b = out[i].split()
                ok = (val(a) == d1 and val(b) == d2)
            except Exception:
                ok = False
            if not ok:
                run.mismatch(case, [d1, d2], out[i])
            continue
        tol = _model_tol(n)
        for idx in (i, j):
            if idx is None:
                continue
            try:
                toks = out[idx].split()
                m1, m2 = unbits(toks[0]), unbits(toks[1])
            except Exception:
                run.mismatch(case, [d1, d2], out[idx])
                continue
            # delta1 = 1 - cdf: the cdf is matched to `tol` relative, so delta1 to `tol` absolute
            e1 = abs(m1 - d1)
            e2 = abs(m2 - d2) / d2 if d2 > 1e-300 else abs(m2 - d2)
            # far tail: scipy's nbinom/poisson cdf (incomplete beta/gamma) is itself only accurate to ~1e-4 relative
            # for values below 1e-100 with extreme parameters (checked against 80-digit arithmetic at mu=746,
            # var=746.5379585072582, n=27: exact 4.65302410205866e-275, model 4.65302410205884e-275, scipy
            # 4.65341176023563e-275) — such values are compared to 1e-3 relative
            tol2 = tol if d2 >= 1e-100 else max(tol, 1e-3)
            if n <= 2000 and d2 >= 1e-100:
                worst[kind] = max(worst[kind], e1, e2)
            if not (e1 <= tol and e2 <= tol2):
                run.mismatch(case, [d1, d2], [m1, m2])
            if kind == "nbd" and len(toks) == 4:
                mu, var = float(case["mu"]), float(case["var"])
                p = float(Fraction(mu) / Fraction(var))
                r = float(Fraction(mu) ** 2 / (Fraction(var) - Fraction(mu)))
                cond = var / (var - mu)
                # the code forms p = 1 - (var-mean)/var (cancellation: relative error ~ 1e-16/p) and r with mean**2
                if not (_close(unbits(toks[2]), r, 4e-16 * cond + 1e-14) and _close(unbits(toks[3]), p, 4e-16 / p + 1e-14)):
                    run.mismatch(case, [r, p], [unbits(toks[2]), unbits(toks[3])])
    prev = run.extra.get("model_vs_impl_worst_rel_n_le_2000", {"pois": 0.0, "nbd": 0.0})
    run.extra["model_vs_impl_worst_rel_n_le_2000"] = {k: max(worst[k], prev[k]) for k in worst}
    pending.clear()
    drv.lines.clear()


def _corpus(run, drv, pending, rng):
    # the suite's one numeric example and the conventions at small counts
    for mu, n in [(0.0015, 0), (0.0015, 1), (1.0, 1), (3.0, 3), (1e-6, 0), (1e-6, 1), (1e5, N_MAX), (1e5, 0),
                  (700.0, 700), (746.0, 746), (2.5, 2), (2.5, 3)]:
        _pois_case(run, drv, pending, rng, mu, n, "corpus")
    for mu, var, n in [(10.0, 23541.0, 3), (10.0, 10.01, 10), (1e5, 1e9, 99000), (1e-6, 1e-2, 0), (1e-6, 1e-2, 1),
                       (5.0, 50.0, 5)]:
        _nbd_case(run, drv, pending, rng, mu, var, n, "corpus")
    for sizes, nobs in [([0, 3, 7, 7, 5, 2], 7), ([4], 4), ([4], 3), ([4], 5), ([0, 0, 0], 0), ([1, 2, 3], 0)]:
        _catalog_case(run, drv, pending, rng, "quick", sizes, nobs)


def run(run, rng, tier):
    drv, pending = Driver(), []
    quick = tier == "quick"
    run.assumptions.append("scipy poisson/nbinom cdf = finite sum of the mass function (numerically compared, not proved)")
    _corpus(run, drv, pending, rng)
    for _ in range(700 if quick else 10000):
        mu = _gen_mu(rng)
        _pois_case(run, drv, pending, rng, mu, _gen_n(rng, mu), "grid", np_types=rng.random() < 0.3)
    for _ in range(500 if quick else 6000):
        mu = _gen_mu(rng)
        var = _gen_var(rng, mu)
        _nbd_case(run, drv, pending, rng, mu, var, _gen_n(rng, mu, math.sqrt(var)), "grid")
    _flush(run, drv, pending)
    for _ in range(30 if quick else 250):
        _mono_grid(run, drv, pending, rng, "pois")
    for _ in range(15 if quick else 120):
        _mono_grid(run, drv, pending, rng, "nbd")
    _flush(run, drv, pending)
    for _ in range(150 if quick else 2000):
        _public_case(run, drv, pending, rng, tier)
    for _ in range(120 if quick else 1500):
        _catalog_case(run, drv, pending, rng, tier)
    _flush(run, drv, pending)


def replay(run, payload):
    case = payload["case"]
    drv, pending = Driver(), []
    rng = __import__("random").Random(0)
    k = case.get("kind", "")
    if k in ("pois", "public-pois"):
        _pois_case(run, drv, pending, rng, float(case["mu"]), int(case["n"]), "replay")
    elif k in ("nbd", "public-nbd"):
        _nbd_case(run, drv, pending, rng, float(case["mu"]), float(case["var"]), int(case["n"]), "replay")
    elif k == "catalog":
        _catalog_case(run, drv, pending, rng, "quick", case["sizes"], case["nobs"])
    elif k.startswith("mono-"):
        vals = []
        for mu in (float(case["mu1"]), float(case["mu2"])):
            if k == "mono-pois":
                vals.append(_pois_case(run, drv, pending, rng, mu, int(case["n"]), "replay"))
            else:
                vals.append(_nbd_case(run, drv, pending, rng, mu, mu * float(case["disp"]), int(case["n"]), "replay"))
        if None not in vals:
            slack = 1e-12 if k == "mono-pois" else 1e-9
            a, b = vals
            if a[0] > b[0] + slack + slack * abs(b[0]) or b[1] > a[1] + slack + slack * abs(a[1]):
                run.oracle_failure(case, f"not monotone in the mean: {a!r} then {b!r}")
    _flush(run, drv, pending)
