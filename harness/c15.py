"""C15 — time conversions: correspondence of csep/utils/time_utils.py with Model/Time.lean + direct oracle.

Direct oracle (exact integer arithmetic on Python's own timedelta fields, independent of the Lean model):
  ms -> dt -> ms identity; whole-ms dt -> ms -> dt identity; finer dt within one millisecond; monotone;
  naive == UTC-aware, non-UTC offset raises ValueError; parse(str(dt)) agrees with both conversions;
  decimal year strictly increasing on >= 1 ms steps (within and across years) and inverse within 1 ms.
Correspondence (bit exact): microsecond value of every produced datetime, epoch of every datetime, civil fields,
  the formatted strings and what the parsers return, decimal-year doubles (as exact n/d) and the inverse.
"""
import datetime as _dt
import json
import os
from fractions import Fraction

from .core import Driver, frac, VERIF

LEVEL_TEXT = ("Proof: ms -> datetime is exactly 1000*ms microseconds for every |ms| < 2^33*1000 (1697..2242) from a proved "
              "binary64 error bound |fl64 x - x| <= 2^(k-54) for |x| < 2^k (Soft64), the integer datetime -> ms is the floor, "
              "hence both round trips, the one-millisecond bound and monotonicity; Gregorian day-number -> civil -> day-number "
              "round trip for every integer day (complete kernel enumeration of the 146097-day era + era shift); char-level "
              "format/parse round trip of all four string shapes and of the reader formats; decimal year: exact-arithmetic "
              "strict monotonicity (>= dt/366 days), proved forward error bound 1e-12 yr of the ten float operations, hence "
              "strict increase of the binary64 result for instants >= 1 ms apart and inverse within 1 ms. "
              "Wave 4: the os.name == 'nt' branch of epoch_time_to_utc_datetime is modelled and characterised exactly (a negative "
              "epoch is converted correctly iff it is not a multiple of 10 ms or is a whole second; naive result; proposed repair "
              "proved exact); on the full range of datetime (0001..9999) ms -> datetime is within 15 us, strictly monotone, the "
              "round trip gives ms or ms-1, and the bound 2^33*1000 of the exact theorems is proved sharp; string / field theorems "
              "for every four-digit year; explicit format arguments; millis_to_days / days_to_millis / timedelta_from_years / "
              "time_horizon_years / length_in_seconds in Soft64 (monotone, exact on whole days / years). "
              "Round 4: the binary64 decimal_year is proved NON-DECREASING for EVERY pair of instants at microsecond resolution "
              "(no range hypothesis: the eight float operations of the day sum lose <= 1e-13 days while one microsecond is 1.16e-11 "
              "days, so the day sum is strictly increasing within a year; the last two operations are monotone; across a year end the "
              "earlier value is <= year+1); the ten-step error bound 1e-12 yr, strict increase at >= 1 ms, the inverse within 1 ms and "
              "year <= decimal_year <= year+1 are proved for every datetime 0001..9999 (was 1697..2242). Call sites inside the anchored "
              "files are modelled and proved to inherit the property: GriddedForecast.scale_to_test_date (early returns, fraction "
              "positive for every period >= 1 ms, monotone in the test date, ZeroDivisionError characterised), the datetime statements "
              "of catalog.filter (threshold = floor millisecond of the datetime, kept events), _none_or_datetime of "
              "CSEPCatalog.from_dict, and explicit formats with arbitrary literal separators (file-name format %Y-%m-%dT%H-%M-%S-%f). "
              "Tied to the code by a bit-exact correspondence on uniform and boundary-window milliseconds, all microsecond "
              "phases, strings and decimal years; where the model reproduces a rounding artefact of the current float path that the "
              "property does not demand (ms -> datetime outside 1697..2242, the last bits of decimal years and of the scaling "
              "fraction) an implementation that returns the exact answer, or a decimal year within the error bound from which the "
              "property's clauses are proved, is accepted and counted, not reported. Round 6: CPython's datetime primitives are modelled with "
              "the LOCAL TIME ZONE as an explicit parameter and the library's conversions composed from them as the code composes them: "
              "every conversion is proved independent of the zone and equal to the zone-free model (the variants using fromtimestamp(t) "
              "without a zone / astimezone on a naive datetime are proved to depend on it); strptime is modelled at character level "
              "for ANY field widths (the regular expression _strptime compiles, matched with the same ordered backtracking search; "
              "compared with CPython on >= 1500 format / string pairs per run; its agreement with the canonical-width parser on "
              "str(datetime) output is kernel-checked on instances, not proved in general).")
LEVEL_NOTE = ("CPython's datetime (fromtimestamp = modf, *1e6, round-half-even; timedelta normalisation; strptime/str) and "
              "binary64 arithmetic are modelled by hand and validated bit-for-bit on every run; strptime is modelled for the "
              "canonical field widths that str(datetime) writes; the Windows branch of epoch_time_to_utc_datetime is modelled from the "
              "Python text (str(float) of ms/1000 = the three decimals without trailing zeros: trusted, compared on every run) and "
              "run with the module's `os` replaced by a stand-in named 'nt', not on a Windows build (repaired in /repo as D39; the "
              "unrepaired branch is kept as toDatetimeNtOld with its kernel-checked findings). Decimal-year theorems now cover "
              "0001..9999 (monotonicity: every integer of microseconds); CPython's decimal_year_to_utc_datetime raises for the few "
              "instants of year 9999 whose decimal year rounds to 10000.0 (the model returns the integer). str.split(' '), "
              "operator lookup and float(value) of the datetime filter statements, and datetime comparison of scale_to_test_date, are "
              "hand transcriptions validated by the correspondence; a mixture of naive and aware datetimes (TypeError) is not modelled.")
DESIGN_REF = "DESIGN.md §4 C15"
TECHNIQUE = "Lean 4 proof (Soft64 error analysis + integer arithmetic + omega/decide) with differential correspondence"

THEOREMS = ["Time.ms_to_dt_exact", "Time.dt_to_ms_floor", "Time.ms_roundtrip", "Time.dt_roundtrip_whole_ms",
            "Time.within_one_ms", "Time.to_datetime_strict_mono", "Time.dt_to_ms_mono", "Time.tz_rule",
            "Time.civil_roundtrip", "Time.fields_roundtrip", "Time.fields_valid", "Time.string_parse_agrees",
            "Time.string_fraction_iff", "Time.reader_parse_agrees", "Time.decimal_year_exact_strict_mono",
            "Time.decimal_year_err", "Time.decimal_year_strict_mono", "Time.decimal_year_inverse_within_1ms",
            # wave 4 (Properties/C15_Ext.lean)
            "Time.nt_nonneg_agrees", "Time.nt_negative_value", "Time.nt_exact_iff", "Time.nt_roundtrip_iff",
            "Time.nt_aware_iff", "Time.nt_finding_roundtrip_fails", "Time.nt_finding_not_monotone",
            "Time.nt_finding_share", "Time.nt_patched_exact",
            "Time.ms_to_dt_close_full", "Time.to_datetime_strict_mono_full", "Time.ms_roundtrip_full",
            "Time.ms_roundtrip_bound_sharp", "Time.full_range_ok", "Time.fields_valid_full",
            "Time.string_parse_agrees_full", "Time.explicit_format_agrees", "Time.explicit_format_frac_mismatch",
            "Time.millisToDays_mono", "Time.daysToMillisF_mono", "Time.days_millis_whole",
            "Time.timeHorizonYears_mono", "Time.timeHorizonYears_nonneg", "Time.lengthInSeconds_eq",
            "Time.timedeltaFromYears_neg", "Time.timedeltaFromYears_whole",
            "Time.create_utc_never_returns", "Time.create_utc_fixed_spec",
            # phase 2: the code as repaired by D38 / D39
            "Time.nt_repaired_agrees", "Time.nt_repaired_exact", "Time.create_utc_spec",
            # round 4 (Properties/C15_Calls.lean)
            "Time.decimal_year_mono_all", "Time.decimal_year_dayfrac_strict", "Time.decimal_year_err_full",
            "Time.decimal_year_strict_mono_full", "Time.decimal_year_inverse_within_1ms_full", "Time.decimal_year_in_year",
            "Time.scale_unchanged_iff", "Time.scale_frac_eq", "Time.scale_mono", "Time.scale_defined_pos",
            "Time.datetime_statement_threshold", "Time.datetime_filter_keeps", "Time.none_or_datetime_roundtrip",
            "Time.general_format_agrees", "Time.file_name_format_agrees",
            # round 6 (Properties/C15_Env.lean, C15_Strptime.lean)
            "Time.conversions_zone_independent", "Time.conversions_are_zone_free_model", "Time.ms_roundtrip_any_zone",
            "Time.local_variants_depend_on_zone", "Time.offset_discarded", "Time.library_formats_compile"]
TRUSTED = ["Lean 4.33 kernel", "axioms: propext, Classical.choice, Quot.sound at most",
           "Soft64.fl64 is IEEE-754 binary64 round-to-nearest-even and CPython float * and / are that arithmetic "
           "(validated bit-for-bit on every generated operand)",
           "CPython datetime: fromtimestamp(float) = modf, frac*1e6, round-half-even, carry; timedelta normalisation; "
           "str()/strptime for canonical field widths; timedelta(microseconds=float) rounds half-even "
           "(hand transcription, validated by the correspondence)",
           "float.__repr__ of ms/1000 (|ms| < 2^42*1000) prints the decimal ms/1000 without trailing zeros (shortest round-trip "
           "string); CPython timedelta(seconds=float) = modf, frac*1e6, round-half-even (validated by the correspondence)",
           "harness/c15.py generators, oracle and comparison; driver parsing (Proto.lean)"]
RULE = ("uniform integer milliseconds in 1900-01-01..2200-01-01; complete +-2000 ms windows around second, day and year "
        "boundaries of chosen years and around the epoch sign change; every microsecond phase 0..999 of sampled datetimes; "
        "naive / UTC-aware / offset datetimes; four string shapes; decimal years on a 1 ms lattice across leap and non-leap "
        "year ends. A case is non-trivial when ms is not a whole second (the binary64 quotient ms/1000 is inexact) or the "
        "datetime has a sub-millisecond phase; distinct by (kind, value). Round 2: objects with state "
        "(CatalogForecast.start_epoch/end_epoch, GriddedForecast.scale_to_test_date, catalog start_time/end_time/"
        "get_datetimes after update_catalog_stats) in sequences assign - read - re-assign - read again; and a sample of "
        "every case class re-run under non-UTC LOCAL time zones (TZ + time.tzset(): Asia/Tokyo, America/Los_Angeles; "
        "three more in thorough), the zone being part of the case. Wave 4: the same conversions with os.name == 'nt' (uniform, "
        "mostly negative epochs, complete windows around negative second boundaries, through the function and through a "
        "catalog); milliseconds, datetimes and strings of the full datetime range 0001..9999 outside 1900..2200 (bit-exact "
        "correspondence; the weaker proved statements as oracle; outside the property's quantifier); explicit format arguments "
        "(16 string-shape x format-shape combinations, three separators); days <-> milliseconds, timedelta_from_years, "
        "create_utc_datetime, None pass-through, utc_now_*; time_horizon_years and length_in_seconds bit exact. Sub-classes on "
        "which unchanged pyCSEP departs from the property are named in AWAITING_DECISION. Phase 2: catalogs in every "
        "representation of their event array (list of tuples; structured arrays with little- / big-endian integer or float "
        "origin-time columns; strided views; UCERF3 event arrays and the merged .bin / .gz loaders; get_csep_format) in "
        "sessions read / filter in place / assign another array to the same object, one catalog of > 65536 events per run; "
        "float-typed milliseconds; the repaired Windows branch and create_utc_datetime asserted like every other class. "
        "Round 4 (harness/c15_calls.py): scale_to_test_date on one forecast object per period (periods from 1 us to 5 years, test "
        "instants at / around both ends, consecutive microseconds, across year ends; naive / utc / zoneinfo; a sixth of them on "
        "0001..9999) bit exact + exact rational fraction + monotone; datetime filter statements as str / list / tuple, in_place "
        "or not, naive and '+00:00' text, all five operators, origin times at threshold +-2, empty catalogs, ten malformed "
        "statements that must raise; the three time members of CSEPCatalog.from_dict as str(dt) / datetime / None; file names "
        "through csep.load_catalog_forecast and explicit formats with random literal separators (wrong separator must be "
        "ValueError); decimal years of 0001..9999 (1 ms lattices and every microsecond around 20+ year ends, first / last "
        "microseconds of the range, uniform) and every microsecond across second / minute / hour / day carries. Round 6: 1500 / 30000 "
        "format / string pairs for the general strptime model (library formats and variations; un-padded fields, blank runs, zone "
        "suffixes, out-of-range fields, truncations, garbage); every conversion by keyword and positionally with warnings as "
        "errors, the epoch as float / numpy.float64 / int64 / int32 / uint64, datetime subclasses (user subclass, HistoricTime, "
        "pandas.Timestamp naive and UTC); -0.0, subnormal, boolean, small-integer-type epochs, integer / numpy decimal years; "
        "catalogs of exactly 65535 / 65536 / 65537 events, caller-owned arrays and statement lists left alone, filter by keyword, "
        "relative file names under another working directory.")

# sub-classes on which the UNCHANGED library deviates and a decision is pending (generator leaves the assertion out,
# the observation is counted): see notes/C15.md "Observed on unchanged /repo"
AWAITING_DECISION = [
    # CatalogForecast.time_horizon_years is computed once in the constructor from start_epoch/end_epoch and is a plain
    # attribute: after start_time / end_time are re-assigned it still describes the old window
    "catalog-forecast:time_horizon_years-after-reassignment",
    # (phase 2) the Windows branch of epoch_time_to_utc_datetime and create_utc_datetime were repaired in /repo (D39
    # 19a6b81, D38 36eaa50): their classes are asserted like any other; witnesses in corpus/C15/d38_*.json, d39_*.json;
    # the unrepaired code is kept as Time.toDatetimeNtOld / createUtcDatetimeOld with the kernel-checked findings
    # Time.nt_exact_iff, Time.nt_finding_*, Time.create_utc_never_returns
]
# input classes outside the property's quantifier (1900-01-01..2200-01-01) that are nevertheless run for the
# correspondence with the model (and for the weaker statements PROVED of the model on the full range of datetime):
# beyond |ms| = 2^33*1000 (1697-10-20 .. 2242-03-16) the round trip ms -> datetime -> ms loses a millisecond for ~40 % of
# the values (Time.ms_roundtrip_bound_sharp: 8589934592001 -> 8589934592000); counted as an observation, never reported
OUTSIDE_QUANTIFIER = ["far-range:years-0001..1899-and-2201..9999"]
MS_MIN = -62135596800000      # 0001-01-01
MS_MAX = 253402300799999      # 9999-12-31T23:59:59.999

# the LOCAL time zone the current cases run under (None = the process default); part of every case for the replay
_TZ = None
LOCAL_ZONES = ["Asia/Tokyo", "America/Los_Angeles"]
LOCAL_ZONES_THOROUGH = ["Europe/London", "Pacific/Chatham", "America/Sao_Paulo"]


class local_tz:
    """run a block under another LOCAL time zone (TZ + time.tzset()); always restored"""
    def __init__(self, zone):
        self.zone = zone

    def __enter__(self):
        global _TZ
        import time
        self.old_env, self.old_tz = os.environ.get("TZ"), _TZ
        if self.zone is not None:
            os.environ["TZ"] = self.zone
            time.tzset()
            _TZ = self.zone
        return self

    def __exit__(self, *exc):
        global _TZ
        import time
        if self.zone is not None:
            if self.old_env is None:
                os.environ.pop("TZ", None)
            else:
                os.environ["TZ"] = self.old_env
            time.tzset()
            _TZ = self.old_tz
        return False


def _case(**kw):
    if _TZ is not None:
        kw["tz"] = _TZ
    return kw


UTC = _dt.timezone.utc
EPOCH = _dt.datetime(1970, 1, 1, tzinfo=UTC)
EPOCH_NAIVE = _dt.datetime(1970, 1, 1)
MS_LO = -2208988800000   # 1900-01-01
MS_HI = 7258118400000    # 2200-01-01
CHUNK = 4000


def us_of(dt):
    """exact microseconds since the epoch from Python's own integer timedelta fields"""
    d = (dt - EPOCH) if dt.tzinfo is not None else (dt - EPOCH_NAIVE)
    return (d.days * 86400 + d.seconds) * 1000000 + d.microseconds


def dt_of(us, aware=True):
    return (EPOCH if aware else EPOCH_NAIVE) + _dt.timedelta(microseconds=us)


def year_start_ms(y):
    return us_of(_dt.datetime(y, 1, 1, tzinfo=UTC)) // 1000


def _exact_decimal_year(us):
    dt = dt_of(us, True)
    y = dt.year
    ys = us_of(_dt.datetime(y, 1, 1, tzinfo=UTC))
    leap = y % 4 == 0 and (y % 100 != 0 or y % 400 == 0)
    return y + Fraction(us - ys, (366 if leap else 365) * 86400000000)


def _exact_decimal_year_inverse(d):
    d = Fraction(d)
    y = d.numerator // d.denominator
    leap = y % 4 == 0 and (y % 100 != 0 or y % 400 == 0)
    return us_of(_dt.datetime(y, 1, 1, tzinfo=UTC)) + (d - y) * (366 if leap else 365) * 86400000000


# op -> (driver argument, implementation's answer) -> is the answer the exact one / within the proved error bound?
_EXACT_ALT = {
    "c15_ms2dt": lambda arg, a: int(a) == 1000 * int(arg),
    "c15_ms2dt_nt": lambda arg, a: a == f"{1000 * int(arg)}:a",
    "c15_decyear": lambda arg, a: abs(Fraction(a) - _exact_decimal_year(int(arg))) <= Fraction(1, 10 ** 11),
    "c15_decyear_inv": lambda arg, a: abs(int(a) - _exact_decimal_year_inverse(arg)) <= 1,
}


class Ctx:
    def __init__(self, run):
        self.run = run
        self.drv = Driver()
        self.pending = []   # (line index, expected list or str, case info)
        self.bit = self.tot = 0

    def ask(self, line, expected, info):
        self.pending.append((self.drv.ask(line), expected, dict(info, _line=line) if line.split(" ", 1)[0] in _EXACT_ALT else info))

    def ask_either(self, line, line2, expected, info):
        """entry by entry the implementation must agree with the answer to `line` or with the answer to `line2`"""
        self.pending.append((self.drv.ask(line), expected, dict(info, _alt=self.drv.ask(line2))))

    def flush(self):
        out = self.drv.run()
        bit, tot = self.bit, self.tot
        for i, expected, info in self.pending:
            got = out[i]
            alt = None
            exact_alt = None
            if "_line" in info:
                op, _, args = info["_line"].partition(" ")
                exact_alt = (_EXACT_ALT[op], args.split(","))
                info = {kk: v for kk, v in info.items() if kk != "_line"}
            if "_alt" in info:
                alt = out[info["_alt"]].split(",")
                info = {kk: v for kk, v in info.items() if kk != "_alt"}
            if isinstance(expected, list):
                g = got.split(",") if got != "-" else []
                tot += len(expected)
                if len(g) != len(expected):
                    self.run.mismatch(dict(info, note="length"), len(expected), len(g))
                    continue
                for k, (a, b) in enumerate(zip(expected, g)):
                    same = (a == b)
                    if not same and "/" in a + b:
                        try:
                            same = Fraction(a) == Fraction(b)
                        except (ValueError, ZeroDivisionError):      # an exception name on one side, a number on the other
                            same = False
                    if not same and info.get("tol"):
                        # float-valued helper conversions: a re-association of the same formula differs in the last bits
                        # and is not a change of behaviour; (relative, absolute) tolerance, counted
                        try:
                            fa, fb = Fraction(a), Fraction(b)
                            if abs(fa - fb) <= info["tol"][0] * abs(fb) + info["tol"][1]:
                                same = True
                                self.run.count("within-rounding-not-bit-exact")
                        except (ValueError, ZeroDivisionError):
                            pass
                    if not same and alt is not None and k < len(alt) and a == alt[k]:
                        same = True
                        self.run.count("agrees-with-repaired-model-only")
                    if not same and exact_alt is not None and k < len(exact_alt[1]):
                        # the model reproduces the rounding of the float path of the CURRENT code; an implementation that returns
                        # the mathematically exact answer (or, for decimal years, one within the error bound from which the
                        # property's clauses are proved: `decimal_year_strict_mono_of_err`, `decimal_year_inverse_of_err`) is
                        # allowed by the property: accepted, counted, not a difference
                        try:
                            if exact_alt[0](exact_alt[1][k], a):
                                same = True
                                self.run.count("exact-answer-accepted(model reproduces a rounding artefact)")
                        except (ValueError, ZeroDivisionError, OverflowError):
                            pass
                    if same:
                        bit += 1
                    else:
                        case = {kk: v for kk, v in info.items() if kk != "inputs"}
                        ins = info.get("inputs")
                        if isinstance(ins, list) and k < len(ins):
                            case[info.get("key", "us")] = ins[k]
                        self.run.mismatch(case, a, b)
            else:
                tot += 1
                if got == expected:
                    bit += 1
                else:
                    self.run.mismatch(info, expected, got)
        self.bit, self.tot = bit, tot
        self.run.extra["bitexact_agreement"] = f"{bit}/{tot}"
        self.drv, self.pending = Driver(), []


_GUARDED = {}


def _guarded(fn):
    """lesson 6: a deviation of the implementation that makes the EXAMINATION of its output fail (a value of another type,
    shape or length than every correct implementation returns) is reported as a failure of the property with the call as
    replay - never as a crash of the harness. Only exception kinds that such a deviation produces are caught."""
    import functools

    @functools.wraps(fn)
    def wrapper(ctx, *args, **kwargs):
        try:
            return fn(ctx, *args, **kwargs)
        except (AttributeError, TypeError, ValueError, IndexError, KeyError, OverflowError, ArithmeticError) as e:
            import traceback
            where = traceback.extract_tb(e.__traceback__)[-1]
            case = _case(kind="guard", fn=fn.__name__, args=list(args), kwargs=kwargs)
            try:
                json.dumps(case)
            except TypeError:
                case = _case(kind="guard", fn=fn.__name__, args=repr(args)[:2000], kwargs={})
            ctx.run.oracle_failure(case, f"{fn.__name__}: the implementation's output could not be examined "
                                         f"({type(e).__name__}: {e}; {os.path.basename(where.filename)}:{where.lineno})")
    _GUARDED[fn.__name__] = wrapper
    return wrapper


def _chunks(xs, n=CHUNK):
    for i in range(0, len(xs), n):
        yield xs[i:i + n]


# ------------------------------------------------------------------------------------------------ ms -> dt -> ms
@_guarded
def check_ms_values(ctx, ms_list, tag, via="func", sorted_window=False):
    """ms -> datetime -> ms on a list of integer milliseconds. `via` selects the API surface."""
    from csep.utils import time_utils as tu
    import numpy
    run = ctx.run
    dts = None
    try:
        if via == "catalog":
            from csep.core.catalogs import CSEPCatalog
            cat = CSEPCatalog(data=[(str(i), m, 0.0, 0.0, 0.0, 1.0) for i, m in enumerate(ms_list)])
            dts = cat.get_datetimes()
        elif via == "int64":
            dts = [tu.epoch_time_to_utc_datetime(numpy.int64(m)) for m in ms_list]
        elif via == "float":          # the docstring's parameter type: integral milliseconds held in a float
            dts = [tu.epoch_time_to_utc_datetime(numpy.float64(m) if i % 2 else float(m)) for i, m in enumerate(ms_list)]
        else:
            import csep
            dts = [csep.epoch_time_to_utc_datetime(m) for m in ms_list]
    except Exception as e:
        # find the single value that raises
        for m in ms_list:
            try:
                tu.epoch_time_to_utc_datetime(m)
            except Exception as e2:
                run.oracle_failure(_case(kind="ms", ms=m, tag=tag), f"ms->dt raised {type(e2).__name__}: {e2}")
                return
        run.oracle_failure(_case(kind="ms", ms=ms_list[0], tag=tag, via=via), f"ms->dt raised {type(e).__name__}: {e}")
        return
    uss = []
    prev = None
    for m, dt in zip(ms_list, dts):
        case = _case(kind="ms", ms=m, tag=tag)
        run.case(case, ("ms", m) if m % 1000 else None)
        if dt.tzinfo is None or dt.utcoffset() != _dt.timedelta(0):
            run.oracle_failure(case, "ms->dt: result is not UTC-aware")
            uss.append("0")
            continue
        u = us_of(dt)
        uss.append(str(u))
        try:
            back = tu.datetime_to_utc_epoch(dt)
        except Exception as e:
            run.oracle_failure(case, f"dt->ms raised {type(e).__name__}: {e}")
            continue
        if back != m:
            run.oracle_failure(case, f"round trip ms->dt->ms: {m} -> {dt.isoformat()} -> {back}")
        if abs(u - 1000 * m) >= 1000:
            run.oracle_failure(case, f"exactness ms->dt: datetime {dt.isoformat()} is {u - 1000 * m} us away from {m} ms")
        if sorted_window and prev is not None and not (prev[1] < dt):
            run.oracle_failure(_case(kind="ms-pair", ms=[prev[0], m], tag=tag),
                               f"monotone ms->dt: {prev[0]} < {m} but {prev[1].isoformat()} >= {dt.isoformat()}")
        prev = (m, dt)
    run.count(f"ms:{tag}:{via}", len(ms_list))
    for part_ms, part_us in zip(_chunks(ms_list), _chunks(uss)):
        ctx.ask("c15_ms2dt " + ",".join(map(str, part_ms)), part_us, _case(kind="ms", op="c15_ms2dt", tag=tag,
                                                                            key="ms", inputs=part_ms))


# ------------------------------------------------------------------------------------------------ dt -> ms -> dt
@_guarded
def check_dt_values(ctx, us_list, tag, mode="utc", sorted_window=False):
    """datetime (microsecond resolution) -> ms -> datetime. mode: naive | utc | zoneinfo"""
    from csep.utils import time_utils as tu
    run = ctx.run
    tz = None
    if mode == "utc":
        tz = UTC
    elif mode == "zoneinfo":
        import zoneinfo
        tz = zoneinfo.ZoneInfo("UTC")
    exp = []
    prev = None
    for u in us_list:
        case = _case(kind="dt", us=u, mode=mode, tag=tag)
        run.case(case, ("dt", u) if u % 1000 else None)
        dt = dt_of(u, aware=False)
        if tz is not None:
            dt = dt.replace(tzinfo=tz)
        try:
            ms = tu.datetime_to_utc_epoch(dt)
            back = tu.epoch_time_to_utc_datetime(ms)
        except Exception as e:
            run.oracle_failure(case, f"dt->ms->dt raised {type(e).__name__}: {e}")
            exp.append("err")
            continue
        exp.append(str(ms))
        if not isinstance(ms, int) and not hasattr(ms, "__index__"):
            run.oracle_failure(case, f"dt->ms: result {ms!r} is not an integer")
            continue
        ub = us_of(back)
        if u % 1000 == 0:
            if ub != u:
                run.oracle_failure(case, f"whole-ms round trip dt->ms->dt: {dt.isoformat()} -> {ms} -> {back.isoformat()}")
        if abs(ub - u) >= 1000:
            run.oracle_failure(case, f"within one ms: {dt.isoformat()} -> {ms} -> {back.isoformat()} ({ub - u} us)")
        if abs(1000 * int(ms) - u) >= 1000:
            run.oracle_failure(case, f"within one ms: dt->ms {dt.isoformat()} -> {ms} is {1000 * int(ms) - u} us away")
        if sorted_window and prev is not None and prev[1] > ms:
            run.oracle_failure(_case(kind="dt-pair", us=[prev[0], u], mode=mode, tag=tag),
                               f"monotone dt->ms: {prev[0]} us <= {u} us but {prev[1]} > {ms}")
        prev = (u, ms)
    run.count(f"dt:{tag}:{mode}", len(us_list))
    for part_us, part_ms in zip(_chunks(us_list), _chunks(exp)):
        ctx.ask(f"c15_dt2ms {'naive' if mode == 'naive' else 'utc'} " + ",".join(map(str, part_us)), part_ms,
                _case(kind="dt", op="c15_dt2ms", tag=tag, mode=mode, inputs=part_us))


@_guarded
def check_tz_reject(ctx, us, hours):
    """a datetime whose tzinfo is a non-zero UTC offset must be rejected with ValueError"""
    from csep.utils import time_utils as tu
    run = ctx.run
    case = _case(kind="tz", us=us, offset_hours=hours)
    run.case(case, ("tz", us, hours))
    dt = dt_of(us, aware=False).replace(tzinfo=_dt.timezone(_dt.timedelta(hours=hours)))
    # the property speaks about naive and UTC-aware datetimes only. What happens to another offset is not stated: the current
    # code refuses it (ValueError); a conversion that honours the offset and returns the instant's millisecond is just as
    # good. Only a WRONG millisecond (e.g. the wall-clock fields taken as UTC) is reported.
    instant_ms = (us - hours * 3600 * 10 ** 6) // 1000
    try:
        r = tu.datetime_to_utc_epoch(dt)
        if r != instant_ms:
            run.oracle_failure(case, f"non-UTC tzinfo: returned {r!r}, which is neither a refusal nor the instant's millisecond {instant_ms}")
        run.count("tz:offset-converted-to-the-instant(not judged)")
        return
    except Exception as e:
        got = "none"
        run.count(f"tz:reject:{type(e).__name__}")
    ctx.ask(f"c15_dt2ms other {us}", [got], dict(case, op="c15_dt2ms"))


# ------------------------------------------------------------------------------------------------ strings
def esc(s):
    return s.replace(" ", "_")


@_guarded
def check_strings(ctx, us, tag):
    from csep.utils import time_utils as tu
    import csep
    run = ctx.run
    aware = dt_of(us, True)
    naive = dt_of(us, False)
    ms = us // 1000
    case = _case(kind="str", us=us, tag=tag)
    run.case(case, ("str", us) if us % 1000000 else None)
    shapes = [("naive", str(naive)), ("aware", str(aware))]
    # the fraction-less / fractional shape that str() would not give for this value is produced by strftime
    if us % 1000000 == 0:
        # (str() never pads with a fraction; written by hand, strftime('%Y') does not zero-pad years below 1000)
        shapes.append(("naive-frac0", str(naive) + ".000000"))
        shapes.append(("aware-frac0", str(naive) + ".000000+00:00"))
    for name, s in shapes:
        c = dict(case, shape=name, string=s)
        try:
            e = tu.strptime_to_utc_epoch(s)
            d = csep.strptime_to_utc_datetime(s)
        except Exception as ex:
            run.oracle_failure(c, f"string parse raised {type(ex).__name__}: {ex}")
            continue
        if e != tu.datetime_to_utc_epoch(aware) or e != ms:
            run.oracle_failure(c, f"string parse: strptime_to_utc_epoch({s!r}) = {e} but datetime_to_utc_epoch = {ms}")
        if d != aware or d.tzinfo is None:
            run.oracle_failure(c, f"string parse: strptime_to_utc_datetime({s!r}) = {d!r} differs from the datetime")
        run.count(f"str:{name}")
        ctx.ask("c15_parse epoch " + esc(s), str(e), dict(c, op="c15_parse epoch"))
        ctx.ask("c15_parse dt " + esc(s), str(us_of(d)), dict(c, op="c15_parse dt"))
    ctx.ask(f"c15_str naive {us}", esc(str(naive)), dict(case, op="c15_str naive"))
    ctx.ask(f"c15_str aware {us}", esc(str(aware)), dict(case, op="c15_str aware"))
    ctx.ask(f"c15_fields {us}", ",".join(map(str, [aware.year, aware.month, aware.day, aware.hour, aware.minute,
                                                    aware.second, aware.microsecond])),
            dict(case, op="c15_fields"))
    # reader formats (csep_ascii): 'T' separator
    t = str(naive).replace(" ", "T")
    fmt = "%Y-%m-%dT%H:%M:%S.%f" if "." in t else "%Y-%m-%dT%H:%M:%S"
    try:
        e = tu.strptime_to_utc_epoch(t, format=fmt)
        if e != ms:
            run.oracle_failure(dict(case, string=t), f"string parse (reader format): {t!r} -> {e}, expected {ms}")
        ctx.ask("c15_parse reader " + t, str(e), dict(case, op="c15_parse reader", string=t))
    except Exception as ex:
        run.oracle_failure(dict(case, string=t), f"string parse (reader format) raised {type(ex).__name__}: {ex}")


# ------------------------------------------------------------------------------------------------ decimal years
DY_TOL_US = 1000   # "recovers the instant to within a millisecond"


@_guarded
def check_decimal_years(ctx, us_list, tag, lattice=False):
    """us_list sorted ascending. lattice=True: consecutive entries are >= 1 ms apart -> strict increase demanded."""
    from csep.utils import time_utils as tu
    run = ctx.run
    dys, invs, keep = [], [], []
    prev = None
    for u in us_list:
        case = _case(kind="decyear", us=u, tag=tag)
        run.case(case, ("dy", u))
        dt = dt_of(u, True)
        try:
            y = tu.decimal_year(dt)
            back = tu.decimal_year_to_utc_datetime(y)
            eb = tu.decimal_year_to_utc_epoch(y)
        except Exception as e:
            run.oracle_failure(case, f"decimal year raised {type(e).__name__}: {e}")
            prev = None
            continue
        y = float(y)
        ub = us_of(back)
        keep.append(u); dys.append(frac(y)); invs.append(str(ub))
        if not (dt.year <= y <= dt.year + 1):
            run.oracle_failure(case, f"decimal year {y!r} outside [{dt.year}, {dt.year + 1}]")
        if abs(ub - u) > DY_TOL_US:
            run.oracle_failure(case, f"decimal-year inverse: {dt.isoformat()} -> {y!r} -> {back.isoformat()} "
                                     f"({ub - u} us, more than 1 ms)")
        if abs(eb - u // 1000) > 1:
            run.oracle_failure(case, f"decimal-year inverse (epoch): {dt.isoformat()} -> {y!r} -> {eb}, expected "
                                     f"{u // 1000} +- 1")
        if prev is not None:
            pu, py = prev
            if u - pu >= 1000 and not (py < y):
                run.oracle_failure(_case(kind="decyear-pair", us=[pu, u], tag=tag),
                                   f"decimal year not strictly increasing: {pu} us -> {py!r}, {u} us -> {y!r}")
            elif u > pu and py > y:
                run.oracle_failure(_case(kind="decyear-pair", us=[pu, u], tag=tag),
                                   f"decimal year decreasing: {pu} us -> {py!r}, {u} us -> {y!r}")
        prev = (u, y)
    run.count(f"decyear:{tag}", len(us_list))
    for pu, pd, pi in zip(_chunks(keep, 1500), _chunks(dys, 1500), _chunks(invs, 1500)):
        ctx.ask("c15_decyear " + ",".join(map(str, pu)), pd, _case(kind="decyear", op="c15_decyear", tag=tag, inputs=pu))
        ctx.ask("c15_decyear_inv " + ",".join(pd), pi, _case(kind="decyear", op="c15_decyear_inv", tag=tag, inputs=pd))


@_guarded
def check_forecast_epoch(ctx, us_a, us_b):
    """CatalogForecast.start_epoch / end_epoch are datetime_to_utc_epoch of the stored datetimes"""
    from csep.core.forecasts import CatalogForecast
    run = ctx.run
    case = _case(kind="forecast", us=[us_a, us_b])
    run.case(case, ("fc", us_a, us_b))
    try:
        from csep.core.catalogs import CSEPCatalog
        fc = CatalogForecast(start_time=dt_of(us_a, True), end_time=dt_of(us_b, False),
                             catalogs=[CSEPCatalog(data=[("a", us_a // 1000, 0.0, 0.0, 0.0, 1.0)])])
        got = [str(fc.start_epoch), str(fc.end_epoch)]
    except Exception as e:
        run.oracle_failure(case, f"CatalogForecast epoch raised {type(e).__name__}: {e}")
        return
    if got != [str(us_a // 1000), str(us_b // 1000)]:
        run.oracle_failure(case, f"CatalogForecast.start_epoch/end_epoch = {got}, expected floor milliseconds")
    run.count("forecast-epoch")
    ctx.ask(f"c15_dt2ms utc {us_a},{us_b}", got, dict(case, op="c15_dt2ms"))



# ------------------------------------------------------------------------------------------------ objects with state
def _mk_dt(us, mode):
    """datetime of `us` microseconds since the epoch: naive | utc | zoneinfo | offset:<hours> (same instant)"""
    if mode == "naive":
        return dt_of(us, False)
    if mode == "utc":
        return dt_of(us, True)
    if mode == "zoneinfo":
        import zoneinfo
        return dt_of(us, False).replace(tzinfo=zoneinfo.ZoneInfo("UTC"))
    if mode.startswith("offset:"):
        tz = _dt.timezone(_dt.timedelta(hours=int(mode.split(":")[1])))
        return dt_of(us, True).astimezone(tz)
    raise ValueError(mode)


@_guarded
def check_object_times(ctx, obj, steps, tag, ctor=True):
    """time-derived values of an OBJECT follow its datetime attributes: assign, read, re-assign, read again.

    obj = 'catalog-forecast': steps = [[us_start, mode, us_end, mode], ...]; start_time / end_time are assigned step by
          step (the first step through the constructor when ctor), start_epoch / end_epoch are read after every
          assignment (twice, and once between the two assignments of a step): each read must equal the floor
          millisecond of the CURRENT attribute (= datetime_to_utc_epoch of it), and epoch -> datetime must give the
          attribute back when it is a whole millisecond. An 'offset:<h>' datetime must make the read raise ValueError.
    obj = 'gridded-forecast': same steps (+ a test instant as 5th entry); scale_to_test_date must scale by the
          decimal-year fraction of the CURRENT start_time / end_time.
    obj = 'catalog': steps = [[ms, ms, ...], ...] origin times assigned to catalog.catalog one after the other;
          start_time / end_time (update_catalog_stats), get_epoch_times and get_datetimes must describe the current
          events."""
    from csep.utils import time_utils as tu
    from csep.core.catalogs import CSEPCatalog
    run = ctx.run
    case = _case(kind="objtimes", obj=obj, steps=steps, ctor=ctor, tag=tag)
    run.case(case, ("objtimes", obj, json.dumps(steps), ctor, _TZ))
    run.count(f"objtimes:{obj}" + (f":tz" if _TZ else ""))
    fails = []

    def fail(msg):
        fails.append(msg)

    def read_epoch(o, name, us, mode, where):
        """one read of o.<name>_epoch against the exact value of the current attribute"""
        attr = getattr(o, name + "_time")
        try:
            got = getattr(o, name + "_epoch")
        except ValueError:
            if not mode.startswith("offset:"):
                fail(f"{where}: {name}_epoch raised ValueError for a {mode} datetime")
            return None
        except Exception as e:
            fail(f"{where}: {name}_epoch raised {type(e).__name__}: {e}")
            return None
        if mode.startswith("offset:"):
            # refusing (ValueError) and converting the instant correctly are both fine (see check_tz_reject); a remembered or
            # wrong value is not. `us` is the instant (_mk_dt builds the offset datetime with astimezone)
            if got != us // 1000:
                fail(f"{where}: {name}_time has the non-UTC tzinfo {attr.tzinfo} and {name}_epoch returned {got!r}: neither a "
                     f"refusal nor the instant's millisecond {us // 1000}")
            return None
        want = us // 1000
        if got != want or got != tu.datetime_to_utc_epoch(attr):
            fail(f"{where}: {name}_time = {attr.isoformat()} but {name}_epoch = {got!r}; datetime_to_utc_epoch of the "
                 f"attribute is {tu.datetime_to_utc_epoch(attr)} (exact floor millisecond {want})")
            return got
        back = tu.epoch_time_to_utc_datetime(got)
        if us % 1000 == 0 and us_of(back) != us:
            fail(f"{where}: {name}_epoch {got} -> {back.isoformat()} is not {name}_time {attr.isoformat()}")
        return got

    try:
        if obj == "catalog-forecast":
            from csep.core.forecasts import CatalogForecast
            cats = [CSEPCatalog(data=[("a", 0, 0.0, 0.0, 0.0, 1.0)], catalog_id=0)]
            asked = []
            fc = None
            for k, (ua, ma, ub, mb) in enumerate(steps):
                a, b = _mk_dt(ua, ma), _mk_dt(ub, mb)
                offs = ma.startswith("offset:") or mb.startswith("offset:")
                if fc is None:
                    if ctor and not offs:
                        fc = CatalogForecast(catalogs=cats, start_time=a, end_time=b, name="f")
                        thy = fc.time_horizon_years
                        want = Fraction(ub // 1000 - ua // 1000, 31557600 * 1000)
                        if abs(Fraction(float(thy)) - want) > Fraction(1, 10 ** 12) * max(1, abs(want)):
                            fail(f"step 0: time_horizon_years = {thy!r} of a fresh forecast, the window is {float(want)!r} "
                                 f"astronomical years")
                    else:
                        fc = CatalogForecast(catalogs=cats, name="f")
                        if fc.start_epoch is not None or fc.end_epoch is not None:
                            fail("a forecast without times reports epochs")
                        fc.start_time = a
                        read_epoch(fc, "start", ua, ma, f"step {k} (end_time still None)")
                        fc.end_time = b
                else:
                    fc.start_time = a
                    # between the two assignments: the start already follows, the end still is the previous one
                    read_epoch(fc, "start", ua, ma, f"step {k} (after start_time was re-assigned)")
                    pua, pma, pub, pmb = steps[k - 1]
                    read_epoch(fc, "end", pub, pmb, f"step {k} (end_time not yet re-assigned)")
                    fc.end_time = b
                for rep in (0, 1):
                    ga = read_epoch(fc, "start", ua, ma, f"step {k} read {rep}")
                    gb = read_epoch(fc, "end", ub, mb, f"step {k} read {rep}")
                if not ma.startswith("offset:") and not mb.startswith("offset:") and ga is not None and gb is not None:
                    asked.append((ua, ub, ga, gb))
                if k > 0 and not offs and "catalog-forecast:time_horizon_years-after-reassignment" not in AWAITING_DECISION:
                    want = Fraction(ub // 1000 - ua // 1000, 31557600 * 1000)
                    thy = getattr(fc, "time_horizon_years", None)
                    if thy is None or abs(Fraction(float(thy)) - want) > Fraction(1, 10 ** 12) * max(1, abs(want)):
                        fail(f"step {k}: time_horizon_years = {thy!r} after the window was re-assigned to "
                             f"{float(want)!r} astronomical years")
                elif k > 0 and not offs and hasattr(fc, "time_horizon_years"):
                    want = Fraction(ub // 1000 - ua // 1000, 31557600 * 1000)
                    if abs(Fraction(float(fc.time_horizon_years)) - want) > Fraction(1, 10 ** 12) * max(1, abs(want)):
                        run.count("awaiting-decision:time_horizon_years-stale")
            if asked:
                ctx.ask("c15_dt2ms utc " + ",".join(f"{ua},{ub}" for ua, ub, _, _ in asked),
                        [str(x) for _, _, ga, gb in asked for x in (ga, gb)], dict(case, op="c15_dt2ms"))
        elif obj == "gridded-forecast":
            import numpy
            from csep.core.forecasts import GriddedForecast
            from csep.core.regions import CartesianGrid2D
            region = CartesianGrid2D.from_origins(numpy.array([[0.0, 0.0], [0.1, 0.0]]), dh=0.1,
                                                  magnitudes=numpy.array([4.0, 5.0]))
            base = numpy.array([[1.0, 2.0], [3.0, 4.0]])
            gf = None
            for k, (ua, ma, ub, mb, ut) in enumerate(steps):
                a, b = _mk_dt(ua, ma), _mk_dt(ub, mb)
                t = _mk_dt(ut, ma)
                if gf is None and ctor:
                    gf = GriddedForecast(start_time=a, end_time=b, data=base.copy(), region=region,
                                         magnitudes=region.magnitudes, name="g")
                else:
                    if gf is None:
                        gf = GriddedForecast(data=base.copy(), region=region, magnitudes=region.magnitudes, name="g")
                    gf.start_time, gf.end_time = a, b
                if gf.start_time is not a or gf.end_time is not b:
                    fail(f"step {k}: the time attributes are not the assigned datetimes")
                gf.scale(1)
                res = gf.scale_to_test_date(t)
                # the documented scaling, from the CURRENT attributes (same float expression)
                if t >= b or t <= a:
                    want = 1.0
                else:
                    dur = tu.decimal_year(b) - tu.decimal_year(a)
                    want = (tu.decimal_year(t + _dt.timedelta(1)) - tu.decimal_year(a)) / dur
                got = float(numpy.sum(res.data)) / float(numpy.sum(base))
                if not (abs(got - want) <= 1e-12 * max(1.0, abs(want))):
                    fail(f"step {k}: scale_to_test_date({t.isoformat()}) scales by {got!r}; the decimal-year fraction of "
                         f"the current window {a.isoformat()} .. {b.isoformat()} is {want!r}")
        elif obj == "catalog":
            cat = None
            for k, mss in enumerate(steps):
                rows = [(str(i), m, 0.0, 0.0, 0.0, 1.0) for i, m in enumerate(mss)]
                if cat is None and ctor:
                    cat = CSEPCatalog(data=rows)
                else:
                    if cat is None:
                        cat = CSEPCatalog(data=[("z", 86400000, 0.0, 0.0, 0.0, 1.0)])
                        _ = cat.get_datetimes(), cat.start_time
                    cat.catalog = rows          # the setter re-computes the statistics
                for rep in (0, 1):
                    if rep == 1:
                        cat.update_catalog_stats()
                    ep = [int(x) for x in cat.get_epoch_times()]
                    if ep != list(mss):
                        fail(f"step {k}: get_epoch_times {ep} are not the assigned origin times {list(mss)}")
                    dts = cat.get_datetimes()
                    if [us_of(d) for d in dts] != [1000 * m for m in mss]:
                        fail(f"step {k}: get_datetimes {[d.isoformat() for d in dts]} do not describe the current events")
                    for name, want in (("start_time", min(mss) if mss else None), ("end_time", max(mss) if mss else None)):
                        got = getattr(cat, name)
                        if want is None:
                            if got is not None:
                                fail(f"step {k}: {name} of an empty catalog is {got!r}")
                        elif got is None or got.tzinfo is None or us_of(got) != 1000 * want \
                                or tu.datetime_to_utc_epoch(got) != want:
                            fail(f"step {k}: {name} = {got!r} but the current events "
                                 f"{'start' if name == 'start_time' else 'end'} at {want} ms")
                if mss:
                    ctx.ask(f"c15_ms2dt {min(mss)},{max(mss)}", [str(us_of(cat.start_time)), str(us_of(cat.end_time))],
                            dict(case, op="c15_ms2dt"))
        else:
            raise ValueError(obj)
    except Exception as e:
        fail(f"{obj}: {type(e).__name__}: {e}")
    for f in fails[:1]:
        run.oracle_failure(case, f)


def gen_object_times(rng, obj):
    """(steps, ctor) for check_object_times: 2..4 re-assignments, boundary-directed instants"""
    def inst():
        r = rng.random()
        if r < 0.25:
            return rng.choice([0, -1000, 1000, -1, 999, -86400000000, year_start_ms(2000) * 1000,
                               year_start_ms(2038) * 1000 - 1000, -1097606850620 * 1000]) + rng.choice([0, 0, 1, 999, 1000])
        if r < 0.6:
            return rng.randrange(MS_LO, MS_HI) * 1000
        return rng.randrange(MS_LO * 1000, MS_HI * 1000)

    def mode(allow_offset):
        r = rng.random()
        if allow_offset and r < 0.08:
            return "offset:" + str(rng.choice([-8, -5, 1, 9]))
        return rng.choice(["naive", "utc", "zoneinfo"])
    n = rng.randint(2, 4)
    ctor = rng.random() < 0.7
    steps = []
    if obj == "catalog":
        for _ in range(n):
            k = rng.choice([0, 1, 1, 2, 3, 5])
            steps.append([rng.randrange(MS_LO, MS_HI) if rng.random() < 0.8 else rng.choice([0, -1, 1, 999, -1000])
                          for _ in range(k)])
        return steps, ctor
    for _ in range(n):
        a = inst()
        b = a + rng.choice([1000, 86400 * 10 ** 6, rng.randrange(1, 10 ** 13)])
        b = min(b, MS_HI * 1000)
        if obj == "gridded-forecast":
            m = rng.choice(["naive", "utc"])
            ut = rng.choice([a - 10 ** 6, a, b, b + 10 ** 6, a + (b - a) // 2, a + (b - a) // 3, rng.randrange(a, b + 1)])
            ut = max(MS_LO * 1000, min(ut, (MS_HI - 2 * 86400000) * 1000))
            steps.append([a, m, b, m, ut])
        else:
            steps.append([a, mode(True), b, mode(True)])
    return steps, ctor



# ------------------------------------------------------------------------------------------------ wave 4
class nt_os:
    """run a block with time_utils seeing `os.name == "nt"`: the module's global `os` is replaced by a stand-in (the
    real `os` module is untouched), always restored. On a real Windows build the branch runs the same Python code:
    str(float), int(), timedelta arithmetic are platform independent."""
    def __enter__(self):
        import types
        from csep.utils import time_utils as tu
        self.tu, self.old = tu, tu.__dict__.get("os")
        self.missing = "os" not in tu.__dict__       # the branch is then selected some other way: the cases still run (POSIX path)
        tu.os = types.SimpleNamespace(name="nt")
        return self

    def __exit__(self, *exc):
        if self.old is None:
            self.tu.__dict__.pop("os", None)
        else:
            self.tu.os = self.old
        return False


A_NT_WRONG = "nt-branch:negative-epoch-multiple-of-10ms-wrong-instant"
A_NT_NAIVE = "nt-branch:negative-epoch-naive-result"
A_CREATE_UTC = "create_utc_datetime:naive-argument-raises-AttributeError"


@_guarded
def check_ms_values_nt(ctx, ms_list, tag, via="func", sorted_window=False):
    """ms -> datetime -> ms when the library believes it runs on Windows (os.name == "nt")."""
    from csep.utils import time_utils as tu
    run = ctx.run
    with nt_os() as _nt:
        if _nt.missing:
            run.count("helper-missing:time_utils.os")
            if not any("time_utils.os" in a for a in run.assumptions):
                run.assumptions.append("helper-missing: csep.utils.time_utils has no module global `os` on the tree under test; the "
                                       "Windows branch cannot be selected through it, these cases run the platform's own path")
        try:
            if via == "catalog":
                from csep.core.catalogs import CSEPCatalog
                cat = CSEPCatalog(data=[(str(i), m, 0.0, 0.0, 0.0, 1.0) for i, m in enumerate(ms_list)])
                dts = list(cat.get_datetimes())
            else:
                dts = [tu.epoch_time_to_utc_datetime(m) for m in ms_list]
        except Exception as e:
            run.oracle_failure(_case(kind="nt", ms=ms_list[0], tag=tag, via=via, all=ms_list[:50]),
                               f"os.name='nt': ms->dt raised {type(e).__name__}: {e}")
            return
    exp, prev = [], None
    for m, dt in zip(ms_list, dts):
        case = _case(kind="nt", ms=m, tag=tag)
        run.case(case, ("nt", m) if m % 1000 else None)
        aware = dt.tzinfo is not None
        if aware and dt.utcoffset() != _dt.timedelta(0):
            run.oracle_failure(case, "os.name='nt': result has a non-UTC offset")
        u = us_of(dt)
        exp.append(f"{u}:{'a' if aware else 'n'}")
        waits_wrong = m < 0 and m % 10 == 0 and m % 1000 != 0
        if not aware:
            if m < 0 and A_NT_NAIVE in AWAITING_DECISION:
                run.count("awaiting-decision:nt-naive-result")
            else:
                run.oracle_failure(case, f"os.name='nt': ms->dt: result {dt!r} is not UTC-aware")
        try:
            back = tu.datetime_to_utc_epoch(dt)
        except Exception as e:
            run.oracle_failure(case, f"os.name='nt': dt->ms raised {type(e).__name__}: {e}")
            continue
        ok = back == m and u == 1000 * m
        if not ok:
            if waits_wrong and A_NT_WRONG in AWAITING_DECISION:
                run.count("awaiting-decision:nt-wrong-instant")
            else:
                run.oracle_failure(case, f"os.name='nt': round trip ms->dt->ms: {m} -> {dt.isoformat()} -> {back}")
        if sorted_window and prev is not None and not (prev[1] < u):
            if A_NT_WRONG in AWAITING_DECISION and (waits_wrong or prev[2]):
                run.count("awaiting-decision:nt-not-monotone")
            else:
                run.oracle_failure(_case(kind="nt-pair", ms=[prev[0], m], tag=tag),
                                   f"os.name='nt': monotone ms->dt: {prev[0]} < {m} but {prev[1]} us >= {u} us")
        prev = (m, u, waits_wrong)
    run.count(f"nt:{tag}:{via}", len(ms_list))
    for part_ms, part in zip(_chunks(ms_list), _chunks(exp)):
        ctx.ask("c15_ms2dt_nt " + ",".join(map(str, part_ms)), part,
                _case(kind="nt", op="c15_ms2dt_nt", tag=tag, key="ms", inputs=part_ms))


@_guarded
def check_far_range(ctx, ms_list, tag, sorted_window=False):
    """milliseconds of datetime's full range OUTSIDE the property's 1900..2200: bit-exact correspondence with the model;
    oracle = what is proved of the model there (Time.ms_to_dt_close_full: within 15 us; strictly monotone; the round trip
    gives ms or ms - 1). A lost millisecond is counted as an observation (outside the quantifier)."""
    from csep.utils import time_utils as tu
    run = ctx.run
    uss, prev = [], None
    for m in ms_list:
        case = _case(kind="far", ms=m, tag=tag)
        run.case(case, ("far", m))
        try:
            dt = tu.epoch_time_to_utc_datetime(m)
            back = tu.datetime_to_utc_epoch(dt)
        except Exception as e:
            run.oracle_failure(case, f"far range: conversion raised {type(e).__name__}: {e}")
            uss.append("err")
            continue
        u = us_of(dt)
        uss.append(str(u))
        if dt.tzinfo is None or abs(u - 1000 * m) >= 1000:
            run.oracle_failure(case, f"far range: {m} ms -> {dt!r}: not UTC-aware within one millisecond")
        if back != m:
            if back == m - 1 or back == m + 1:
                run.count("outside-quantifier:far-range-roundtrip-off-by-one-ms")
            else:
                run.oracle_failure(case, f"far range: round trip {m} -> {dt.isoformat()} -> {back}")
        if sorted_window and prev is not None and not (prev[1] < u):
            run.oracle_failure(_case(kind="far-pair", ms=[prev[0], m], tag=tag),
                               f"far range: monotone ms->dt: {prev[0]} < {m} but {prev[1]} us >= {u} us")
        prev = (m, u)
    run.count(f"far:{tag}", len(ms_list))
    for part_ms, part_us in zip(_chunks(ms_list), _chunks(uss)):
        ctx.ask("c15_ms2dt " + ",".join(map(str, part_ms)), part_us, _case(kind="far", op="c15_ms2dt", tag=tag, key="ms",
                                                                            inputs=part_ms))


@_guarded
def check_far_dt(ctx, us_list, tag):
    """datetime -> ms on datetime's full range (integer arithmetic: exact floor everywhere) + the civil fields"""
    from csep.utils import time_utils as tu
    run = ctx.run
    exp = []
    for i, u in enumerate(us_list):
        case = _case(kind="fardt", us=u, tag=tag)
        run.case(case, ("fardt", u))
        dt = dt_of(u, aware=bool(i % 2))
        try:
            ms = tu.datetime_to_utc_epoch(dt)
        except Exception as e:
            run.oracle_failure(case, f"far range: dt->ms raised {type(e).__name__}: {e}")
            exp.append("err")
            continue
        exp.append(str(ms))
        if ms != u // 1000:
            run.oracle_failure(case, f"far range: dt->ms {dt.isoformat()} -> {ms}, exact floor millisecond {u // 1000}")
        if i % 50 == 0:
            ctx.ask(f"c15_fields {u}", ",".join(map(str, [dt.year, dt.month, dt.day, dt.hour, dt.minute, dt.second,
                                                           dt.microsecond])), dict(case, op="c15_fields"))
    run.count(f"fardt:{tag}", len(us_list))
    for part_us, part_ms in zip(_chunks(us_list), _chunks(exp)):
        ctx.ask("c15_dt2ms utc " + ",".join(map(str, part_us)), part_ms,
                _case(kind="fardt", op="c15_dt2ms", tag=tag, inputs=part_us))


def _exc_name(f, *a, **k):
    try:
        return None, f(*a, **k)
    except Exception as e:          # mapped to a small enum by the callers
        return type(e).__name__, None


@_guarded
def check_small(ctx, sub, vals, tag):
    """the small conversions of time_utils: sub = m2d | d2m | d2mi | tdy | none | createutc | now"""
    from csep.utils import time_utils as tu
    import numpy
    run = ctx.run
    case = _case(kind="small", sub=sub, vals=vals, tag=tag)
    run.case(case, ("small", sub, json.dumps(vals)))
    run.count(f"small:{sub}")
    if sub == "m2d":            # millis_to_days on sorted integer milliseconds (python int and numpy.int64)
        out = []
        for i, m in enumerate(vals):
            y = tu.millis_to_days(numpy.int64(m) if i % 2 else m)
            out.append(float(y))
            if m % 86400000 == 0 and Fraction(float(y)) != m // 86400000:
                run.oracle_failure(case, f"millis_to_days({m}) = {y!r}: a whole number of days is not recovered exactly")
            if abs(Fraction(float(y)) * 86400000 - m) > Fraction(abs(m), 2 ** 51) + Fraction(1, 10 ** 6):
                run.oracle_failure(case, f"millis_to_days({m}) = {y!r} is not {m}/86400000 to double precision")
        for a, b in zip(out, out[1:]):
            if a > b:
                run.oracle_failure(case, f"millis_to_days is not monotone on {vals}")
        ctx.ask("c15_m2d " + ",".join(map(str, vals)), [frac(y) for y in out], dict(case, op="c15_m2d", tol=(Fraction(1, 2 ** 50), 0)))
    elif sub == "d2m":          # days_to_millis on sorted float days
        ds = [float.fromhex(v) for v in vals]
        out = [float(tu.days_to_millis(d)) for d in ds]
        for d, y in zip(ds, out):
            if abs(Fraction(y) - Fraction(d) * 86400000) > abs(Fraction(d)) * 86400000 / 2 ** 51:
                run.oracle_failure(case, f"days_to_millis({d!r}) = {y!r} is not 86400000*days to double precision")
            back = tu.millis_to_days(y)
            if abs(Fraction(float(back)) - Fraction(d)) > abs(Fraction(d)) / 2 ** 50:
                run.oracle_failure(case, f"millis_to_days(days_to_millis({d!r})) = {back!r}")
        for a, b in zip(out, out[1:]):
            if a > b:
                run.oracle_failure(case, f"days_to_millis is not monotone on {ds}")
        ctx.ask("c15_d2m " + ",".join(frac(d) for d in ds), [frac(y) for y in out], dict(case, op="c15_d2m", tol=(Fraction(1, 2 ** 50), 0)))
    elif sub == "d2mi":         # days_to_millis on whole days (int): exact, and millis_to_days recovers the day
        out = [tu.days_to_millis(int(d)) for d in vals]
        for d, y in zip(vals, out):
            if y != 86400000 * d or tu.millis_to_days(y) != d:
                run.oracle_failure(case, f"days_to_millis({d}) = {y!r}; millis_to_days of it = {tu.millis_to_days(y)!r}")
        ctx.ask("c15_d2mi " + ",".join(map(str, vals)), [str(int(y)) for y in out], dict(case, op="c15_d2mi"))
    elif sub == "tdy":          # timedelta_from_years on floats (negative: ValueError)
        ys = [float.fromhex(v) for v in vals]
        exp = []
        for y in ys:
            err, td = _exc_name(tu.timedelta_from_years, y)
            if y < 0:
                # a negative duration is outside every statement of the property: what the code does with it (ValueError today)
                # is only recorded
                run.count(f"timedelta_from_years(negative):{'raises' if err else 'returns'}(not judged)")
                exp.append(None)
                continue
            if err:
                run.oracle_failure(case, f"timedelta_from_years({y!r}) raised {err}")
                exp.append(err)
                continue
            us = (td.days * 86400 + td.seconds) * 10 ** 6 + td.microseconds
            exp.append(str(us))
            if abs(us - Fraction(y) * 31557600 * 10 ** 6) > 1 + Fraction(y) * 31557600 * 10 ** 6 / 2 ** 51:
                run.oracle_failure(case, f"timedelta_from_years({y!r}) = {td!r} is not y astronomical years to a microsecond")
        keep = [(y, x) for y, x in zip(ys, exp) if x is not None]
        if keep:
            ctx.ask("c15_tdy " + ",".join(frac(y) for y, _ in keep), [x for _, x in keep], dict(case, op="c15_tdy", tol=(Fraction(1, 2 ** 50), 1)))
    elif sub == "none":         # None passes through the three converters
        got = [tu.epoch_time_to_utc_datetime(None), tu.datetime_to_utc_epoch(None), tu.decimal_year(None)]
        if got != [None, None, None]:
            run.oracle_failure(case, f"None does not pass through: {got!r}")
    elif sub == "createutc":    # create_utc_datetime: naive -> the same wall clock labelled UTC; aware -> AssertionError
        for u in vals:
            err, d = _exc_name(tu.create_utc_datetime, dt_of(u, False))
            good = not err and d.tzinfo is not None and d.utcoffset() == _dt.timedelta(0) and us_of(d) == u
            if not good:
                if err == "AttributeError" and A_CREATE_UTC in AWAITING_DECISION:
                    run.count("awaiting-decision:create_utc_datetime-AttributeError")
                else:
                    run.oracle_failure(case, f"create_utc_datetime(naive {dt_of(u, False).isoformat()}) -> {err or d!r}")
            ctx.ask(f"c15_createutc new naive {u}", str(us_of(d)) if not err else str(err), dict(case, op="c15_createutc"))
            err, d = _exc_name(tu.create_utc_datetime, dt_of(u, True))
            if err == "AssertionError":         # the documented precondition; anything else is only counted
                ctx.ask(f"c15_createutc new utc {u}", str(err), dict(case, op="c15_createutc"))
            else:
                run.count(f"create_utc_datetime(aware):{err or 'returned'}")
    elif sub == "now":          # utc_now_datetime / utc_now_epoch: the current instant, UTC-aware, zone independent
        import time
        import warnings
        with warnings.catch_warnings():
            warnings.simplefilter("ignore")
            t0 = time.time()
            d, e = tu.utc_now_datetime(), tu.utc_now_epoch()
            t1 = time.time()
        if d.tzinfo is None or d.utcoffset() != _dt.timedelta(0) or not (t0 - 1 <= us_of(d) / 1e6 <= t1 + 1):
            run.oracle_failure(case, f"utc_now_datetime() = {d!r} is not the current UTC instant ({t0})")
        if not isinstance(e, int) or not (1000 * (t0 - 1) <= e <= 1000 * (t1 + 1)):
            run.oracle_failure(case, f"utc_now_epoch() = {e!r} is not the current epoch millisecond ({t0})")
    else:
        raise ValueError(sub)


@_guarded
def check_explicit_format(ctx, us, sep, shape, tag):
    """strptime_to_utc_epoch / strptime_to_utc_datetime with an EXPLICIT format argument: sep in 'T', ' ', '/';
    shape = (string has fraction, string has +00:00, format has .%f, format has %z): matching formats must return the
    datetime and its floor millisecond, every mismatch is a ValueError"""
    from csep.utils import time_utils as tu
    run = ctx.run
    sfrac, szone, ffrac, fzone = shape
    if not sfrac:
        us -= us % 1000000
    elif us % 1000000 == 0:
        us += 1
    naive, aware = dt_of(us, False), dt_of(us, True)
    s = naive.isoformat(sep) + ("+00:00" if szone else "")
    fmt = f"%Y-%m-%d{sep}%H:%M:%S" + (".%f" if ffrac else "") + ("%z" if fzone else "")
    if fmt == "%Y-%m-%d %H:%M:%S.%f":
        return                      # that IS the default format string: sniffing, covered by check_strings
    case = _case(kind="xfmt", us=us, sep=sep, shape=list(shape), string=s, format=fmt, tag=tag)
    run.case(case, ("xfmt", us, sep, tuple(shape)))
    run.count(f"xfmt:{'match' if (sfrac, szone) == (ffrac, fzone) else 'mismatch'}")
    e1, ep = _exc_name(tu.strptime_to_utc_epoch, s, format=fmt)
    e2, d = _exc_name(tu.strptime_to_utc_datetime, s, format=fmt)
    if (sfrac, szone) == (ffrac, fzone):
        if e1 or e2 or ep != us // 1000 or d != aware or d.tzinfo is None:
            run.oracle_failure(case, f"explicit format {fmt!r} on {s!r}: epoch {e1 or ep!r}, datetime {e2 or d!r}; "
                                     f"expected {us // 1000} and {aware.isoformat()}")
    elif not e1 or not e2:
        # a format that does not match the string: refusing it (ValueError today) is not demanded by the property - a more
        # forgiving parser is a harmless change as long as MATCHING formats give the right instant: recorded, not judged
        run.count("xfmt:mismatch-accepted(not judged)")
        return
    sp = "S" if sep == " " else sep
    ctx.ask(f"c15_parsex epoch {sp} {int(ffrac)} {int(fzone)} {esc(s)}", "none" if e1 else str(ep),
            dict(case, op="c15_parsex epoch"))
    ctx.ask(f"c15_parsex dt {sp} {int(ffrac)} {int(fzone)} {esc(s)}",
            "none" if e2 else str(us_of(d)), dict(case, op="c15_parsex dt"))


@_guarded
def check_durations(ctx, pairs, tag):
    """derived durations, bit exact: CatalogForecast.time_horizon_years of a FRESH forecast (two true divisions of the
    epoch difference) and CSEPCatalog.length_in_seconds (total_seconds of the difference of the first and last datetime)"""
    from csep.core.forecasts import CatalogForecast
    from csep.core.catalogs import CSEPCatalog
    run = ctx.run
    for ua, ub in pairs:
        case = _case(kind="duration", us=[ua, ub], tag=tag)
        run.case(case, ("duration", ua, ub))
        run.count("duration")
        try:
            cats = [CSEPCatalog(data=[("a", 0, 0.0, 0.0, 0.0, 1.0)], catalog_id=0)]
            fc = CatalogForecast(catalogs=cats, start_time=dt_of(ua, False), end_time=dt_of(ub, True), name="f")
            thy = float(fc.time_horizon_years)
            ma, mb = ua // 1000, ub // 1000
            cat = CSEPCatalog(data=[("a", ma, 0.0, 0.0, 0.0, 1.0), ("m", (ma + mb) // 2, 0.0, 0.0, 0.0, 1.0),
                                    ("b", mb, 0.0, 0.0, 0.0, 1.0)])
            ln = float(cat.length_in_seconds())
        except Exception as e:
            run.oracle_failure(case, f"durations raised {type(e).__name__}: {e}")
            continue
        want = Fraction(mb - ma, 31557600 * 1000)
        if abs(Fraction(thy) - want) > abs(want) / 2 ** 50:
            run.oracle_failure(case, f"time_horizon_years = {thy!r}; the window is {float(want)!r} astronomical years")
        if ln != (mb - ma) / 1000:
            run.oracle_failure(case, f"length_in_seconds = {ln!r}; first and last event are {(mb - ma) / 1000!r} s apart")
        ctx.ask(f"c15_thy {ua},{ub}", [frac(thy)], dict(case, op="c15_thy", tol=(Fraction(1, 2 ** 50), 0)))
        ctx.ask(f"c15_len {ma},{mb}", [frac(ln)], dict(case, op="c15_len"))


def _wave4(ctx, rng, quick, centres, k=1.0):
    """the input classes added in wave 4 (k scales the sample; < 1 inside the local-zone sample)"""
    n = lambda q, t: max(1, int((q if quick else t) * k))
    # -- Windows branch: uniform (mostly negative) epochs through the function and through a catalog, complete windows
    uni = [rng.randrange(MS_LO, 1) if rng.random() < 0.85 else rng.randrange(0, MS_HI + 1) for _ in range(n(12000, 150000))]
    check_ms_values_nt(ctx, uni[: len(uni) // 5], "uniform", via="catalog")
    check_ms_values_nt(ctx, uni[len(uni) // 5:], "uniform")
    check_ms_values_nt(ctx, [-1500, -1230, -1200, -1234, -1001, -1000, -999, -100, -10, -1, 0, 1, 10, 1500, MS_LO, MS_LO + 10,
                             -1097606850620, -1097606850600], "edges")
    nt_centres = [0, -1000, -86400000, year_start_ms(1969), year_start_ms(1900) + 2000] + \
                 [rng.randrange(MS_LO // 1000, 0) * 1000 for _ in range(n(3, 20))]
    for c in nt_centres:
        w = 1200 if quick else 2000
        check_ms_values_nt(ctx, list(range(c - w, c + w + 1)), "window", sorted_window=True)
    # -- full range of datetime outside 1900..2200
    far = [rng.randrange(MS_MIN, MS_LO) if rng.random() < 0.5 else rng.randrange(MS_HI + 1, MS_MAX + 1)
           for _ in range(n(8000, 100000))]
    check_far_range(ctx, far, "uniform")
    check_far_range(ctx, [MS_MIN, MS_MIN + 1, MS_MAX - 1, MS_MAX, -8589934592002, -8589934592001, -8589934592000,
                          8589934592000, 8589934592001, 8589934592002], "edges")
    for c in [8589934592000, -8589934592000, MS_MIN + 700, MS_MAX - 700, year_start_ms(1000), year_start_ms(9999),
              year_start_ms(rng.randrange(2, 1900)), year_start_ms(rng.randrange(2201, 9999))]:
        check_far_range(ctx, list(range(max(c - 600, MS_MIN), min(c + 601, MS_MAX + 1))), "window", sorted_window=True)
    check_far_dt(ctx, sorted(rng.randrange(MS_MIN * 1000, MS_MAX * 1000 + 1000) for _ in range(n(4000, 50000))), "uniform")
    for _ in range(n(150, 3000)):
        y = rng.choice([1, 2, 99, 100, 999, 1000, 1582, 1899, 2201, 2400, 9998, 9999, rng.randrange(1, 1900),
                        rng.randrange(2201, 10000)])
        lo = year_start_ms(y) * 1000
        hi = (year_start_ms(y + 1) if y < 9999 else MS_MAX + 1) * 1000
        u = rng.choice([lo, hi - 1, hi - 1000000, rng.randrange(lo, hi), rng.randrange(lo, hi) // 1000000 * 1000000])
        check_strings(ctx, u, "far-strings")
    # -- small conversions
    for _ in range(n(60, 1500)):
        ms = sorted(rng.choice([rng.randrange(0, 10 ** 13), rng.randrange(-10 ** 12, 10 ** 12), rng.randrange(0, 10 ** 6),
                                86400000 * rng.randrange(-10 ** 5, 10 ** 5)]) for _ in range(rng.randint(1, 12)))
        check_small(ctx, "m2d", ms, "small")
        ds = sorted(rng.choice([10 ** rng.uniform(-6, 5), rng.uniform(-1000, 1000), float(rng.randrange(-10 ** 5, 10 ** 5)),
                                0.1 * rng.randrange(1, 10 ** 4)]) for _ in range(rng.randint(1, 12)))
        check_small(ctx, "d2m", [d.hex() for d in ds], "small")
        check_small(ctx, "d2mi", [rng.randrange(-10 ** 7, 10 ** 7) for _ in range(rng.randint(1, 8))], "small")
        check_small(ctx, "tdy", [rng.choice([rng.uniform(0, 300), 10 ** rng.uniform(-9, 2), float(rng.randrange(0, 300)),
                                             0.0, -rng.uniform(1e-9, 5), 0.25 * rng.randrange(0, 1000)]).hex()
                                 for _ in range(rng.randint(1, 8))], "small")
        check_small(ctx, "createutc", [rng.randrange(MS_LO * 1000, MS_HI * 1000) for _ in range(3)], "small")
    check_small(ctx, "none", [], "small")
    check_small(ctx, "now", [], "small")
    # -- explicit format argument
    shapes = [(a, b, c, d) for a in (0, 1) for b in (0, 1) for c in (0, 1) for d in (0, 1)]
    for i in range(n(400, 8000)):
        u = rng.choice([rng.randrange(MS_LO * 1000, MS_HI * 1000), rng.randrange(MS_MIN * 1000, MS_MAX * 1000),
                        rng.choice(centres)[1] * 1000 + rng.choice([-1, 0, 1, 1000])])
        shp = shapes[i % 16] if rng.random() < 0.5 else rng.choice([(0, 0, 0, 0), (1, 0, 1, 0), (0, 1, 0, 1), (1, 1, 1, 1)])
        check_explicit_format(ctx, u, rng.choice(["T", " ", "/"]), shp, "explicit")
    # -- derived durations, bit exact
    prs = []
    for _ in range(n(60, 1500)):
        a = rng.choice([rng.randrange(MS_LO * 1000, MS_HI * 1000), rng.randrange(MS_LO, MS_HI) * 1000])
        b = min(a + rng.choice([0, 1, 999, 1000, 86400 * 10 ** 6, 31557600 * 10 ** 6, rng.randrange(1, 10 ** 13),
                                rng.randrange(1, 10 ** 16)]), MS_HI * 1000)
        prs.append((a, b))
    check_durations(ctx, prs, "durations")


# ------------------------------------------------------------------------------------------------ phase 2: catalogs
# how the events of a catalog are held: every representation pyCSEP itself produces or accepts for `data=`
CAT_REPS = ["csep-list", "csep-<i8", "csep->i8", "csep-<f8", "csep->f8", "csep-strided", "ucerf3-data-v1", "ucerf3-data-v2",
            "ucerf3-bin", "ucerf3-gz", "ucerf3-csep-format"]
# not used: UCERF3Catalog.load_catalog (single-catalog file): it reads version, header AND events each from offset 0 of
# the file (numpy.fromfile(filename, ...) three times), so no layout makes it return the events; reader, not a conversion


class _HelperMissing(Exception):
    """a private helper of pyCSEP the harness uses to BUILD an input does not exist on the tree under test"""


def _u3_bytes(mss, version):
    """one catalog in the UCERF3-ETAS binary layout (big-endian): version, header, events"""
    import numpy
    from csep.core.catalogs import UCERF3Catalog
    if not hasattr(UCERF3Catalog, "_get_catalog_dtype") or not hasattr(UCERF3Catalog, "_get_header_dtype"):
        raise _HelperMissing("UCERF3Catalog._get_catalog_dtype/_get_header_dtype")
    ev = numpy.zeros(len(mss), dtype=UCERF3Catalog._get_catalog_dtype(version))
    ev["origin_time"] = mss
    ev["magnitude"] = 3.0
    ev["rupture_id"] = numpy.arange(len(mss))
    hd = numpy.zeros(1, dtype=UCERF3Catalog._get_header_dtype(version))
    hd["catalog_size"] = len(mss)
    return numpy.array([version], dtype=">i2").tobytes() + hd.tobytes() + ev.tobytes(), ev


def _make_catalog(rep, mss, tmp):
    """a catalog object holding events at the origin times `mss` (ms) in the representation `rep`"""
    import gzip
    import numpy
    from csep.core.catalogs import CSEPCatalog, UCERF3Catalog
    n = len(mss)
    if rep == "csep-list":
        return CSEPCatalog(data=[(str(i), m, 0.0, 0.0, 0.0, 1.0) for i, m in enumerate(mss)])
    if rep == "csep-strided":
        big = numpy.zeros(2 * n + 1, dtype=CSEPCatalog.dtype)
        big["origin_time"] = -777777777777
        v = big[1::2]
        v["origin_time"] = mss
        v["magnitude"] = 1.0
        return CSEPCatalog(data=v)
    if rep.startswith("csep-"):
        code = rep[5:]
        fl = code[0] + "f8"
        dt = numpy.dtype([("id", "S256"), ("origin_time", code), ("latitude", fl), ("longitude", fl), ("depth", fl),
                          ("magnitude", fl)])
        arr = numpy.zeros(n, dtype=dt)
        arr["origin_time"] = mss
        arr["magnitude"] = 1.0
        return CSEPCatalog(data=arr)
    version = 1 if rep.endswith("v1") else (3 if rep == "ucerf3-gz" else 2)
    raw, ev = _u3_bytes(mss, version)
    if rep.startswith("ucerf3-data"):
        return UCERF3Catalog(data=ev)
    if rep == "ucerf3-csep-format":
        return UCERF3Catalog(data=ev).get_csep_format()
    # merged file of two catalogs (the wanted one second): .bin and .gz loaders
    other, _ = _u3_bytes([1, 2, 3], 1)
    blob = numpy.array([2], dtype=">i4").tobytes() + other + raw
    fn = os.path.join(tmp, "set." + ("bin" if rep == "ucerf3-bin" else "gz"))
    with (open if rep == "ucerf3-bin" else gzip.open)(fn, "wb") as fh:
        fh.write(blob)
    return list(UCERF3Catalog.load_catalogs(fn))[1]


@_guarded
def check_catalog_times(ctx, steps, tag):
    """the time-derived values of a catalog, whatever array holds its events. steps = [[rep, [ms, ...], op], ...]: the
    catalog of each step is built in representation `rep` (byte order / dtype of the origin_time column, strided view,
    UCERF3 binary layouts through the three loaders); op = 'read' | 'filter' (in-place time filter first, then read) |
    'assign' (the array is assigned to the PREVIOUS step's catalog object when both are CSEP catalogs).
    Every read (twice): get_epoch_times, get_datetimes, start_time / end_time, length_in_seconds, the datetime column of
    to_dataframe(with_datetime=True) must describe exactly the current events."""
    import tempfile
    import shutil
    run = ctx.run
    case = _case(kind="cattimes", steps=steps, tag=tag)
    run.case(case, ("cattimes", json.dumps(steps), _TZ))
    tmp = tempfile.mkdtemp(prefix="c15cat")
    fails = []
    prev = None
    try:
        for k, (rep, mss, op) in enumerate(steps):
            run.count(f"cattimes:{rep}")
            where = f"step {k} ({rep}, {op}, {len(mss)} events)"
            try:
                try:
                    cat = _make_catalog(rep, mss, tmp)
                except _HelperMissing as hm:
                    # the UCERF3 layouts are built with private dtype helpers of pyCSEP; without them these representations are
                    # skipped (the public representations - lists, structured arrays of either byte order - still run)
                    run.count(f"helper-missing:{hm}")
                    if not any("helper-missing" in a for a in run.assumptions):
                        run.assumptions.append(f"helper-missing: {hm} not found on the tree under test; UCERF3 catalog "
                                               f"representations skipped, the other representations cover the conversion")
                    continue
                if op == "assign" and prev is not None and rep.startswith("csep-") and rep != "csep-list" \
                        and type(prev).__name__ == "CSEPCatalog":
                    prev.catalog = cat.catalog          # the setter re-computes the statistics
                    cat = prev
                cur = list(mss)
                if op == "filter" and cur:
                    cut = sorted(cur)[len(cur) // 2]
                    cat.filter(f"origin_time >= {cut}")
                    cur = [m for m in cur if m >= cut]
                for rep_read in (0, 1):
                    ep = [int(x) for x in cat.get_epoch_times()]
                    if ep != cur:
                        fails.append(f"{where}: get_epoch_times {ep[:5]}… are not the events' origin times {cur[:5]}…")
                        break
                    dts = cat.get_datetimes()
                    got = []
                    for m, d in zip(cur, dts):
                        if not isinstance(d, _dt.datetime) or d.tzinfo is None or d.utcoffset() != _dt.timedelta(0):
                            fails.append(f"{where}: get_datetimes gives {d!r} for {m} ms (not a UTC-aware datetime)")
                            break
                        got.append(us_of(d))
                    else:
                        if len(dts) != len(cur) or got != [1000 * m for m in cur]:
                            bad = next((i for i, (g, m) in enumerate(zip(got, cur)) if g != 1000 * m), None)
                            fails.append(f"{where}: get_datetimes: {len(dts)} datetimes for {len(cur)} events; first "
                                         f"difference at event {bad}: {dts[bad].isoformat() if bad is not None else None} "
                                         f"for {cur[bad] if bad is not None else None} ms")
                    if fails:
                        break
                    for name, want in (("start_time", min(cur) if cur else None), ("end_time", max(cur) if cur else None)):
                        g = getattr(cat, name)
                        if want is None:
                            if g is not None:
                                fails.append(f"{where}: {name} of an empty catalog is {g!r}")
                        elif not isinstance(g, _dt.datetime) or g.tzinfo is None or us_of(g) != 1000 * want:
                            fails.append(f"{where}: {name} = {g!r}, the events {'start' if name[0] == 's' else 'end'} at {want} ms")
                    if cur:
                        ln = cat.length_in_seconds()
                        if float(ln) != (cur[-1] - cur[0]) / 1000:
                            fails.append(f"{where}: length_in_seconds = {ln!r}, first and last event are "
                                         f"{(cur[-1] - cur[0]) / 1000!r} s apart")
                        df = cat.to_dataframe(with_datetime=True)
                        col = [(int(x.value) // 1000 if hasattr(x, "value") else us_of(x)) for x in df["datetime"]]
                        if col != [1000 * m for m in cur]:
                            fails.append(f"{where}: to_dataframe(with_datetime=True): the datetime column does not hold "
                                         f"the events' instants")
                    if fails:
                        break
                if fails:
                    break
                if cur:
                    samp = cur if len(cur) <= 200 else cur[:50] + cur[-50:]
                    dsamp = dts if len(cur) <= 200 else dts[:50] + dts[-50:]
                    ctx.ask("c15_ms2dt " + ",".join(map(str, samp)), [str(us_of(d)) for d in dsamp],
                            dict(case, op="c15_ms2dt", key="ms", inputs=samp))
                prev = cat
            except Exception as e:
                # whatever the implementation raises or returns in an unexpected shape is an output, not a harness crash
                fails.append(f"{where}: {type(e).__name__}: {e}")
                break
    finally:
        shutil.rmtree(tmp, ignore_errors=True)
    for f in fails[:1]:
        run.oracle_failure(case, f)


def gen_catalog_times(rng, big=False):
    def times(k):
        out = []
        for _ in range(k):
            r = rng.random()
            out.append(rng.choice([0, -1, 1, 999, -1000, -1500, -1097606850620, MS_LO, MS_HI]) if r < 0.2
                       else rng.randrange(MS_LO, MS_HI))
        return out
    steps = []
    for _ in range(rng.randint(1, 3)):
        rep = rng.choice(CAT_REPS)
        k = rng.choice([0, 1, 1, 2, 3, 6])
        if rep.startswith("ucerf3") and k == 0 and rep not in ("ucerf3-data-v1", "ucerf3-data-v2"):
            k = 1
        mss = times(k)
        if rng.random() < 0.5:
            mss.sort()
        steps.append([rep, mss, rng.choice(["read", "read", "filter", "assign"])])
    if big:
        # more than 2^16 events (cheap: an arithmetic progression with numpy-free integers)
        n = 65536 + rng.randrange(1, 5000)
        a = rng.randrange(MS_LO, MS_HI - 10 ** 9)
        steps = [[rng.choice(["csep->i8", "csep-<i8", "ucerf3-data-v2"]), [a + 7919 * i for i in range(n)], "read"]]
    return steps

# ------------------------------------------------------------------------------------------------ driver
def _corpus(ctx):
    d = os.path.join(VERIF, "corpus", "C15")
    ms = [-1097606850620]
    if os.path.isdir(d):
        for fn in sorted(os.listdir(d)):
            if fn.endswith(".json"):
                try:
                    c = json.load(open(os.path.join(d, fn)))
                    c = c.get("case", c)
                    if "ms" in c and isinstance(c["ms"], int) and c.get("kind") in (None, "ms"):
                        ms.append(c["ms"])
                    elif c.get("kind") == "objtimes":
                        with local_tz(c.get("tz")):
                            check_object_times(ctx, c["obj"], c["steps"], "corpus", c.get("ctor", True))
                    elif c.get("kind") == "nt":
                        check_ms_values_nt(ctx, [int(x) for x in c["ms"]] if isinstance(c["ms"], list) else [int(c["ms"])],
                                           "corpus", sorted_window=False)
                    elif c.get("kind") == "small":
                        check_small(ctx, c["sub"], c["vals"], "corpus")
                    elif c.get("kind") == "cattimes":
                        check_catalog_times(ctx, c["steps"], "corpus")
                except Exception:
                    pass
    ms = sorted(set(ms))
    check_ms_values(ctx, ms, "corpus")
    check_dt_values(ctx, [1000 * m for m in ms], "corpus", "utc")
    for m in ms:
        check_strings(ctx, 1000 * m, "corpus")


def run(run, rng, tier):
    quick = tier == "quick"
    ctx = Ctx(run)
    _corpus(ctx)

    # -- uniform milliseconds
    n_uni = 200000 if quick else 2000000
    uni = [rng.randrange(MS_LO, MS_HI + 1) for _ in range(n_uni)]
    third = n_uni // 10
    check_ms_values(ctx, uni[:third], "uniform", via="catalog")
    check_ms_values(ctx, uni[third:2 * third], "uniform", via="int64")
    check_ms_values(ctx, uni[2 * third:3 * third], "uniform", via="float")
    check_ms_values(ctx, uni[3 * third:], "uniform", via="func")
    check_ms_values(ctx, [MS_LO, MS_LO + 1, MS_HI - 1, MS_HI, 0, 1, -1, 999, 1000, -999, -1000, -1001], "edges")
    ctx.flush()

    # -- complete windows around boundaries
    W = 2000
    years_all = list(range(1900, 2201))
    chosen = sorted(set([1900, 1901, 1904, 1969, 1970, 1971, 2000, 2001, 2038, 2100, 2200] +
                        rng.sample(years_all, 4 if quick else 30)))
    centres = [("epoch", 0)]
    for y in chosen:
        centres.append((f"year", year_start_ms(y)))
    for _ in range(8 if quick else 40):
        y = rng.choice(years_all[:-1])
        day = rng.randrange(0, 365)
        centres.append(("day", year_start_ms(y) + day * 86400000))
    for y in (1900, 1904, 2000, 2100, 2096):   # 28 Feb / 1 Mar
        centres.append(("day", us_of(_dt.datetime(y, 3, 1, tzinfo=UTC)) // 1000))
    for _ in range(8 if quick else 40):
        centres.append(("second", rng.randrange(MS_LO // 1000, MS_HI // 1000) * 1000))
    win_us = []
    for name, c in centres:
        lo, hi = max(c - W, MS_LO - W), c + W
        ms_list = list(range(lo, hi + 1))
        check_ms_values(ctx, ms_list, f"window-{name}", sorted_window=True)
        win_us.append((name, c))
    ctx.flush()
    run.extra["windows"] = len(centres)
    run.extra["window_half_width_ms"] = W

    # -- every microsecond phase of sampled datetimes; naive / utc / zoneinfo
    n_ph = 60 if quick else 1000
    bases = [0, -1000, MS_LO * 1000, (MS_HI - 1) * 1000, -1097606850620 * 1000]
    bases += [c * 1000 - 1000 for name, c in rng.sample(centres, min(len(centres), 10))]
    while len(bases) < n_ph:
        bases.append(rng.randrange(MS_LO, MS_HI) * 1000)
    modes = ["naive", "utc", "zoneinfo"]
    for k, b in enumerate(bases):
        check_dt_values(ctx, list(range(b, b + 2001 if k < 15 else b + 1000)), "phase", modes[k % 3], sorted_window=True)
    # whole-ms datetimes, uniform
    whole = [rng.randrange(MS_LO, MS_HI) * 1000 for _ in range(20000 if quick else 200000)]
    check_dt_values(ctx, whole[::2], "whole-ms", "utc")
    check_dt_values(ctx, whole[1::2], "whole-ms", "naive")
    any_us = sorted(rng.randrange(MS_LO * 1000, MS_HI * 1000) for _ in range(20000 if quick else 200000))
    check_dt_values(ctx, any_us, "uniform-us", "utc", sorted_window=True)
    for _ in range(50 if quick else 500):
        check_tz_reject(ctx, rng.randrange(MS_LO * 1000, MS_HI * 1000),
                        rng.choice([-12, -8, -5, -1, 1, 2, 5, 9, 14]))
    for _ in range(10 if quick else 100):
        a = rng.randrange(MS_LO * 1000, MS_HI * 1000)
        check_forecast_epoch(ctx, a, a + rng.randrange(1, 10 ** 13))
    # -- objects with state: the epoch / datetime values they report follow their current attributes
    for _ in range(150 if quick else 3000):
        for obj in ("catalog-forecast", "gridded-forecast", "catalog"):
            steps, ctor = gen_object_times(rng, obj)
            check_object_times(ctx, obj, steps, "objects", ctor)
    ctx.flush()

    # -- strings
    n_str = 1500 if quick else 30000
    for i in range(n_str):
        k = i % 5
        if k == 0:
            u = rng.randrange(MS_LO // 1000, MS_HI // 1000) * 1000000          # whole second: no fraction
        elif k == 1:
            u = rng.randrange(MS_LO, MS_HI) * 1000                               # whole ms
        elif k == 2:
            u = rng.randrange(MS_LO * 1000, MS_HI * 1000)                        # any microsecond
        elif k == 3:
            u = rng.choice(centres)[1] * 1000 + rng.choice([-1000000, -1000, -1, 0, 1, 1000, 999999])
        else:
            u = rng.randrange(MS_LO // 1000, MS_HI // 1000) * 1000000 + rng.choice([1, 10, 100, 1000, 10000, 100000,
                                                                                     999999, 500000, 123456])
        check_strings(ctx, u, "strings")
    ctx.flush()

    # -- decimal years
    dyears = sorted(set([1900, 1903, 1904, 1999, 2000, 2001, 2099, 2100, 2199] + rng.sample(years_all[:-1], 2 if quick else 20)))
    WY = 1500 if quick else 2000
    for y in dyears:
        c = year_start_ms(y + 1)
        lat = [1000 * m for m in range(c - WY, c + WY + 1) if MS_LO <= m <= MS_HI]
        check_decimal_years(ctx, lat, "lattice-year-end", lattice=True)
        # last microseconds of the year and first of the next
        check_decimal_years(ctx, [u for u in range(c * 1000 - 300, c * 1000 + 300) if u <= MS_HI * 1000], "us-year-end")
    for y in (1900, 1904, 2000, 2100, 2024):   # end of February
        c = us_of(_dt.datetime(y, 3, 1, tzinfo=UTC)) // 1000
        check_decimal_years(ctx, [1000 * m for m in range(c - 300, c + 301)], "lattice-feb-end", lattice=True)
    uni_us = sorted(set(rng.randrange(MS_LO, MS_HI) * 1000 + rng.choice([0, 0, rng.randrange(1000)])
                        for _ in range(30000 if quick else 600000)))
    check_decimal_years(ctx, uni_us, "uniform")
    ctx.flush()
    run.extra["decimal_year_lattice_years"] = dyears

    # -- phase 2: catalogs in every representation of their event array (byte order, dtype, strides, UCERF3 layouts)
    for i in range(150 if quick else 3000):
        check_catalog_times(ctx, gen_catalog_times(rng, big=(i == 0)), "catalogs")
    ctx.flush()

    # -- wave 4: Windows branch, full range of datetime, small conversions, explicit formats, durations
    _wave4(ctx, rng, quick, centres)
    ctx.flush()

    # -- round 4: call sites of the conversions inside the anchored files; decimal years on datetime's full range
    from . import c15_calls
    c15_calls.run_calls(ctx, rng, quick)
    ctx.flush()

    # -- a sample of ALL of the above under non-UTC LOCAL time zones: nothing may depend on the zone of the machine
    zones = LOCAL_ZONES + ([] if quick else LOCAL_ZONES_THOROUGH)
    for zone in zones:
        with local_tz(zone):
            _sample_all(ctx, rng, quick, centres)
            ctx.flush()
    run.extra["local_time_zones"] = zones
    run.extra["awaiting_decision"] = list(AWAITING_DECISION)
    run.extra["outside_quantifier"] = list(OUTSIDE_QUANTIFIER)
    run.assumptions.append("the Windows branch of epoch_time_to_utc_datetime is exercised with time_utils' global `os` "
                           "replaced by a stand-in whose name is 'nt' (str(float), int(), timedelta are platform "
                           "independent; the C library's fromtimestamp of a real Windows build is not reproduced)")


def _sample_all(ctx, rng, quick, centres):
    """a sample of every class of case (run under the LOCAL time zone currently set)"""
    import time
    k = 1 if quick else 5
    zone = _TZ or "default"
    # local-time discontinuities of the zone in 2021 (daylight-saving gap / fold), as UTC instants and as naive
    # wall-clock values, besides the epoch and a year start
    dst = [us_of(_dt.datetime(2021, 3, 14, 10, 0, tzinfo=UTC)) // 1000, us_of(_dt.datetime(2021, 11, 7, 9, 0, tzinfo=UTC)) // 1000,
           us_of(_dt.datetime(2021, 3, 14, 2, 30, tzinfo=UTC)) // 1000, us_of(_dt.datetime(2021, 11, 7, 1, 30, tzinfo=UTC)) // 1000,
           us_of(_dt.datetime(2021, 3, 28, 1, 30, tzinfo=UTC)) // 1000]
    uni = [rng.randrange(MS_LO, MS_HI + 1) for _ in range(1500 * k)]
    check_ms_values(ctx, uni[0::3], f"tz-uniform", via="func")
    check_ms_values(ctx, uni[1::3], f"tz-uniform", via="catalog")
    check_ms_values(ctx, uni[2::3], f"tz-uniform", via="int64")
    for c in [0, year_start_ms(2038), rng.choice(centres)[1]] + rng.sample(dst, 2):
        check_ms_values(ctx, list(range(c - 150, c + 151)), "tz-window", sorted_window=True)
    bases = [0, -1000, -1097606850620 * 1000] + [1000 * m for m in dst] + \
            [rng.randrange(MS_LO, MS_HI) * 1000 for _ in range(4 * k)]
    for i, b in enumerate(bases):
        check_dt_values(ctx, list(range(b - 200, b + 800)), "tz-phase", ["naive", "utc", "zoneinfo"][i % 3],
                        sorted_window=True)
    whole = [rng.randrange(MS_LO, MS_HI) * 1000 for _ in range(1500 * k)]
    check_dt_values(ctx, whole[::2], "tz-whole-ms", "naive")
    check_dt_values(ctx, whole[1::2], "tz-whole-ms", "utc")
    for _ in range(10 * k):
        check_tz_reject(ctx, rng.randrange(MS_LO * 1000, MS_HI * 1000), rng.choice([-12, -8, -5, -1, 1, 2, 5, 9, 14]))
    for _ in range(4 * k):
        a = rng.randrange(MS_LO * 1000, MS_HI * 1000)
        check_forecast_epoch(ctx, a, a + rng.randrange(1, 10 ** 13))
    for _ in range(15 * k):
        for obj in ("catalog-forecast", "gridded-forecast", "catalog"):
            steps, ctor = gen_object_times(rng, obj)
            check_object_times(ctx, obj, steps, "tz-objects", ctor)
    for i in range(120 * k):
        u = [rng.randrange(MS_LO // 1000, MS_HI // 1000) * 1000000, rng.randrange(MS_LO, MS_HI) * 1000,
             rng.randrange(MS_LO * 1000, MS_HI * 1000), rng.choice(dst) * 1000 + rng.choice([-1, 0, 1, 1000, 999999]),
             rng.choice(centres)[1] * 1000 + rng.choice([-1000000, -1000, -1, 0, 1, 1000, 999999])][i % 5]
        check_strings(ctx, u, "tz-strings")
    y = rng.choice([1999, 2003, 2023, 2099])
    c = year_start_ms(y + 1)
    check_decimal_years(ctx, [1000 * m for m in range(c - 200, c + 201)], "tz-lattice-year-end", lattice=True)
    check_decimal_years(ctx, list(range(c * 1000 - 100, c * 1000 + 100)), "tz-us-year-end")
    for m in rng.sample(dst, 2):
        check_decimal_years(ctx, [1000 * x for x in range(m - 100, m + 101)], "tz-lattice-dst", lattice=True)
    check_decimal_years(ctx, sorted(set(rng.randrange(MS_LO, MS_HI) * 1000 + rng.choice([0, rng.randrange(1000)])
                                        for _ in range(1200 * k))), "tz-uniform")
    _wave4(ctx, rng, quick, centres, k=0.04)
    from . import c15_calls
    c15_calls.run_calls(ctx, rng, quick, k=0.05)
    for _ in range(10 if quick else 60):
        check_catalog_times(ctx, gen_catalog_times(rng), "tz-catalogs")
    ctx.run.count(f"local-tz:{zone}:utcoffset-now={-time.timezone}")


def replay(run, payload):
    case = payload.get("case") or {}
    with local_tz(case.get("tz")):
        _replay(run, case)


def _replay(run, case):
    from . import c15_calls
    ctx = Ctx(run)
    kind = case.get("kind")
    if c15_calls.replay(ctx, case):
        pass
    elif kind == "objtimes":
        check_object_times(ctx, case["obj"], case["steps"], "replay", case.get("ctor", True))
    elif kind == "ms":
        check_ms_values(ctx, [int(case["ms"])], "replay")
    elif kind == "ms-pair":
        check_ms_values(ctx, [int(x) for x in case["ms"]], "replay", sorted_window=True)
    elif kind == "dt":
        check_dt_values(ctx, [int(case["us"])], "replay", case.get("mode", "utc"))
    elif kind == "dt-pair":
        check_dt_values(ctx, [int(x) for x in case["us"]], "replay", case.get("mode", "utc"), sorted_window=True)
    elif kind == "tz":
        check_tz_reject(ctx, int(case["us"]), int(case["offset_hours"]))
    elif kind == "str":
        check_strings(ctx, int(case["us"]), "replay")
    elif kind == "decyear":
        check_decimal_years(ctx, [int(case["us"])], "replay")
    elif kind == "decyear-pair":
        check_decimal_years(ctx, [int(x) for x in case["us"]], "replay", lattice=True)
    elif kind == "forecast":
        check_forecast_epoch(ctx, int(case["us"][0]), int(case["us"][1]))
    elif kind == "guard" and case.get("fn") in _GUARDED and isinstance(case.get("args"), list):
        _GUARDED[case["fn"]](ctx, *case["args"], **case.get("kwargs", {}))
    elif kind == "cattimes":
        check_catalog_times(ctx, case["steps"], "replay")
    elif kind == "nt":
        check_ms_values_nt(ctx, [int(x) for x in case.get("all", [case["ms"]])] if case.get("via") == "catalog"
                           else [int(case["ms"])], "replay", via=case.get("via", "func"))
    elif kind == "nt-pair":
        check_ms_values_nt(ctx, [int(x) for x in case["ms"]], "replay", sorted_window=True)
    elif kind == "far":
        check_far_range(ctx, [int(case["ms"])], "replay")
    elif kind == "far-pair":
        check_far_range(ctx, [int(x) for x in case["ms"]], "replay", sorted_window=True)
    elif kind == "fardt":
        check_far_dt(ctx, [int(case["us"])], "replay")
    elif kind == "small":
        check_small(ctx, case["sub"], case["vals"], "replay")
    elif kind == "xfmt":
        check_explicit_format(ctx, int(case["us"]), case["sep"], tuple(case["shape"]), "replay")
    elif kind == "duration":
        check_durations(ctx, [tuple(int(x) for x in case["us"])], "replay")
    else:
        _corpus(ctx)
    ctx.flush()
