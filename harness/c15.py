"""C15 — time conversions: correspondence of csep/utils/time_utils.py with Model/Time.lean + direct oracle.

Direct oracle (exact integer arithmetic on Python's own timedelta fields, independent of the Lean model):
  ms -> dt -> ms identity; whole-ms dt -> ms -> dt identity; finer dt within one millisecond; monotone;
  naive == UTC-aware, non-UTC offset raises ValueError; parse(str(dt)) agrees with both conversions;
  decimal year strictly increasing on >= 1 ms steps (within and across years) and inverse within 1 ms.
Correspondence (bit exact): microsecond value of every produced datetime, epoch of every datetime, civil fields,
  the formatted strings and what the parsers return, decimal-year doubles (as exact n/d) and the inverse.
"""
import datetime as _dt
import json
import os
from fractions import Fraction

from .core import Driver, frac, VERIF

LEVEL_TEXT = ("Proof: ms -> datetime is exactly 1000*ms microseconds for every |ms| < 2^33*1000 (1697..2242) from a proved "
              "binary64 error bound |fl64 x - x| <= 2^(k-54) for |x| < 2^k (Soft64), the integer datetime -> ms is the floor, "
              "hence both round trips, the one-millisecond bound and monotonicity; Gregorian day-number -> civil -> day-number "
              "round trip for every integer day (complete kernel enumeration of the 146097-day era + era shift); char-level "
              "format/parse round trip of all four string shapes and of the reader formats; decimal year: exact-arithmetic "
              "strict monotonicity (>= dt/366 days), proved forward error bound 1e-12 yr of the ten float operations, hence "
              "strict increase of the binary64 result for instants >= 1 ms apart and inverse within 1 ms. "
              "Tied to the code by a bit-exact correspondence on uniform and boundary-window milliseconds, all microsecond "
              "phases, strings and decimal years.")
LEVEL_NOTE = ("CPython's datetime (fromtimestamp = modf, *1e6, round-half-even; timedelta normalisation; strptime/str) and "
              "binary64 arithmetic are modelled by hand and validated bit-for-bit on every run; strptime is modelled for the "
              "canonical field widths that str(datetime) writes; the Windows branch of epoch_time_to_utc_datetime is not modelled.")
DESIGN_REF = "DESIGN.md §4 C15"
TECHNIQUE = "Lean 4 proof (Soft64 error analysis + integer arithmetic + omega/decide) with differential correspondence"

THEOREMS = ["Time.ms_to_dt_exact", "Time.dt_to_ms_floor", "Time.ms_roundtrip", "Time.dt_roundtrip_whole_ms",
            "Time.within_one_ms", "Time.to_datetime_strict_mono", "Time.dt_to_ms_mono", "Time.tz_rule",
            "Time.civil_roundtrip", "Time.fields_roundtrip", "Time.fields_valid", "Time.string_parse_agrees",
            "Time.string_fraction_iff", "Time.reader_parse_agrees", "Time.decimal_year_exact_strict_mono",
            "Time.decimal_year_err", "Time.decimal_year_strict_mono", "Time.decimal_year_inverse_within_1ms"]
TRUSTED = ["Lean 4.33 kernel", "axioms: propext, Classical.choice, Quot.sound at most",
           "Soft64.fl64 is IEEE-754 binary64 round-to-nearest-even and CPython float * and / are that arithmetic "
           "(validated bit-for-bit on every generated operand)",
           "CPython datetime: fromtimestamp(float) = modf, frac*1e6, round-half-even, carry; timedelta normalisation; "
           "str()/strptime for canonical field widths; timedelta(microseconds=float) rounds half-even "
           "(hand transcription, validated by the correspondence)",
           "harness/c15.py generators, oracle and comparison; driver parsing (Proto.lean)"]
RULE = ("uniform integer milliseconds in 1900-01-01..2200-01-01; complete +-2000 ms windows around second, day and year "
        "boundaries of chosen years and around the epoch sign change; every microsecond phase 0..999 of sampled datetimes; "
        "naive / UTC-aware / offset datetimes; four string shapes; decimal years on a 1 ms lattice across leap and non-leap "
        "year ends. A case is non-trivial when ms is not a whole second (the binary64 quotient ms/1000 is inexact) or the "
        "datetime has a sub-millisecond phase; distinct by (kind, value). Round 2: objects with state "
        "(CatalogForecast.start_epoch/end_epoch, GriddedForecast.scale_to_test_date, catalog start_time/end_time/"
        "get_datetimes after update_catalog_stats) in sequences assign - read - re-assign - read again; and a sample of "
        "every case class re-run under non-UTC LOCAL time zones (TZ + time.tzset(): Asia/Tokyo, America/Los_Angeles; "
        "three more in thorough), the zone being part of the case.")

# sub-classes on which the UNCHANGED library deviates and a decision is pending (generator leaves the assertion out,
# the observation is counted): see notes/C15.md "Observed on unchanged /repo"
AWAITING_DECISION = [
    # CatalogForecast.time_horizon_years is computed once in the constructor from start_epoch/end_epoch and is a plain
    # attribute: after start_time / end_time are re-assigned it still describes the old window
    "catalog-forecast:time_horizon_years-after-reassignment",
]

# the LOCAL time zone the current cases run under (None = the process default); part of every case for the replay
_TZ = None
LOCAL_ZONES = ["Asia/Tokyo", "America/Los_Angeles"]
LOCAL_ZONES_THOROUGH = ["Europe/London", "Pacific/Chatham", "America/Sao_Paulo"]


class local_tz:
    """run a block under another LOCAL time zone (TZ + time.tzset()); always restored"""
    def __init__(self, zone):
        self.zone = zone

    def __enter__(self):
        global _TZ
        import time
        self.old_env, self.old_tz = os.environ.get("TZ"), _TZ
        if self.zone is not None:
            os.environ["TZ"] = self.zone
            time.tzset()
            _TZ = self.zone
        return self

    def __exit__(self, *exc):
        global _TZ
        import time
        if self.zone is not None:
            if self.old_env is None:
                os.environ.pop("TZ", None)
            else:
                os.environ["TZ"] = self.old_env
            time.tzset()
            _TZ = self.old_tz
        return False


def _case(**kw):
    if _TZ is not None:
        kw["tz"] = _TZ
    return kw


UTC = _dt.timezone.utc
EPOCH = _dt.datetime(1970, 1, 1, tzinfo=UTC)
EPOCH_NAIVE = _dt.datetime(1970, 1, 1)
MS_LO = -2208988800000   # 1900-01-01
MS_HI = 7258118400000    # 2200-01-01
CHUNK = 4000


def us_of(dt):
    """exact microseconds since the epoch from Python's own integer timedelta fields"""
    d = (dt - EPOCH) if dt.tzinfo is not None else (dt - EPOCH_NAIVE)
    return (d.days * 86400 + d.seconds) * 1000000 + d.microseconds


def dt_of(us, aware=True):
    return (EPOCH if aware else EPOCH_NAIVE) + _dt.timedelta(microseconds=us)


def year_start_ms(y):
    return us_of(_dt.datetime(y, 1, 1, tzinfo=UTC)) // 1000


class Ctx:
    def __init__(self, run):
        self.run = run
        self.drv = Driver()
        self.pending = []   # (line index, expected list or str, case info)
        self.bit = self.tot = 0

    def ask(self, line, expected, info):
        self.pending.append((self.drv.ask(line), expected, info))

    def flush(self):
        out = self.drv.run()
        bit, tot = self.bit, self.tot
        for i, expected, info in self.pending:
            got = out[i]
            if isinstance(expected, list):
                g = got.split(",") if got != "-" else []
                tot += len(expected)
                if len(g) != len(expected):
                    self.run.mismatch(dict(info, note="length"), len(expected), len(g))
                    continue
                for k, (a, b) in enumerate(zip(expected, g)):
                    same = (a == b) or ("/" in a + b and Fraction(a) == Fraction(b))
                    if same:
                        bit += 1
                    else:
                        case = {kk: v for kk, v in info.items() if kk != "inputs"}
                        ins = info.get("inputs")
                        if isinstance(ins, list) and k < len(ins):
                            case[info.get("key", "us")] = ins[k]
                        self.run.mismatch(case, a, b)
            else:
                tot += 1
                if got == expected:
                    bit += 1
                else:
                    self.run.mismatch(info, expected, got)
        self.bit, self.tot = bit, tot
        self.run.extra["bitexact_agreement"] = f"{bit}/{tot}"
        self.drv, self.pending = Driver(), []


def _chunks(xs, n=CHUNK):
    for i in range(0, len(xs), n):
        yield xs[i:i + n]


# ------------------------------------------------------------------------------------------------ ms -> dt -> ms
def check_ms_values(ctx, ms_list, tag, via="func", sorted_window=False):
    """ms -> datetime -> ms on a list of integer milliseconds. `via` selects the API surface."""
    from csep.utils import time_utils as tu
    import numpy
    run = ctx.run
    dts = None
    try:
        if via == "catalog":
            from csep.core.catalogs import CSEPCatalog
            cat = CSEPCatalog(data=[(str(i), m, 0.0, 0.0, 0.0, 1.0) for i, m in enumerate(ms_list)])
            dts = cat.get_datetimes()
        elif via == "int64":
            dts = [tu.epoch_time_to_utc_datetime(numpy.int64(m)) for m in ms_list]
        else:
            import csep
            dts = [csep.epoch_time_to_utc_datetime(m) for m in ms_list]
    except Exception as e:
        # find the single value that raises
        for m in ms_list:
            try:
                tu.epoch_time_to_utc_datetime(m)
            except Exception as e2:
                run.oracle_failure(_case(kind="ms", ms=m, tag=tag), f"ms->dt raised {type(e2).__name__}: {e2}")
                return
        run.oracle_failure(_case(kind="ms", ms=ms_list[0], tag=tag, via=via), f"ms->dt raised {type(e).__name__}: {e}")
        return
    uss = []
    prev = None
    for m, dt in zip(ms_list, dts):
        case = _case(kind="ms", ms=m, tag=tag)
        run.case(case, ("ms", m) if m % 1000 else None)
        if dt.tzinfo is None or dt.utcoffset() != _dt.timedelta(0):
            run.oracle_failure(case, "ms->dt: result is not UTC-aware")
            uss.append("0")
            continue
        u = us_of(dt)
        uss.append(str(u))
        try:
            back = tu.datetime_to_utc_epoch(dt)
        except Exception as e:
            run.oracle_failure(case, f"dt->ms raised {type(e).__name__}: {e}")
            continue
        if back != m:
            run.oracle_failure(case, f"round trip ms->dt->ms: {m} -> {dt.isoformat()} -> {back}")
        if abs(u - 1000 * m) >= 1000:
            run.oracle_failure(case, f"exactness ms->dt: datetime {dt.isoformat()} is {u - 1000 * m} us away from {m} ms")
        if sorted_window and prev is not None and not (prev[1] < dt):
            run.oracle_failure(_case(kind="ms-pair", ms=[prev[0], m], tag=tag),
                               f"monotone ms->dt: {prev[0]} < {m} but {prev[1].isoformat()} >= {dt.isoformat()}")
        prev = (m, dt)
    run.count(f"ms:{tag}:{via}", len(ms_list))
    for part_ms, part_us in zip(_chunks(ms_list), _chunks(uss)):
        ctx.ask("c15_ms2dt " + ",".join(map(str, part_ms)), part_us, _case(kind="ms", op="c15_ms2dt", tag=tag,
                                                                            key="ms", inputs=part_ms))


# ------------------------------------------------------------------------------------------------ dt -> ms -> dt
def check_dt_values(ctx, us_list, tag, mode="utc", sorted_window=False):
    """datetime (microsecond resolution) -> ms -> datetime. mode: naive | utc | zoneinfo"""
    from csep.utils import time_utils as tu
    run = ctx.run
    tz = None
    if mode == "utc":
        tz = UTC
    elif mode == "zoneinfo":
        import zoneinfo
        tz = zoneinfo.ZoneInfo("UTC")
    exp = []
    prev = None
    for u in us_list:
        case = _case(kind="dt", us=u, mode=mode, tag=tag)
        run.case(case, ("dt", u) if u % 1000 else None)
        dt = dt_of(u, aware=False)
        if tz is not None:
            dt = dt.replace(tzinfo=tz)
        try:
            ms = tu.datetime_to_utc_epoch(dt)
            back = tu.epoch_time_to_utc_datetime(ms)
        except Exception as e:
            run.oracle_failure(case, f"dt->ms->dt raised {type(e).__name__}: {e}")
            exp.append("err")
            continue
        exp.append(str(ms))
        if not isinstance(ms, int) and not hasattr(ms, "__index__"):
            run.oracle_failure(case, f"dt->ms: result {ms!r} is not an integer")
            continue
        ub = us_of(back)
        if u % 1000 == 0:
            if ub != u:
                run.oracle_failure(case, f"whole-ms round trip dt->ms->dt: {dt.isoformat()} -> {ms} -> {back.isoformat()}")
        if abs(ub - u) >= 1000:
            run.oracle_failure(case, f"within one ms: {dt.isoformat()} -> {ms} -> {back.isoformat()} ({ub - u} us)")
        if abs(1000 * int(ms) - u) >= 1000:
            run.oracle_failure(case, f"within one ms: dt->ms {dt.isoformat()} -> {ms} is {1000 * int(ms) - u} us away")
        if sorted_window and prev is not None and prev[1] > ms:
            run.oracle_failure(_case(kind="dt-pair", us=[prev[0], u], mode=mode, tag=tag),
                               f"monotone dt->ms: {prev[0]} us <= {u} us but {prev[1]} > {ms}")
        prev = (u, ms)
    run.count(f"dt:{tag}:{mode}", len(us_list))
    for part_us, part_ms in zip(_chunks(us_list), _chunks(exp)):
        ctx.ask(f"c15_dt2ms {'naive' if mode == 'naive' else 'utc'} " + ",".join(map(str, part_us)), part_ms,
                _case(kind="dt", op="c15_dt2ms", tag=tag, mode=mode, inputs=part_us))


def check_tz_reject(ctx, us, hours):
    """a datetime whose tzinfo is a non-zero UTC offset must be rejected with ValueError"""
    from csep.utils import time_utils as tu
    run = ctx.run
    case = _case(kind="tz", us=us, offset_hours=hours)
    run.case(case, ("tz", us, hours))
    dt = dt_of(us, aware=False).replace(tzinfo=_dt.timezone(_dt.timedelta(hours=hours)))
    try:
        r = tu.datetime_to_utc_epoch(dt)
        run.oracle_failure(case, f"non-UTC tzinfo accepted: returned {r!r} instead of ValueError")
        got = str(r)
    except ValueError:
        got = "none"
    except Exception as e:
        run.oracle_failure(case, f"non-UTC tzinfo: {type(e).__name__} instead of ValueError")
        got = type(e).__name__
    run.count("tz:reject")
    ctx.ask(f"c15_dt2ms other {us}", [got], dict(case, op="c15_dt2ms"))


# ------------------------------------------------------------------------------------------------ strings
def esc(s):
    return s.replace(" ", "_")


def check_strings(ctx, us, tag):
    from csep.utils import time_utils as tu
    import csep
    run = ctx.run
    aware = dt_of(us, True)
    naive = dt_of(us, False)
    ms = us // 1000
    case = _case(kind="str", us=us, tag=tag)
    run.case(case, ("str", us) if us % 1000000 else None)
    shapes = [("naive", str(naive)), ("aware", str(aware))]
    # the fraction-less / fractional shape that str() would not give for this value is produced by strftime
    if us % 1000000 == 0:
        shapes.append(("naive-frac0", naive.strftime("%Y-%m-%d %H:%M:%S.%f")))
        shapes.append(("aware-frac0", naive.strftime("%Y-%m-%d %H:%M:%S.%f") + "+00:00"))
    for name, s in shapes:
        c = dict(case, shape=name, string=s)
        try:
            e = tu.strptime_to_utc_epoch(s)
            d = csep.strptime_to_utc_datetime(s)
        except Exception as ex:
            run.oracle_failure(c, f"string parse raised {type(ex).__name__}: {ex}")
            continue
        if e != tu.datetime_to_utc_epoch(aware) or e != ms:
            run.oracle_failure(c, f"string parse: strptime_to_utc_epoch({s!r}) = {e} but datetime_to_utc_epoch = {ms}")
        if d != aware or d.tzinfo is None:
            run.oracle_failure(c, f"string parse: strptime_to_utc_datetime({s!r}) = {d!r} differs from the datetime")
        run.count(f"str:{name}")
        ctx.ask("c15_parse epoch " + esc(s), str(e), dict(c, op="c15_parse epoch"))
        ctx.ask("c15_parse dt " + esc(s), str(us_of(d)), dict(c, op="c15_parse dt"))
    ctx.ask(f"c15_str naive {us}", esc(str(naive)), dict(case, op="c15_str naive"))
    ctx.ask(f"c15_str aware {us}", esc(str(aware)), dict(case, op="c15_str aware"))
    ctx.ask(f"c15_fields {us}", ",".join(map(str, [aware.year, aware.month, aware.day, aware.hour, aware.minute,
                                                    aware.second, aware.microsecond])),
            dict(case, op="c15_fields"))
    # reader formats (csep_ascii): 'T' separator
    t = str(naive).replace(" ", "T")
    fmt = "%Y-%m-%dT%H:%M:%S.%f" if "." in t else "%Y-%m-%dT%H:%M:%S"
    try:
        e = tu.strptime_to_utc_epoch(t, format=fmt)
        if e != ms:
            run.oracle_failure(dict(case, string=t), f"string parse (reader format): {t!r} -> {e}, expected {ms}")
        ctx.ask("c15_parse reader " + t, str(e), dict(case, op="c15_parse reader", string=t))
    except Exception as ex:
        run.oracle_failure(dict(case, string=t), f"string parse (reader format) raised {type(ex).__name__}: {ex}")


# ------------------------------------------------------------------------------------------------ decimal years
DY_TOL_US = 1000   # "recovers the instant to within a millisecond"


def check_decimal_years(ctx, us_list, tag, lattice=False):
    """us_list sorted ascending. lattice=True: consecutive entries are >= 1 ms apart -> strict increase demanded."""
    from csep.utils import time_utils as tu
    run = ctx.run
    dys, invs, keep = [], [], []
    prev = None
    for u in us_list:
        case = _case(kind="decyear", us=u, tag=tag)
        run.case(case, ("dy", u))
        dt = dt_of(u, True)
        try:
            y = tu.decimal_year(dt)
            back = tu.decimal_year_to_utc_datetime(y)
            eb = tu.decimal_year_to_utc_epoch(y)
        except Exception as e:
            run.oracle_failure(case, f"decimal year raised {type(e).__name__}: {e}")
            prev = None
            continue
        y = float(y)
        ub = us_of(back)
        keep.append(u); dys.append(frac(y)); invs.append(str(ub))
        if not (dt.year <= y <= dt.year + 1):
            run.oracle_failure(case, f"decimal year {y!r} outside [{dt.year}, {dt.year + 1}]")
        if abs(ub - u) > DY_TOL_US:
            run.oracle_failure(case, f"decimal-year inverse: {dt.isoformat()} -> {y!r} -> {back.isoformat()} "
                                     f"({ub - u} us, more than 1 ms)")
        if abs(eb - u // 1000) > 1:
            run.oracle_failure(case, f"decimal-year inverse (epoch): {dt.isoformat()} -> {y!r} -> {eb}, expected "
                                     f"{u // 1000} +- 1")
        if prev is not None:
            pu, py = prev
            if u - pu >= 1000 and not (py < y):
                run.oracle_failure(_case(kind="decyear-pair", us=[pu, u], tag=tag),
                                   f"decimal year not strictly increasing: {pu} us -> {py!r}, {u} us -> {y!r}")
            elif u > pu and py > y:
                run.oracle_failure(_case(kind="decyear-pair", us=[pu, u], tag=tag),
                                   f"decimal year decreasing: {pu} us -> {py!r}, {u} us -> {y!r}")
        prev = (u, y)
    run.count(f"decyear:{tag}", len(us_list))
    for pu, pd, pi in zip(_chunks(keep, 1500), _chunks(dys, 1500), _chunks(invs, 1500)):
        ctx.ask("c15_decyear " + ",".join(map(str, pu)), pd, _case(kind="decyear", op="c15_decyear", tag=tag, inputs=pu))
        ctx.ask("c15_decyear_inv " + ",".join(pd), pi, _case(kind="decyear", op="c15_decyear_inv", tag=tag, inputs=pd))


def check_forecast_epoch(ctx, us_a, us_b):
    """CatalogForecast.start_epoch / end_epoch are datetime_to_utc_epoch of the stored datetimes"""
    from csep.core.forecasts import CatalogForecast
    run = ctx.run
    case = _case(kind="forecast", us=[us_a, us_b])
    run.case(case, ("fc", us_a, us_b))
    try:
        from csep.core.catalogs import CSEPCatalog
        fc = CatalogForecast(start_time=dt_of(us_a, True), end_time=dt_of(us_b, False),
                             catalogs=[CSEPCatalog(data=[("a", us_a // 1000, 0.0, 0.0, 0.0, 1.0)])])
        got = [str(fc.start_epoch), str(fc.end_epoch)]
    except Exception as e:
        run.oracle_failure(case, f"CatalogForecast epoch raised {type(e).__name__}: {e}")
        return
    if got != [str(us_a // 1000), str(us_b // 1000)]:
        run.oracle_failure(case, f"CatalogForecast.start_epoch/end_epoch = {got}, expected floor milliseconds")
    run.count("forecast-epoch")
    ctx.ask(f"c15_dt2ms utc {us_a},{us_b}", got, dict(case, op="c15_dt2ms"))



# ------------------------------------------------------------------------------------------------ objects with state
def _mk_dt(us, mode):
    """datetime of `us` microseconds since the epoch: naive | utc | zoneinfo | offset:<hours> (same instant)"""
    if mode == "naive":
        return dt_of(us, False)
    if mode == "utc":
        return dt_of(us, True)
    if mode == "zoneinfo":
        import zoneinfo
        return dt_of(us, False).replace(tzinfo=zoneinfo.ZoneInfo("UTC"))
    if mode.startswith("offset:"):
        tz = _dt.timezone(_dt.timedelta(hours=int(mode.split(":")[1])))
        return dt_of(us, True).astimezone(tz)
    raise ValueError(mode)


def check_object_times(ctx, obj, steps, tag, ctor=True):
    """time-derived values of an OBJECT follow its datetime attributes: assign, read, re-assign, read again.

    obj = 'catalog-forecast': steps = [[us_start, mode, us_end, mode], ...]; start_time / end_time are assigned step by
          step (the first step through the constructor when ctor), start_epoch / end_epoch are read after every
          assignment (twice, and once between the two assignments of a step): each read must equal the floor
          millisecond of the CURRENT attribute (= datetime_to_utc_epoch of it), and epoch -> datetime must give the
          attribute back when it is a whole millisecond. An 'offset:<h>' datetime must make the read raise ValueError.
    obj = 'gridded-forecast': same steps (+ a test instant as 5th entry); scale_to_test_date must scale by the
          decimal-year fraction of the CURRENT start_time / end_time.
    obj = 'catalog': steps = [[ms, ms, ...], ...] origin times assigned to catalog.catalog one after the other;
          start_time / end_time (update_catalog_stats), get_epoch_times and get_datetimes must describe the current
          events."""
    from csep.utils import time_utils as tu
    from csep.core.catalogs import CSEPCatalog
    run = ctx.run
    case = _case(kind="objtimes", obj=obj, steps=steps, ctor=ctor, tag=tag)
    run.case(case, ("objtimes", obj, json.dumps(steps), ctor, _TZ))
    run.count(f"objtimes:{obj}" + (f":tz" if _TZ else ""))
    fails = []

    def fail(msg):
        fails.append(msg)

    def read_epoch(o, name, us, mode, where):
        """one read of o.<name>_epoch against the exact value of the current attribute"""
        attr = getattr(o, name + "_time")
        try:
            got = getattr(o, name + "_epoch")
        except ValueError:
            if not mode.startswith("offset:"):
                fail(f"{where}: {name}_epoch raised ValueError for a {mode} datetime")
            return None
        except Exception as e:
            fail(f"{where}: {name}_epoch raised {type(e).__name__}: {e}")
            return None
        if mode.startswith("offset:"):
            fail(f"{where}: {name}_time has the non-UTC tzinfo {attr.tzinfo} but {name}_epoch returned {got!r} "
                 f"instead of raising ValueError")
            return None
        want = us // 1000
        if got != want or got != tu.datetime_to_utc_epoch(attr):
            fail(f"{where}: {name}_time = {attr.isoformat()} but {name}_epoch = {got!r}; datetime_to_utc_epoch of the "
                 f"attribute is {tu.datetime_to_utc_epoch(attr)} (exact floor millisecond {want})")
            return got
        back = tu.epoch_time_to_utc_datetime(got)
        if us % 1000 == 0 and us_of(back) != us:
            fail(f"{where}: {name}_epoch {got} -> {back.isoformat()} is not {name}_time {attr.isoformat()}")
        return got

    try:
        if obj == "catalog-forecast":
            from csep.core.forecasts import CatalogForecast
            cats = [CSEPCatalog(data=[("a", 0, 0.0, 0.0, 0.0, 1.0)], catalog_id=0)]
            asked = []
            fc = None
            for k, (ua, ma, ub, mb) in enumerate(steps):
                a, b = _mk_dt(ua, ma), _mk_dt(ub, mb)
                offs = ma.startswith("offset:") or mb.startswith("offset:")
                if fc is None:
                    if ctor and not offs:
                        fc = CatalogForecast(catalogs=cats, start_time=a, end_time=b, name="f")
                        thy = fc.time_horizon_years
                        want = Fraction(ub // 1000 - ua // 1000, 31557600 * 1000)
                        if abs(Fraction(float(thy)) - want) > Fraction(1, 10 ** 12) * max(1, abs(want)):
                            fail(f"step 0: time_horizon_years = {thy!r} of a fresh forecast, the window is {float(want)!r} "
                                 f"astronomical years")
                    else:
                        fc = CatalogForecast(catalogs=cats, name="f")
                        if fc.start_epoch is not None or fc.end_epoch is not None:
                            fail("a forecast without times reports epochs")
                        fc.start_time = a
                        read_epoch(fc, "start", ua, ma, f"step {k} (end_time still None)")
                        fc.end_time = b
                else:
                    fc.start_time = a
                    # between the two assignments: the start already follows, the end still is the previous one
                    read_epoch(fc, "start", ua, ma, f"step {k} (after start_time was re-assigned)")
                    pua, pma, pub, pmb = steps[k - 1]
                    read_epoch(fc, "end", pub, pmb, f"step {k} (end_time not yet re-assigned)")
                    fc.end_time = b
                for rep in (0, 1):
                    ga = read_epoch(fc, "start", ua, ma, f"step {k} read {rep}")
                    gb = read_epoch(fc, "end", ub, mb, f"step {k} read {rep}")
                if not ma.startswith("offset:") and not mb.startswith("offset:") and ga is not None and gb is not None:
                    asked.append((ua, ub, ga, gb))
                if k > 0 and not offs and "catalog-forecast:time_horizon_years-after-reassignment" not in AWAITING_DECISION:
                    want = Fraction(ub // 1000 - ua // 1000, 31557600 * 1000)
                    thy = getattr(fc, "time_horizon_years", None)
                    if thy is None or abs(Fraction(float(thy)) - want) > Fraction(1, 10 ** 12) * max(1, abs(want)):
                        fail(f"step {k}: time_horizon_years = {thy!r} after the window was re-assigned to "
                             f"{float(want)!r} astronomical years")
                elif k > 0 and not offs and hasattr(fc, "time_horizon_years"):
                    want = Fraction(ub // 1000 - ua // 1000, 31557600 * 1000)
                    if abs(Fraction(float(fc.time_horizon_years)) - want) > Fraction(1, 10 ** 12) * max(1, abs(want)):
                        run.count("awaiting-decision:time_horizon_years-stale")
            if asked:
                ctx.ask("c15_dt2ms utc " + ",".join(f"{ua},{ub}" for ua, ub, _, _ in asked),
                        [str(x) for _, _, ga, gb in asked for x in (ga, gb)], dict(case, op="c15_dt2ms"))
        elif obj == "gridded-forecast":
            import numpy
            from csep.core.forecasts import GriddedForecast
            from csep.core.regions import CartesianGrid2D
            region = CartesianGrid2D.from_origins(numpy.array([[0.0, 0.0], [0.1, 0.0]]), dh=0.1,
                                                  magnitudes=numpy.array([4.0, 5.0]))
            base = numpy.array([[1.0, 2.0], [3.0, 4.0]])
            gf = None
            for k, (ua, ma, ub, mb, ut) in enumerate(steps):
                a, b = _mk_dt(ua, ma), _mk_dt(ub, mb)
                t = _mk_dt(ut, ma)
                if gf is None and ctor:
                    gf = GriddedForecast(start_time=a, end_time=b, data=base.copy(), region=region,
                                         magnitudes=region.magnitudes, name="g")
                else:
                    if gf is None:
                        gf = GriddedForecast(data=base.copy(), region=region, magnitudes=region.magnitudes, name="g")
                    gf.start_time, gf.end_time = a, b
                if gf.start_time is not a or gf.end_time is not b:
                    fail(f"step {k}: the time attributes are not the assigned datetimes")
                gf.scale(1)
                res = gf.scale_to_test_date(t)
                # the documented scaling, from the CURRENT attributes (same float expression)
                if t >= b or t <= a:
                    want = 1.0
                else:
                    dur = tu.decimal_year(b) - tu.decimal_year(a)
                    want = (tu.decimal_year(t + _dt.timedelta(1)) - tu.decimal_year(a)) / dur
                got = float(numpy.sum(res.data)) / float(numpy.sum(base))
                if not (abs(got - want) <= 1e-12 * max(1.0, abs(want))):
                    fail(f"step {k}: scale_to_test_date({t.isoformat()}) scales by {got!r}; the decimal-year fraction of "
                         f"the current window {a.isoformat()} .. {b.isoformat()} is {want!r}")
        elif obj == "catalog":
            cat = None
            for k, mss in enumerate(steps):
                rows = [(str(i), m, 0.0, 0.0, 0.0, 1.0) for i, m in enumerate(mss)]
                if cat is None and ctor:
                    cat = CSEPCatalog(data=rows)
                else:
                    if cat is None:
                        cat = CSEPCatalog(data=[("z", 86400000, 0.0, 0.0, 0.0, 1.0)])
                        _ = cat.get_datetimes(), cat.start_time
                    cat.catalog = rows          # the setter re-computes the statistics
                for rep in (0, 1):
                    if rep == 1:
                        cat.update_catalog_stats()
                    ep = [int(x) for x in cat.get_epoch_times()]
                    if ep != list(mss):
                        fail(f"step {k}: get_epoch_times {ep} are not the assigned origin times {list(mss)}")
                    dts = cat.get_datetimes()
                    if [us_of(d) for d in dts] != [1000 * m for m in mss]:
                        fail(f"step {k}: get_datetimes {[d.isoformat() for d in dts]} do not describe the current events")
                    for name, want in (("start_time", min(mss) if mss else None), ("end_time", max(mss) if mss else None)):
                        got = getattr(cat, name)
                        if want is None:
                            if got is not None:
                                fail(f"step {k}: {name} of an empty catalog is {got!r}")
                        elif got is None or got.tzinfo is None or us_of(got) != 1000 * want \
                                or tu.datetime_to_utc_epoch(got) != want:
                            fail(f"step {k}: {name} = {got!r} but the current events "
                                 f"{'start' if name == 'start_time' else 'end'} at {want} ms")
                if mss:
                    ctx.ask(f"c15_ms2dt {min(mss)},{max(mss)}", [str(us_of(cat.start_time)), str(us_of(cat.end_time))],
                            dict(case, op="c15_ms2dt"))
        else:
            raise ValueError(obj)
    except Exception as e:
        fail(f"{obj}: {type(e).__name__}: {e}")
    for f in fails[:1]:
        run.oracle_failure(case, f)


def gen_object_times(rng, obj):
    """(steps, ctor) for check_object_times: 2..4 re-assignments, boundary-directed instants"""
    def inst():
        r = rng.random()
        if r < 0.25:
            return rng.choice([0, -1000, 1000, -1, 999, -86400000000, year_start_ms(2000) * 1000,
                               year_start_ms(2038) * 1000 - 1000, -1097606850620 * 1000]) + rng.choice([0, 0, 1, 999, 1000])
        if r < 0.6:
            return rng.randrange(MS_LO, MS_HI) * 1000
        return rng.randrange(MS_LO * 1000, MS_HI * 1000)

    def mode(allow_offset):
        r = rng.random()
        if allow_offset and r < 0.08:
            return "offset:" + str(rng.choice([-8, -5, 1, 9]))
        return rng.choice(["naive", "utc", "zoneinfo"])
    n = rng.randint(2, 4)
    ctor = rng.random() < 0.7
    steps = []
    if obj == "catalog":
        for _ in range(n):
            k = rng.choice([0, 1, 1, 2, 3, 5])
            steps.append([rng.randrange(MS_LO, MS_HI) if rng.random() < 0.8 else rng.choice([0, -1, 1, 999, -1000])
                          for _ in range(k)])
        return steps, ctor
    for _ in range(n):
        a = inst()
        b = a + rng.choice([1000, 86400 * 10 ** 6, rng.randrange(1, 10 ** 13)])
        b = min(b, MS_HI * 1000)
        if obj == "gridded-forecast":
            m = rng.choice(["naive", "utc"])
            ut = rng.choice([a - 10 ** 6, a, b, b + 10 ** 6, a + (b - a) // 2, a + (b - a) // 3, rng.randrange(a, b + 1)])
            ut = max(MS_LO * 1000, min(ut, (MS_HI - 2 * 86400000) * 1000))
            steps.append([a, m, b, m, ut])
        else:
            steps.append([a, mode(True), b, mode(True)])
    return steps, ctor


# ------------------------------------------------------------------------------------------------ driver
def _corpus(ctx):
    d = os.path.join(VERIF, "corpus", "C15")
    ms = [-1097606850620]
    if os.path.isdir(d):
        for fn in sorted(os.listdir(d)):
            if fn.endswith(".json"):
                try:
                    c = json.load(open(os.path.join(d, fn)))
                    c = c.get("case", c)
                    if "ms" in c and isinstance(c["ms"], int):
                        ms.append(c["ms"])
                    elif c.get("kind") == "objtimes":
                        with local_tz(c.get("tz")):
                            check_object_times(ctx, c["obj"], c["steps"], "corpus", c.get("ctor", True))
                except Exception:
                    pass
    ms = sorted(set(ms))
    check_ms_values(ctx, ms, "corpus")
    check_dt_values(ctx, [1000 * m for m in ms], "corpus", "utc")
    for m in ms:
        check_strings(ctx, 1000 * m, "corpus")


def run(run, rng, tier):
    quick = tier == "quick"
    ctx = Ctx(run)
    _corpus(ctx)

    # -- uniform milliseconds
    n_uni = 200000 if quick else 2000000
    uni = [rng.randrange(MS_LO, MS_HI + 1) for _ in range(n_uni)]
    third = n_uni // 10
    check_ms_values(ctx, uni[:third], "uniform", via="catalog")
    check_ms_values(ctx, uni[third:2 * third], "uniform", via="int64")
    check_ms_values(ctx, uni[2 * third:], "uniform", via="func")
    check_ms_values(ctx, [MS_LO, MS_LO + 1, MS_HI - 1, MS_HI, 0, 1, -1, 999, 1000, -999, -1000, -1001], "edges")
    ctx.flush()

    # -- complete windows around boundaries
    W = 2000
    years_all = list(range(1900, 2201))
    chosen = sorted(set([1900, 1901, 1904, 1969, 1970, 1971, 2000, 2001, 2038, 2100, 2200] +
                        rng.sample(years_all, 4 if quick else 30)))
    centres = [("epoch", 0)]
    for y in chosen:
        centres.append((f"year", year_start_ms(y)))
    for _ in range(8 if quick else 40):
        y = rng.choice(years_all[:-1])
        day = rng.randrange(0, 365)
        centres.append(("day", year_start_ms(y) + day * 86400000))
    for y in (1900, 1904, 2000, 2100, 2096):   # 28 Feb / 1 Mar
        centres.append(("day", us_of(_dt.datetime(y, 3, 1, tzinfo=UTC)) // 1000))
    for _ in range(8 if quick else 40):
        centres.append(("second", rng.randrange(MS_LO // 1000, MS_HI // 1000) * 1000))
    win_us = []
    for name, c in centres:
        lo, hi = max(c - W, MS_LO - W), c + W
        ms_list = list(range(lo, hi + 1))
        check_ms_values(ctx, ms_list, f"window-{name}", sorted_window=True)
        win_us.append((name, c))
    ctx.flush()
    run.extra["windows"] = len(centres)
    run.extra["window_half_width_ms"] = W

    # -- every microsecond phase of sampled datetimes; naive / utc / zoneinfo
    n_ph = 60 if quick else 1000
    bases = [0, -1000, MS_LO * 1000, (MS_HI - 1) * 1000, -1097606850620 * 1000]
    bases += [c * 1000 - 1000 for name, c in rng.sample(centres, min(len(centres), 10))]
    while len(bases) < n_ph:
        bases.append(rng.randrange(MS_LO, MS_HI) * 1000)
    modes = ["naive", "utc", "zoneinfo"]
    for k, b in enumerate(bases):
        check_dt_values(ctx, list(range(b, b + 2001 if k < 15 else b + 1000)), "phase", modes[k % 3], sorted_window=True)
    # whole-ms datetimes, uniform
    whole = [rng.randrange(MS_LO, MS_HI) * 1000 for _ in range(20000 if quick else 200000)]
    check_dt_values(ctx, whole[::2], "whole-ms", "utc")
    check_dt_values(ctx, whole[1::2], "whole-ms", "naive")
    any_us = sorted(rng.randrange(MS_LO * 1000, MS_HI * 1000) for _ in range(20000 if quick else 200000))
    check_dt_values(ctx, any_us, "uniform-us", "utc", sorted_window=True)
    for _ in range(50 if quick else 500):
        check_tz_reject(ctx, rng.randrange(MS_LO * 1000, MS_HI * 1000),
                        rng.choice([-12, -8, -5, -1, 1, 2, 5, 9, 14]))
    for _ in range(10 if quick else 100):
        a = rng.randrange(MS_LO * 1000, MS_HI * 1000)
        check_forecast_epoch(ctx, a, a + rng.randrange(1, 10 ** 13))
    # -- objects with state: the epoch / datetime values they report follow their current attributes
    for _ in range(150 if quick else 3000):
        for obj in ("catalog-forecast", "gridded-forecast", "catalog"):
            steps, ctor = gen_object_times(rng, obj)
            check_object_times(ctx, obj, steps, "objects", ctor)
    ctx.flush()

    # -- strings
    n_str = 1500 if quick else 30000
    for i in range(n_str):
        k = i % 5
        if k == 0:
            u = rng.randrange(MS_LO // 1000, MS_HI // 1000) * 1000000          # whole second: no fraction
        elif k == 1:
            u = rng.randrange(MS_LO, MS_HI) * 1000                               # whole ms
        elif k == 2:
            u = rng.randrange(MS_LO * 1000, MS_HI * 1000)                        # any microsecond
        elif k == 3:
            u = rng.choice(centres)[1] * 1000 + rng.choice([-1000000, -1000, -1, 0, 1, 1000, 999999])
        else:
            u = rng.randrange(MS_LO // 1000, MS_HI // 1000) * 1000000 + rng.choice([1, 10, 100, 1000, 10000, 100000,
                                                                                     999999, 500000, 123456])
        check_strings(ctx, u, "strings")
    ctx.flush()

    # -- decimal years
    dyears = sorted(set([1900, 1903, 1904, 1999, 2000, 2001, 2099, 2100, 2199] + rng.sample(years_all[:-1], 2 if quick else 20)))
    WY = 1500 if quick else 2000
    for y in dyears:
        c = year_start_ms(y + 1)
        lat = [1000 * m for m in range(c - WY, c + WY + 1) if MS_LO <= m <= MS_HI]
        check_decimal_years(ctx, lat, "lattice-year-end", lattice=True)
        # last microseconds of the year and first of the next
        check_decimal_years(ctx, [u for u in range(c * 1000 - 300, c * 1000 + 300) if u <= MS_HI * 1000], "us-year-end")
    for y in (1900, 1904, 2000, 2100, 2024):   # end of February
        c = us_of(_dt.datetime(y, 3, 1, tzinfo=UTC)) // 1000
        check_decimal_years(ctx, [1000 * m for m in range(c - 300, c + 301)], "lattice-feb-end", lattice=True)
    uni_us = sorted(set(rng.randrange(MS_LO, MS_HI) * 1000 + rng.choice([0, 0, rng.randrange(1000)])
                        for _ in range(30000 if quick else 600000)))
    check_decimal_years(ctx, uni_us, "uniform")
    ctx.flush()
    run.extra["decimal_year_lattice_years"] = dyears

    # -- a sample of ALL of the above under non-UTC LOCAL time zones: nothing may depend on the zone of the machine
    zones = LOCAL_ZONES + ([] if quick else LOCAL_ZONES_THOROUGH)
    for zone in zones:
        with local_tz(zone):
            _sample_all(ctx, rng, quick, centres)
            ctx.flush()
    run.extra["local_time_zones"] = zones
    run.extra["awaiting_decision"] = list(AWAITING_DECISION)
    run.assumptions.append("os.name != 'nt' (the Windows branch of epoch_time_to_utc_datetime is not exercised)")


def _sample_all(ctx, rng, quick, centres):
    """a sample of every class of case (run under the LOCAL time zone currently set)"""
    import time
    k = 1 if quick else 5
    zone = _TZ or "default"
    # local-time discontinuities of the zone in 2021 (daylight-saving gap / fold), as UTC instants and as naive
    # wall-clock values, besides the epoch and a year start
    dst = [us_of(_dt.datetime(2021, 3, 14, 10, 0, tzinfo=UTC)) // 1000, us_of(_dt.datetime(2021, 11, 7, 9, 0, tzinfo=UTC)) // 1000,
           us_of(_dt.datetime(2021, 3, 14, 2, 30, tzinfo=UTC)) // 1000, us_of(_dt.datetime(2021, 11, 7, 1, 30, tzinfo=UTC)) // 1000,
           us_of(_dt.datetime(2021, 3, 28, 1, 30, tzinfo=UTC)) // 1000]
    uni = [rng.randrange(MS_LO, MS_HI + 1) for _ in range(1500 * k)]
    check_ms_values(ctx, uni[0::3], f"tz-uniform", via="func")
    check_ms_values(ctx, uni[1::3], f"tz-uniform", via="catalog")
    check_ms_values(ctx, uni[2::3], f"tz-uniform", via="int64")
    for c in [0, year_start_ms(2038), rng.choice(centres)[1]] + rng.sample(dst, 2):
        check_ms_values(ctx, list(range(c - 150, c + 151)), "tz-window", sorted_window=True)
    bases = [0, -1000, -1097606850620 * 1000] + [1000 * m for m in dst] + \
            [rng.randrange(MS_LO, MS_HI) * 1000 for _ in range(4 * k)]
    for i, b in enumerate(bases):
        check_dt_values(ctx, list(range(b - 200, b + 800)), "tz-phase", ["naive", "utc", "zoneinfo"][i % 3],
                        sorted_window=True)
    whole = [rng.randrange(MS_LO, MS_HI) * 1000 for _ in range(1500 * k)]
    check_dt_values(ctx, whole[::2], "tz-whole-ms", "naive")
    check_dt_values(ctx, whole[1::2], "tz-whole-ms", "utc")
    for _ in range(10 * k):
        check_tz_reject(ctx, rng.randrange(MS_LO * 1000, MS_HI * 1000), rng.choice([-12, -8, -5, -1, 1, 2, 5, 9, 14]))
    for _ in range(4 * k):
        a = rng.randrange(MS_LO * 1000, MS_HI * 1000)
        check_forecast_epoch(ctx, a, a + rng.randrange(1, 10 ** 13))
    for _ in range(15 * k):
        for obj in ("catalog-forecast", "gridded-forecast", "catalog"):
            steps, ctor = gen_object_times(rng, obj)
            check_object_times(ctx, obj, steps, "tz-objects", ctor)
    for i in range(120 * k):
        u = [rng.randrange(MS_LO // 1000, MS_HI // 1000) * 1000000, rng.randrange(MS_LO, MS_HI) * 1000,
             rng.randrange(MS_LO * 1000, MS_HI * 1000), rng.choice(dst) * 1000 + rng.choice([-1, 0, 1, 1000, 999999]),
             rng.choice(centres)[1] * 1000 + rng.choice([-1000000, -1000, -1, 0, 1, 1000, 999999])][i % 5]
        check_strings(ctx, u, "tz-strings")
    y = rng.choice([1999, 2003, 2023, 2099])
    c = year_start_ms(y + 1)
    check_decimal_years(ctx, [1000 * m for m in range(c - 200, c + 201)], "tz-lattice-year-end", lattice=True)
    check_decimal_years(ctx, list(range(c * 1000 - 100, c * 1000 + 100)), "tz-us-year-end")
    for m in rng.sample(dst, 2):
        check_decimal_years(ctx, [1000 * x for x in range(m - 100, m + 101)], "tz-lattice-dst", lattice=True)
    check_decimal_years(ctx, sorted(set(rng.randrange(MS_LO, MS_HI) * 1000 + rng.choice([0, rng.randrange(1000)])
                                        for _ in range(1200 * k))), "tz-uniform")
    ctx.run.count(f"local-tz:{zone}:utcoffset-now={-time.timezone}")


def replay(run, payload):
    case = payload.get("case") or {}
    with local_tz(case.get("tz")):
        _replay(run, case)


def _replay(run, case):
    ctx = Ctx(run)
    kind = case.get("kind")
    if kind == "objtimes":
        check_object_times(ctx, case["obj"], case["steps"], "replay", case.get("ctor", True))
    elif kind == "ms":
        check_ms_values(ctx, [int(case["ms"])], "replay")
    elif kind == "ms-pair":
        check_ms_values(ctx, [int(x) for x in case["ms"]], "replay", sorted_window=True)
    elif kind == "dt":
        check_dt_values(ctx, [int(case["us"])], "replay", case.get("mode", "utc"))
    elif kind == "dt-pair":
        check_dt_values(ctx, [int(x) for x in case["us"]], "replay", case.get("mode", "utc"), sorted_window=True)
    elif kind == "tz":
        check_tz_reject(ctx, int(case["us"]), int(case["offset_hours"]))
    elif kind == "str":
        check_strings(ctx, int(case["us"]), "replay")
    elif kind == "decyear":
        check_decimal_years(ctx, [int(case["us"])], "replay")
    elif kind == "decyear-pair":
        check_decimal_years(ctx, [int(x) for x in case["us"]], "replay", lattice=True)
    elif kind == "forecast":
        check_forecast_epoch(ctx, int(case["us"][0]), int(case["us"][1]))
    else:
        _corpus(ctx)
    ctx.flush()
