"""C09 — empirical quantiles: correspondence of csep.utils.stats with Model/Ecdf.lean + direct oracle."""
import itertools
from fractions import Fraction

import numpy

from .core import Driver, flist, frac

LEVEL_TEXT = ("Proof: ge/le empirical probabilities equal #{x_i>=v}/n and #{x_i<=v}/n for every non-empty finite sample and "
              "every query (induction over lists, kernel-checked), with the sum, bound and monotonicity corollaries; tied to the "
              "code by an exhaustive correspondence over all multisets of size <=7 over 6 letters x 13 queries plus random "
              "large samples with heavy ties.")
LEVEL_NOTE = ("numpy.sort / numpy.searchsorted are modelled by their specification (sorted permutation, insertion point); the "
              "float returned by the library is compared to Python's k/n exactly.")
DESIGN_REF = "DESIGN.md §4 C09"

THEOREMS = ["Ecdf.ge_ecdf_eq", "Ecdf.le_ecdf_eq", "Ecdf.ecdf_sum", "Ecdf.ge_anti", "Ecdf.le_mono",
            "Ecdf.empty_none", "Ecdf.quantiles_eq", "Ecdf.cnt_le_length", "Ecdf.binned_ecdf_eq",
            "Ecdf.quantiles_sum_ge", "Ecdf.above_all", "Ecdf.below_all", "Ecdf.perm_invariant"]
TRUSTED = ["Lean 4.33 kernel", "axioms: propext, Classical.choice, Quot.sound at most",
           "numpy.sort returns the sorted permutation and numpy.searchsorted the left/right insertion point "
           "(modelled as List.mergeSort / takeWhile-length)",
           "harness/c09.py generators and comparison; driver parsing (Proto.lean)"]
RULE = ("exhaustive: every multiset of size 1..7 over two 6-letter alphabets (1..6 and -3..2) x 13 query points (on, between, below, "
        "above); random: large samples with heavy ties, int and float dtypes, list and ndarray inputs; a case is "
        "non-trivial when the sample has a tie or the query equals a sample value; distinct by (sample, query)")


def _impl(x, v, as_list):
    from csep.utils import stats
    arg = list(x) if as_list else numpy.asarray(x)
    ge = stats.greater_equal_ecdf(arg, v)
    le = stats.less_equal_ecdf(arg, v)
    q = stats.get_quantiles(arg, v)
    return ge, le, q


def _check_case(run, drv, pending, x, v, as_list, tag):
    n = len(x)
    case = dict(x=[repr(t) for t in x] if n <= 12 else f"<{n} values>", v=repr(v), as_list=as_list, tag=tag)
    try:
        ge, le, q = _impl(x, v, as_list)
    except Exception as e:  # the property promises a value for every non-empty sample
        run.oracle_failure(dict(case, x=[repr(t) for t in x]), f"exception {type(e).__name__}: {e}")
        return
    fx = [Fraction(t) for t in x]
    fv = Fraction(v)
    kge = sum(1 for t in fx if t >= fv)
    kle = sum(1 for t in fx if t <= fv)
    keq = sum(1 for t in fx if t == fv)
    nontriv = (len(set(fx)) < n) or keq > 0
    run.case(case, (tuple(fx), fv) if nontriv else None)
    run.count("query_on_value" if keq else ("below" if kle == 0 else ("above" if kge == 0 else "between")))
    # direct oracle: exact float k/n
    if not (ge == kge / n and le == kle / n and q[0] == ge and q[1] == le):
        run.oracle_failure(dict(case, x=[repr(t) for t in x]),
                           f"ge={ge!r} le={le!r} quantiles={q!r} expected {kge}/{n} {kle}/{n}")
    i = drv.ask(f"ge_ecdf {flist(x)} {frac(v)}")
    j = drv.ask(f"le_ecdf {flist(x)} {frac(v)}")
    pending.append((case, i, j, ge, le, n))


def _flush(run, drv, pending):
    out = drv.run()
    for case, i, j, ge, le, n in pending:
        def val(s):
            k, m = s.split(":")
            return int(k) / int(m)
        try:
            mge, mle = val(out[i]), val(out[j])
        except Exception:
            mge = mle = None
        if mge != ge or mle != le:
            run.mismatch(case, [ge, le], [out[i], out[j]])


def run(run, rng, tier):
    drv, pending = Driver(), []
    # empty sample: the library returns None
    from csep.utils import stats
    if stats.greater_equal_ecdf([], 1.0) is not None or stats.less_equal_ecdf(numpy.array([]), 1.0) is not None:
        run.oracle_failure(dict(x=[], v=1.0), "empty sample must give None")
    run.case(dict(x=[], v=1.0), None)
    # exhaustive part
    n_ex = 0
    # two 6-letter alphabets: positive, and one crossing zero (negative values and negative non-integer queries)
    for letters in ([1, 2, 3, 4, 5, 6], [-3, -2, -1, 0, 1, 2]):
        queries = [letters[0] - 0.5 + 0.5 * i for i in range(13)]  # on, between, below, above
        for size in range(1, 8):
            for ms in itertools.combinations_with_replacement(letters, size):
                ms = list(ms)
                rng.shuffle(ms)
                as_float = rng.random() < 0.5
                x = [float(t) for t in ms] if as_float else ms
                for v in queries:
                    _check_case(run, drv, pending, x, v if as_float or v != int(v) else int(v),
                                rng.random() < 0.5, "exhaustive")
                    n_ex += 1
    run.extra["exhaustive_cases"] = n_ex
    run.extra["exhaustive"] = True
    # random part: heavy ties, large, float values that are not integers
    nrand = 300 if tier == "quick" else 3000
    for _ in range(nrand):
        n = rng.choice([1, 2, 3, 10, 100, 1000, 5000 if tier == "quick" else 10000])
        kind = rng.choice(["int", "decimal", "float"])
        if kind == "int":
            pool = [rng.randrange(-5, 50) for _ in range(rng.randint(1, 20))]
        elif kind == "decimal":
            pool = [round(rng.uniform(-3, 9), 1) for _ in range(rng.randint(1, 20))]
        else:
            pool = [rng.uniform(-1e3, 1e3) for _ in range(rng.randint(1, 50))]
        x = [rng.choice(pool) for _ in range(n)]
        lo, hi = min(pool), max(pool)
        qs = [rng.choice(pool), rng.choice(pool), lo, hi, lo - 1, hi + 1, (lo + hi) / 2,
              numpy.nextafter(rng.choice(pool), numpy.inf), numpy.nextafter(rng.choice(pool), -numpy.inf)]
        for v in rng.sample(qs, 3):
            _check_case(run, drv, pending, x, float(v) if kind != "int" else v, rng.random() < 0.3, "random-" + kind)
    _flush(run, drv, pending)
    _binned(run, rng, tier)


def _binned(run, rng, tier):
    """binned_ecdf / ecdf: every entry is the "at most" probability at that query value"""
    from csep.utils import stats
    drv, pend = Driver(), []
    if stats.binned_ecdf([], [1.0, 2.0]) is not None:
        run.oracle_failure(dict(x=[], vals=[1.0, 2.0]), "binned_ecdf of an empty sample must be None")
    for _ in range(60 if tier == "quick" else 600):
        n = rng.randint(1, 60)
        pool = [round(rng.uniform(0, 20), 1) for _ in range(rng.randint(1, 12))]
        x = [rng.choice(pool) for _ in range(n)]
        vals = sorted(set([rng.choice(pool) for _ in range(4)] + [min(pool) - 1.0, max(pool) + 1.0,
                                                                  round(rng.uniform(0, 20), 2)]))
        case = dict(x=[repr(t) for t in x], vals=[repr(v) for v in vals], tag="binned")
        run.case(case, ("binned", tuple(x), tuple(vals)))
        try:
            got = stats.binned_ecdf(numpy.array(x), numpy.array(vals))
            ex, ey = stats.ecdf(numpy.array(x))
        except Exception as e:
            run.oracle_failure(case, f"exception {type(e).__name__}: {e}")
            continue
        fx = [Fraction(t) for t in x]
        want = [sum(1 for t in fx if t <= Fraction(v)) / n for v in vals]
        if list(got[1]) != want or list(got[0]) != vals:
            run.oracle_failure(case, f"binned_ecdf={list(got[1])!r} expected {want!r}")
        if list(ex) != sorted(x) or list(ey) != [(i + 1) / n for i in range(n)]:
            run.oracle_failure(case, "ecdf(x) is not (sorted x, (1..n)/n)")
        pend.append((case, drv.ask(f"binned_ecdf {flist(x)} {flist(vals)}"), list(got[1])))
    out = drv.run()
    for case, i, got in pend:
        try:
            model = [int(t.split(":")[0]) / int(t.split(":")[1]) for t in out[i].split(",")]
        except Exception:
            model = None
        if model != got:
            run.mismatch(case, got, out[i])


def replay(run, payload):
    case = payload["case"]
    if case.get("tag") == "binned" or "vals" in case:
        from csep.utils import stats
        x = [float(t) for t in case["x"]]; vals = [float(t) for t in case["vals"]]
        n = len(x)
        if n == 0:
            if stats.binned_ecdf([], vals) is not None:
                run.oracle_failure(case, "binned_ecdf of an empty sample must be None")
            return
        got = stats.binned_ecdf(numpy.array(x), numpy.array(vals))
        want = [sum(1 for t in x if Fraction(t) <= Fraction(v)) / n for v in vals]
        run.case(case, None)
        if list(got[1]) != want:
            run.oracle_failure(case, f"binned_ecdf={list(got[1])!r} expected {want!r}")
        return
    if not case.get("x"):
        from csep.utils import stats
        if stats.greater_equal_ecdf([], 1.0) is not None:
            run.oracle_failure(case, "empty sample must give None")
        return
    x = [float(t) if "." in t or "e" in t or "inf" in t else int(t) for t in case["x"]]
    v = float(case["v"]) if "." in case["v"] else int(case["v"])
    drv, pending = Driver(), []
    _check_case(run, drv, pending, x, v, case.get("as_list", False), "replay")
    _flush(run, drv, pending)
