"""C09 — empirical quantiles: correspondence of csep.utils.stats with Model/Ecdf.lean + direct oracle."""
import bisect
import contextlib
import math
import os
import zlib
import itertools
from fractions import Fraction

import numpy

from .core import Driver, flist, frac

LEVEL_TEXT = ("Proof: ge/le empirical probabilities equal #{x_i>=v}/n and #{x_i<=v}/n for every non-empty finite sample and "
              "every query (induction over lists, kernel-checked), with the sum, bound and monotonicity corollaries; tied to the "
              "code by an exhaustive correspondence over all multisets of size <=7 over 6 letters x 13 queries plus random "
              "large samples with heavy ties, and by dtype classes (every integer / float sample dtype x every way of passing the "
              "query; 64-bit integers beyond 2**53 compared as exact integers). The same clause is proved for the code statement "
              "by statement on the arrays it builds (sorted array, arange/n, reversed array, Python subscripts, the cdf= argument, "
              "numpy's binary-search loop - proved to return the insertion point -, +-inf queries), and numpy's promotion table "
              "is part of the model (compared with numpy.result_type on all dtype pairs on every run).")
LEVEL_NOTE = ("numpy.sort is modelled by its specification (sorted permutation); numpy.searchsorted is modelled as the binary-search "
              "loop of numpy's binsearch.cpp and PROVED to return the insertion point on every sorted array; the arrays of ecdf(), "
              "the reversed array, Python subscripts (negative index, IndexError), the cdf= argument and binned_ecdf's shared "
              "ecdf are modelled statement by statement (Model/EcdfCode.lean) and proved to give #{x>=v}/n, #{x<=v}/n, also "
              "for +-inf queries; the "
              "float returned by the library is compared to Python's k/n to rounding (1e-12; a miscount moves it by >= 5e-6) and, "
              "as a statistic, bit for bit to the Soft64 division of the model. Outside the property and therefore recorded, not "
              "judged: empty samples, nan queries, a cdf= of another sample, argument forms the docstrings do not promise when they "
              "are rejected with an error. "
              "numpy's type promotion is modelled by a second layer (Model/EcdfNumpy.lean: conversion applied by the "
              "short-circuit comparisons, conversion applied by searchsorted; Model/EcdfPromote.lean: WHICH conversions, as a "
              "function of the sample dtype and the kind of query - numpy.result_type as a table, proved to lose values "
              "exactly for 64-bit integers meeting float64): with one common dtype it is proved equal to "
              "the exact model, with a lossy search domain it is proved to return the exact count plus the collisions; the "
              "two input sub-classes where promotion makes the unchanged library miss the property are known findings "
              "D35/D36 (reported with their signature; kernel-checked witnesses on the faithful model; on every run the "
              "faithful model is compared with the library's actual outputs on those classes, see extra.np_layer)."
              " A third known finding, D48: a sample given as a list / tuple of Python ints straddling 2**63 is turned into "
              "float64 by numpy.asarray (Model/EcdfPromote.lean listDom / listSample; kernel-checked witness "
              "Ecdf.finding_list_straddling_2p63; corpus/C09 witnesses run first); membership is structural (the list becomes "
              "float64 and a value involved is not a float64 value), every other list of Python ints is judged as usual.")
DESIGN_REF = "DESIGN.md §4 C09"

THEOREMS = ["Ecdf.ge_ecdf_eq", "Ecdf.le_ecdf_eq", "Ecdf.ecdf_sum", "Ecdf.ge_anti", "Ecdf.le_mono",
            "Ecdf.empty_none", "Ecdf.quantiles_eq", "Ecdf.cnt_le_length", "Ecdf.binned_ecdf_eq",
            "Ecdf.quantiles_sum_ge", "Ecdf.above_all", "Ecdf.below_all", "Ecdf.perm_invariant", "Ecdf.int_data_exact",
            # Properties/C09_Numpy.lean: promotion-aware layer, returned floats, sup_dist_na, min/max_or_none
            "Ecdf.np_exact_common_dtype", "Ecdf.np_ge_lossy_search", "Ecdf.np_le_lossy_search", "Ecdf.np_out_of_range_exact",
            "Ecdf.np_injective_exact", "Ecdf.fl64_is_mono", "Ecdf.finding_D35_le", "Ecdf.finding_D35_ge",
            "Ecdf.finding_D36_le_wraps", "Ecdf.finding_D36_ge_indexError", "Ecdf.prob_float_mono", "Ecdf.prob_float_bounds",
            "Ecdf.ge_float_anti", "Ecdf.le_float_mono", "Ecdf.min_or_none_spec", "Ecdf.max_or_none_spec",
            "Ecdf.extremes_have_probability_one", "Ecdf.sup_dist_na_spec",
            # Properties/C09_Code.lean: the code on the arrays it builds (reversed array, Python subscripts, cdf= argument,
            # numpy's binary search as a loop, +-inf / nan queries)
            "Ecdf.searchsorted_is_insertion_point", "Ecdf.ge_code_eq", "Ecdf.le_code_eq", "Ecdf.code_empty_none",
            "Ecdf.code_refines_pair_model", "Ecdf.code_infinite_query", "Ecdf.code_nan_query", "Ecdf.cdf_arg_own",
            "Ecdf.cdf_arg_wins", "Ecdf.binned_code_eq", "Ecdf.quantiles_code_sum", "Ecdf.ge_code_anti", "Ecdf.le_code_mono",
            "Ecdf.np_int_below_2p53_exact",
            # Properties/C09_Promote.lean: numpy's promotion table inside the model
            "Ecdf.resultType_comm", "Ecdf.resultType_idem", "Ecdf.resultType_lossy_iff", "Ecdf.np_int_dtype_pairs_exact",
            "Ecdf.np_int_sample_below_2p53_exact", "Ecdf.listSample_exact", "Ecdf.finding_list_straddling_2p63",
            "Ecdf.np_ge_characterised", "Ecdf.np_le_characterised", "Ecdf.np_same_domain_no_indexError",
            # Properties/C09_Inf.lean: samples that contain -inf / +inf (order embedding)
            "Ecdf.embed_le_iff", "Ecdf.inf_sample_counts", "Ecdf.inf_sample_code_eq"]
TRUSTED = ["Lean 4.33 kernel", "axioms: propext, Classical.choice, Quot.sound at most",
           "numpy.sort returns the sorted permutation (modelled as List.mergeSort); numpy.searchsorted runs the binary-search loop "
           "of numpy/_core/src/npysort/binsearch.cpp for one key (modelled as Ecdf.bsearch; insertion point proved)",
           "numpy's promotion rules as encoded in the MODEL (Model/EcdfPromote.lean: result_type table, NEP 50 weak scalars, exact "
           "mixed-sign integer comparison loops, asarray of a Python int) - the table is compared with numpy.result_type on all "
           "121 dtype pairs on every run (coverage.promotion_table) and the promotion-aware model with the library's actual "
           "outputs (coverage.np_layer); the harness only passes dtype NAMES",
           "harness/c09.py generators and comparison; driver parsing (Proto.lean)"]
RULE = ("exhaustive: every multiset of size 1..7 over two 6-letter alphabets (1..6 and -3..2) x 13 query points (on, between, below, "
        "above); random: large samples with heavy ties, int and float dtypes, list and ndarray inputs; dtype classes: every "
        "sample dtype uint8..uint64, int8..int64, float16/32/64 x query kinds (Python int / float, numpy scalar of every integer "
        "and float dtype that holds the value) over small alphabets, the dtype's extreme values, and 64-bit integers beyond "
        "+-2**53 that differ by less than the float64 spacing (compared as exact Python integers); binned_ecdf over the same "
        "dtypes; queries also as 0-d arrays; samples also behind strided / negative-stride / read-only / byte-swapped "
        "layouts; +-inf queries; histories on one array object changed in place between lookups (refill, single entry, "
        "*= 2, in-place sort, progressive fill, append to a list, a new object in place of a dropped one); samples of "
        "65537..200003 values with counts above 65535; float pools with subnormal / 1e-300 / -0.0 / 1e300 values; sup_dist_na / sup_dist on two samples with ties within and between them; "
        "min_or_none / max_or_none over all dtypes incl. empty input; argument forms: samples as list / tuple / ndarray / ndarray "
        "subclass / pandas Series with a non-default index / range / array.array / deque, keyword calls of all four public "
        "functions, cdf= as the documented tuple, as a list, as Python lists, as (), binned_ecdf with list / tuple / array query "
        "points, +-inf queries of every float type (verdict); nan queries and the ecdf of another sample as cdf= (statistic: "
        "prediction of the statement-level model); "
        "real-valued samples that CONTAIN -inf / +inf (ties at -inf, all-infinite samples, queries at +-inf and finite) through "
        "get_quantiles and the three direct functions; aliasing: the arrays ecdf() / binned_ecdf() return are overwritten in "
        "place by the caller (scale, zero, minus one, reverse sort), then lookups on the same sample, another sample of the "
        "same length and one of another length must be unchanged; the caller's sample bit for bit unmodified after every lookup; "
        "a case is non-trivial when the sample has a tie or the query equals a sample value; distinct by (sample, query)")

# Sub-classes of the dtype generators on which the UNCHANGED library violates the property: known findings D35 / D36 of
# /verif/known_findings.json (signature "ecdf:<name>"). Cases of a listed sub-class ARE evaluated: a wrong answer or an
# exception there is reported with that signature (-> KNOWN-FINDING line), a right answer is compared with the model as
# usual. AWAITING_DECISION stays empty unless a new candidate is parked (D48 was parked there until it was decided).
AWAITING_DECISION = []
KNOWN_FINDING_CLASSES = [
    # integer sample and query whose numpy common dtype is a float (int64 x uint64, uint64 x Python int, integer x float
    # query) while a sample value or the query is not exactly representable in it (|t| > 2**53): numpy.searchsorted
    # compares the rounded values
    "integer-comparison-promoted-to-lossy-float",
    # float16/float32 sample with a Python int/float query that is not representable in the sample's dtype and lies
    # within half a spacing outside the sample's extremes: the two short-circuit comparisons round the (weak) Python
    # scalar to the sample dtype, numpy.searchsorted compares in float64 -> index -1 / n
    "narrow-float-sample-weak-python-query",
    # D48: a sample handed over as a list / tuple / deque of Python ints of which some are >= 2**63 and some smaller:
    # numpy.asarray makes it float64 (int64-typed and uint64-typed entries promote to float64), so neighbours beyond 2**53
    # collapse before the library compares anything. Membership is structural (`_list_class`): the list becomes float64
    # AND a sample value or the query is not exactly representable in float64; every other list of Python ints (all below
    # 2**63, all from 2**63 on, object arrays) is judged as usual.
    "python-int-list-straddling-2^63",
]


def _exact(t):
    """exact value of a sample element / query: Python int for every integer type, Fraction of the float otherwise"""
    if isinstance(t, numpy.ndarray):      # 0-d array holding the query
        t = t[()]
    if isinstance(t, (bool, numpy.bool_)):
        return int(t)
    if isinstance(t, (int, numpy.integer)):
        return int(t)
    if isinstance(t, Fraction):
        return t
    return Fraction(float(t))


def _qdtype(v):
    """dtype numpy gives the query when it has to make an array of it (numpy.searchsorted does)"""
    if isinstance(v, numpy.generic):
        return v.dtype
    return numpy.asarray(v).dtype


def _representable(dt, value):
    try:
        with numpy.errstate(all="ignore"):
            r = dt.type(int(value) if isinstance(value, int) or value.denominator == 1 else float(value))
        return _exact(r) == value
    except (OverflowError, ValueError):
        return False


def awaiting_class(arr, v):
    """name of the AWAITING_DECISION sub-class the pair (sample array, query) belongs to, or None"""
    qd = _qdtype(v)
    if qd.kind not in "iuf" or arr.dtype.kind not in "iuf":
        return None
    weak = not isinstance(v, (numpy.generic, numpy.ndarray))     # Python scalars are "weak" (NEP 50); 0-d arrays are not
    if arr.dtype.kind == "f" and arr.dtype.itemsize < 8 and weak and not _representable(arr.dtype, Fraction(_exact(v))):
        # only where the rounding of the weak scalar changes one of the two short-circuit decisions
        with numpy.errstate(all="ignore"):
            rv = Fraction(float(arr.dtype.type(v))) if numpy.isfinite(arr.dtype.type(v)) else None
        fv, lo, hi = Fraction(_exact(v)), Fraction(float(arr.min())), Fraction(float(arr.max()))
        if rv is None or (fv > hi) != (rv > hi) or (fv < lo) != (rv < lo):
            return "narrow-float-sample-weak-python-query"
    ct = numpy.result_type(arr.dtype, qd)
    if ct.kind == "f" and (arr.dtype.kind in "iu" or qd.kind in "iu"):
        vals = set(_exact(t) for t in arr.tolist()) if arr.dtype.kind in "iu" else set()
        if qd.kind in "iu" or arr.dtype.kind in "iu":
            vals.add(_exact(v))
        if not all(_representable(ct, Fraction(t)) for t in vals):
            return "integer-comparison-promoted-to-lossy-float"
    return None


_DTNAMES = ["uint8", "uint16", "uint32", "uint64", "int8", "int16", "int32", "int64", "float16", "float32", "float64"]


def _dt_args(arr, v):
    """(sample dtype name, query kind) for the driver op `ecdf_dt`: the promotion TABLE is in the Lean model
    (Model/EcdfPromote.lean); None when a dtype is outside the eleven modelled ones"""
    if arr.dtype.name not in _DTNAMES:
        return None
    if isinstance(v, (numpy.generic, numpy.ndarray)):
        return (arr.dtype.name, v.dtype.name) if v.dtype.name in _DTNAMES else None
    if isinstance(v, bool):
        return None
    return (arr.dtype.name, "pyint" if isinstance(v, int) else "pyfloat")


def _validate_promotion_table(run):
    """the model's `resultType` against numpy.result_type on all 121 pairs; a disagreement means the model's table is not
    numpy's (another numpy version): harness error, not a verdict about pyCSEP"""
    drv = Driver()
    idx = {(a, b): drv.ask(f"c09_result_type {a} {b}") for a in _DTNAMES for b in _DTNAMES}
    out = drv.run()
    bad = [(a, b, out[i], numpy.result_type(a, b).name) for (a, b), i in idx.items() if out[i] != numpy.result_type(a, b).name]
    run.extra["promotion_table"] = dict(pairs=len(idx), agree_with_numpy_result_type=len(idx) - len(bad), numpy=numpy.__version__)
    if bad:
        raise RuntimeError(f"Model/EcdfPromote.lean resultType differs from numpy.result_type: {bad[:5]}")


def _relayout(arr, how):
    """the same values behind another memory layout (the property is about values, not layout)"""
    n = len(arr)
    if how == "strided":
        big = numpy.empty(2 * n, dtype=arr.dtype)
        big[::2] = arr
        big[1::2] = arr[::-1]
        return big[::2]
    if how == "negstride":
        return arr[::-1].copy()[::-1]
    if how == "readonly":
        a = arr.copy()
        a.flags.writeable = False
        return a
    if how == "byteswapped":
        return arr.astype(arr.dtype.newbyteorder())
    # (h) copies before use: the sample handed over is a copy / deep copy / pickle image of the array that was built
    if how == "copied":
        import copy
        return copy.copy(arr)
    if how == "deepcopied":
        import copy
        return copy.deepcopy(arr)
    if how == "pickled":
        import pickle
        return pickle.loads(pickle.dumps(arr))
    return arr


LAYOUTS = ["strided", "negstride", "readonly", "byteswapped", "copied", "deepcopied", "pickled"]


# (k) GLOBAL NUMERIC STATE: a share of the calls on valid inputs runs while the CALLER has numpy's floating-point error
# handling set to raise. The lookups only sort, compare and divide an integer by a positive integer: nothing in them has
# to touch a floating-point flag, so the answer must be the same. "all" includes underflow / overflow; it is used where the
# unchanged tree is robust (probed: every generator below on seeds 0-4 and thorough), see notes/C09.md for what is left out.
ERRSTATES = {"div-inv": dict(divide="raise", invalid="raise"), "all": dict(all="raise")}
_FORCE_STATE = os.environ.get("C09_FORCE_ERRSTATE")         # probing aid: put EVERY call under this state


@contextlib.contextmanager
def _numstate(name):
    """the caller's global numeric state: numpy error handling set to raise and a low-precision decimal context"""
    name = _FORCE_STATE or name
    if not name:
        yield
        return
    import decimal
    with numpy.errstate(**ERRSTATES[name]), decimal.localcontext() as ctx:
        ctx.prec = 3
        yield


def _pick_state(*key):
    """deterministic choice (replayable from the case): about one call in four under a raising error state"""
    h = zlib.crc32(repr(key).encode())
    return [None, None, None, None, None, "div-inv", "all", "all"][h % 8]


def _impl(arg, v):
    from csep.utils import stats
    ge = stats.greater_equal_ecdf(arg, v)
    le = stats.less_equal_ecdf(arg, v)
    q = stats.get_quantiles(arg, v)
    if "ecdf" in _MISSING:
        return ge, le, q, ge, le
    cdf = stats.ecdf(arg)            # the precomputed-ecdf path used by binned_ecdf
    gec = stats.greater_equal_ecdf(arg, v, cdf=cdf)
    lec = stats.less_equal_ecdf(arg, v, cdf=cdf)
    return ge, le, q, gec, lec


FTOL = 1e-12


def _feq(a, b):
    """equality of two returned probabilities / float statistics "to rounding": a miscount moves a probability by at least
    1/n >= 5e-6 for the sample sizes generated, a reordering of the float operations by a few 1e-16"""
    try:
        if isinstance(a, (tuple, list)) or isinstance(b, (tuple, list)):
            return len(a) == len(b) and all(_feq(x, y) for x, y in zip(a, b))
        return abs(float(a) - float(b)) <= FTOL
    except Exception:
        return False


# helpers of csep.utils.stats that are NOT named by the property (observe_at: get_quantiles / greater_equal_ecdf /
# less_equal_ecdf / binned_ecdf): when one of them does not exist on the tree under test (renamed, made private, removed)
# the cases that drive it directly are skipped and counted, never a crash or a verdict; every clause of the property is
# reached through the four public functions alone
OPTIONAL_HELPERS = ["ecdf", "sup_dist", "sup_dist_na", "min_or_none", "max_or_none"]
_MISSING = set()


def _detect_helpers(run):
    from csep.utils import stats
    _MISSING.clear()
    for name in OPTIONAL_HELPERS:
        if not callable(getattr(stats, name, None)):
            _MISSING.add(name)
            run.count("helper-missing:" + name)
            run.assumptions.append(f"csep.utils.stats.{name} does not exist on the tree under test: the cases that call it "
                                   f"directly were skipped (the property is judged through the four public functions)")


def _outside(run, key, as_today):
    """behaviour on an input OUTSIDE the property's quantifier (empty sample, nan query, a cdf= of another sample, an
    argument form the docstrings do not promise): recorded, never a verdict"""
    run.count(f"outside-property:{key}:" + ("as-modelled" if as_today else "differs"))


def _quiet(f):
    """call on an input outside the quantifier: (value, None) or (None, exception)"""
    try:
        with numpy.errstate(all="ignore"):
            return f(), None
    except Exception as e:
        return None, e


_REPLAY_STATE = {}


class _Failed:
    """marker: the guarded call raised and has been reported"""
    def __repr__(self):
        return "<failed>"


_FAILED = _Failed()


def _guard(run, case, what, f, signature=None, state=None):
    """call the real API; an exception on an input inside the property's quantifier is an ORACLE FAILURE with that input
    as replay (never a harness crash)"""
    try:
        with (_numstate(state) if state else numpy.errstate(all="ignore")):
            return f()
    except Exception as e:
        run.oracle_failure(case, f"{what}: exception {type(e).__name__}: {e}", signature=signature)
        return _FAILED


def _scalar(o):
    """an implementation output as a Python float; TypeError for None / arrays with several entries / strings"""
    if o is None or isinstance(o, (str, bytes, list, tuple, dict)):
        raise TypeError(f"{type(o).__name__} instead of a number")
    a = numpy.asarray(o)
    if a.shape not in ((), (1,)) or a.dtype.kind not in "fiub":
        raise TypeError(f"shape {a.shape} dtype {a.dtype} instead of a real scalar")
    if a.shape != ():
        raise TypeError("1-element array instead of a scalar")
    return float(a)


def _vtype(v):
    if isinstance(v, numpy.ndarray):
        return v.dtype.name + "@0d"
    if isinstance(v, numpy.generic):
        return v.dtype.name
    return "int" if isinstance(v, int) else "float"


def _mk_query(vtype, text):
    if vtype.endswith("@0d"):
        return numpy.asarray(_mk_query(vtype[:-3], text))
    val = Fraction(text)
    if vtype == "int":
        return int(val)
    if vtype == "float":
        return float(val)
    dt = numpy.dtype(vtype)
    return dt.type(int(val)) if dt.kind in "iu" else dt.type(float(val))


def _check_case(run, drv, pending, x, v, as_list, tag, layout=None):
    """x: list of Python numbers or a numpy array (any integer / float dtype); v: Python or numpy scalar or 0-d array"""
    arr = x if isinstance(x, numpy.ndarray) else None
    if arr is not None and layout:
        arr = x = _relayout(arr, layout)
    n = len(x)
    fx = [_exact(t) for t in (arr.tolist() if arr is not None and arr.dtype.kind in "iu" else x)]
    fv = _exact(v)
    case = dict(x=[str(t) for t in fx] if n <= 12 else f"<{n} values>", v=str(fv), as_list=as_list, tag=tag,
                xdtype=arr.dtype.name if arr is not None else ("int" if all(isinstance(t, int) for t in x) else "float"),
                vtype=_vtype(v))
    if layout:
        case["layout"] = layout
        run.count("layout:" + layout)
    full = lambda: dict(case, x=[str(t) for t in fx])
    aw = awaiting_class(arr if arr is not None else numpy.asarray(x), v)
    if aw is not None and aw in AWAITING_DECISION:
        run.count("awaiting:" + aw)
        return
    sig = ("ecdf:" + aw) if aw in KNOWN_FINDING_CLASSES else None
    if sig:
        run.count("known-class:" + aw)
    arg = (list(arr) if as_list else arr) if arr is not None else (list(x) if as_list else numpy.asarray(x))
    # promotion-aware layer of the model: asked for the dtype / random classes (the exhaustive lists are float64 / int64
    # with a same-kind query: both domains exact)
    doms = _dt_args(arr if arr is not None else numpy.asarray(x), v) if not tag.startswith("exhaustive") else None
    if n > 64 and (n + len(pending)) % 4:
        doms = None       # large samples: one in four (each driver request re-reads the whole sample)

    txt = []

    def xs_txt():
        if not txt:
            txt.append(flist(Fraction(t) for t in fx) + " " + frac(Fraction(fv)))
        return txt[0]

    def ask_np(observed):
        if doms is not None:
            k = drv.ask(f"ecdf_dt {doms[0]} {doms[1]} {xs_txt()}")
            pending.append(("np", case, k, observed, aw in KNOWN_FINDING_CLASSES))
    snap = arg.tobytes() if isinstance(arg, numpy.ndarray) and n <= 5000 else (list(arg) if isinstance(arg, list) and n <= 64 else None)
    es = _REPLAY_STATE.get("errstate") if tag == "replay" else \
        _pick_state(case["x"] if n <= 12 else n, case["v"], case["vtype"], case["xdtype"])
    if es:
        case["errstate"] = es
        run.count("errstate:" + es)
    try:
        with _numstate(es):
            ge, le, q, gec, lec = _impl(arg, v)
    except Exception as e:  # the property promises a value for every non-empty sample
        run.oracle_failure(full(), f"exception {type(e).__name__}: {e}", signature=sig)
        ask_np(("exc", type(e).__name__))
        return
    # the caller's sample is the caller's: bit for bit the same after the lookups (order included)
    if snap is not None:
        same = (arg.tobytes() == snap) if isinstance(arg, numpy.ndarray) else \
            (len(arg) == len(snap) and all(type(a) is type(b) and a == b for a, b in zip(arg, snap)))
        if not same:
            run.oracle_failure(full(), "the lookups modified the caller's sample in place")
            return
    # every output must be one real number (a deviation in type / shape is reported, never a harness crash)
    try:
        ge, le, gec, lec = (_scalar(o) for o in (ge, le, gec, lec))
        q = (_scalar(q[0]), _scalar(q[1])) if len(q) == 2 else None
        if q is None:
            raise TypeError("get_quantiles did not return a pair")
    except Exception as e:
        run.oracle_failure(full(), f"output is not a pair of real numbers: {type(e).__name__}: {e}", signature=sig)
        return
    kge = sum(1 for t in fx if t >= fv)
    kle = sum(1 for t in fx if t <= fv)
    keq = sum(1 for t in fx if t == fv)
    nontriv = (len(set(fx)) < n) or keq > 0
    run.case(case, (case["xdtype"], case["vtype"], tuple(fx), fv) if nontriv else None)
    run.count("query_on_value" if keq else ("below" if kle == 0 else ("above" if kge == 0 else "between")))
    if arr is not None:
        run.count("dtype:" + arr.dtype.name)
    # direct oracle: exact float k/n (counts over exact integers / rationals), also through the cdf= path
    if not (_feq(ge, kge / n) and _feq(le, kle / n) and _feq(q[0], ge) and _feq(q[1], le) and _feq(gec, ge) and _feq(lec, le)):
        run.oracle_failure(full(), f"ge={ge!r} le={le!r} quantiles={q!r} with cdf=: {gec!r} {lec!r}; "
                                   f"expected {kge}/{n} {kle}/{n}", signature=sig)
        if sig:
            ask_np(("ok", float(ge), float(le)))
            return   # known finding: the exact model would only repeat the disagreement
    ask_np(("ok", float(ge), float(le)))
    i = drv.ask(f"ge_ecdf {xs_txt()}")
    j = drv.ask(f"le_ecdf {xs_txt()}")
    pending.append(("ex", case, i, j, ge, le, n))
    # the floats themselves against the Soft64 division of the model (sampled: one binary64 division per probability)
    if (n <= 64 and not tag.startswith("exhaustive") and len(pending) % 3 == 0) or len(pending) % 16 == 0:
        k = drv.ask(f"ecdf_float {xs_txt()}")
        pending.append(("fl", case, k, float(ge), float(le)))


def _flush(run, drv, pending):
    out = drv.run()
    np_layer = run.extra.setdefault("np_layer", dict(
        note="promotion-aware model (Model/EcdfNumpy.lean) against the library's ACTUAL outputs; statistic, not a verdict "
             "(the verdict is the exact oracle / exact model; D35/D36 classes are known findings)",
        known_class_cases=0, known_class_predicted=0, other_cases=0, other_predicted=0, disagreements=[]))
    fl = run.extra.setdefault("returned_floats", dict(cases=0, equal_to_soft64_division=0))

    def val(s):
        k, m = s.split(":")
        return int(k) / int(m)
    for item in pending:
        if item[0] == "np":
            _, case, k, observed, known = item
            parts = out[k].split(" ")
            if len(parts) != 2:
                pred = ("bad", out[k])
            elif "IndexError" in parts:
                pred = ("exc", "IndexError")
            else:
                try:
                    pred = ("ok", val(parts[0]), val(parts[1]))
                except Exception:
                    pred = ("bad", out[k])
            key = "known_class" if known else "other"
            np_layer[key + "_cases"] += 1
            if pred == observed:
                np_layer[key + "_predicted"] += 1
            elif len(np_layer["disagreements"]) < 8:
                np_layer["disagreements"].append(dict(case=case, library=list(observed), model=out[k]))
            continue
        if item[0] == "fl":
            _, case, k, ge, le = item
            fl["cases"] += 1
            parts = out[k].split(" ")
            if len(parts) == 2 and Fraction(parts[0]) == Fraction(ge) and Fraction(parts[1]) == Fraction(le):
                fl["equal_to_soft64_division"] += 1
            elif not (len(parts) == 2 and _feq(float(Fraction(parts[0])), ge) and _feq(float(Fraction(parts[1])), le)):
                # beyond rounding: the library's float is not k/n of the model's counts (bit-equality is a statistic)
                run.mismatch(dict(case, op="ecdf_float"), [frac(Fraction(ge)), frac(Fraction(le))], out[k])
            continue
        _, case, i, j, ge, le, n = item
        try:
            mge, mle = val(out[i]), val(out[j])
        except Exception:
            mge = mle = None
        if mge is None or not _feq(mge, ge) or not _feq(mle, le):
            run.mismatch(case, [ge, le], [out[i], out[j]])


def _stage(run, name, f):
    """last safety net: an exception that escapes a generator and was raised INSIDE pyCSEP (a frame of the csep package is
    on the traceback) is an oracle failure, not a harness error; an exception of the harness itself is re-raised (exit 2)"""
    import traceback
    try:
        f()
    except Exception as e:
        frames = traceback.extract_tb(e.__traceback__)
        if any(os.sep + "csep" + os.sep in fr.filename for fr in frames):
            run.oracle_failure(dict(tag="stage", stage=name), f"{name}: pyCSEP raised {type(e).__name__}: {e} "
                                                                f"(at {frames[-1].filename}:{frames[-1].lineno})")
        else:
            raise


def run(run, rng, tier):
    drv, pending = Driver(), []
    _detect_helpers(run)
    _validate_promotion_table(run)
    _stage(run, "corpus", lambda: _corpus(run))
    # empty sample: the library returns None
    from csep.utils import stats
    # empty sample: OUTSIDE the property ("for any non-empty sample"); today the library returns None (Ecdf.empty_none)
    emp, exc = _quiet(lambda: (stats.greater_equal_ecdf([], 1.0), stats.less_equal_ecdf(numpy.array([]), 1.0)))
    _outside(run, "empty-sample", exc is None and emp[0] is None and emp[1] is None)
    run.case(dict(x=[], v=1.0), None)
    # exhaustive part
    n_ex = 0
    # two 6-letter alphabets: positive, and one crossing zero (negative values and negative non-integer queries)
    for letters in ([1, 2, 3, 4, 5, 6], [-3, -2, -1, 0, 1, 2]):
        queries = [letters[0] - 0.5 + 0.5 * i for i in range(13)]  # on, between, below, above
        for size in range(1, 8):
            for ms in itertools.combinations_with_replacement(letters, size):
                ms = list(ms)
                rng.shuffle(ms)
                as_float = rng.random() < 0.5
                x = [float(t) for t in ms] if as_float else ms
                for v in queries:
                    _check_case(run, drv, pending, x, v if as_float or v != int(v) else int(v),
                                rng.random() < 0.5, "exhaustive")
                    n_ex += 1
    run.extra["exhaustive_cases"] = n_ex
    run.extra["exhaustive"] = True
    # random part: heavy ties, large, float values that are not integers
    nrand = 300 if tier == "quick" else 3000
    for _ in range(nrand):
        n = rng.choice([1, 2, 3, 10, 100, 1000, 5000 if tier == "quick" else 10000])
        kind = rng.choice(["int", "decimal", "float"])
        if kind == "int":
            pool = [rng.randrange(-5, 50) for _ in range(rng.randint(1, 20))]
        elif kind == "decimal":
            pool = [round(rng.uniform(-3, 9), 1) for _ in range(rng.randint(1, 20))]
        else:
            pool = [rng.uniform(-1e3, 1e3) for _ in range(rng.randint(1, 50))]
            if rng.random() < 0.3:     # magnitudes of very different size: subnormal, 1e-300, -0.0, 1e300, next to ordinary ones
                pool += rng.sample([5e-324, -5e-324, 1e-300, -1e-300, 2.2250738585072014e-308, -0.0, 0.0, 1e-8, 1e300, -1e300,
                                    1.7976931348623157e308, 1.0, numpy.nextafter(1.0, 2)], 5)
        x = [rng.choice(pool) for _ in range(n)]
        lo, hi = min(pool), max(pool)
        qs = [rng.choice(pool), rng.choice(pool), lo, hi, lo - 1, hi + 1, (lo + hi) / 2,
              numpy.nextafter(rng.choice(pool), numpy.inf), numpy.nextafter(rng.choice(pool), -numpy.inf)]
        qs = [v for v in qs if kind == "int" or math.isfinite(float(v))]
        for v in rng.sample(qs, min(3, len(qs))):
            _check_case(run, drv, pending, x, float(v) if kind != "int" else v, rng.random() < 0.3, "random-" + kind)
    _stage(run, "dtype classes", lambda: _dtype_cases(run, drv, pending, rng, tier))
    _flush(run, drv, pending)
    for name, gen in (("binned_ecdf", _binned), ("binned_ecdf over dtypes", _binned_dtypes), ("infinite queries", _infinite_queries),
                      ("large samples", _large_samples), ("sessions", _sessions), ("argument forms / code layer", _code_layer),
                      ("samples with infinities", _infinite_samples), ("aliasing of returned arrays", _aliasing),
                      ("sup_dist", _sup_dist), ("min/max_or_none", _min_max)):
        _stage(run, name, lambda gen=gen: gen(run, rng, tier))


def _binned(run, rng, tier):
    """binned_ecdf / ecdf: every entry is the "at most" probability at that query value"""
    from csep.utils import stats
    drv, pend = Driver(), []
    emp, exc = _quiet(lambda: stats.binned_ecdf([], [1.0, 2.0]))
    _outside(run, "empty-sample-binned", exc is None and emp is None)
    for _ in range(150 if tier == "quick" else 1200):
        n = rng.randint(1, 60)
        pool = [round(rng.uniform(0, 20), 1) for _ in range(rng.randint(1, 12))]
        if rng.random() < 0.5:      # zeros, signed zeros and subnormal values are ordinary sample values
            pool += rng.sample([0.0, -0.0, 5e-324, 1e-310, 2.2250738585072014e-308], 2)
        x = [rng.choice(pool) for _ in range(n)]
        vals = sorted(set([rng.choice(pool) for _ in range(4)] + [min(pool) - 1.0, max(pool) + 1.0,
                                                                  round(rng.uniform(0, 20), 2)]))
        case = dict(x=[repr(t) for t in x], vals=[repr(v) for v in vals], tag="binned")
        if rng.random() < 0.5:
            case["errstate"] = rng.choice(["div-inv", "all", "all"])
            run.count("errstate:" + case["errstate"])
        run.case(case, ("binned", tuple(x), tuple(vals)))
        try:
            with _numstate(case.get("errstate")):
                got = stats.binned_ecdf(numpy.array(x), numpy.array(vals))
            ex, ey = stats.ecdf(numpy.array(x)) if "ecdf" not in _MISSING else (sorted(x), [(i + 1) / n for i in range(n)])
        except Exception as e:
            run.oracle_failure(case, f"exception {type(e).__name__}: {e}")
            continue
        fx = [Fraction(t) for t in x]
        want = [sum(1 for t in fx if t <= Fraction(v)) / n for v in vals]
        try:
            g1, g0 = [_scalar(t) for t in got[1]], [_scalar(t) for t in got[0]]
            e0, e1 = [_scalar(t) for t in ex], [_scalar(t) for t in ey]
        except Exception as e:      # None, wrong shape, wrong type: a deviation, not a harness crash
            run.oracle_failure(case, f"binned_ecdf / ecdf output cannot be read: {type(e).__name__}: {e}")
            continue
        if not _feq(g1, want) or not _feq(g0, vals):
            run.oracle_failure(case, f"binned_ecdf={g1!r} expected {want!r}")
        if e0 != sorted(x) or not _feq(e1, [(i + 1) / n for i in range(n)]):
            run.oracle_failure(case, "ecdf(x) is not (sorted x, (1..n)/n)")
        pend.append((case, drv.ask(f"binned_ecdf {flist(x)} {flist(vals)}"), g1))
    out = drv.run()
    for case, i, got in pend:
        try:
            model = [int(t.split(":")[0]) / int(t.split(":")[1]) for t in out[i].split(",")]
        except Exception:
            model = None
        if model is None or not _feq(model, [float(t) for t in got]):
            run.mismatch(case, [float(t) for t in got], out[i])


# ----------------------------------------------------------------------------- dtype classes
UINTS = ["uint8", "uint16", "uint32", "uint64"]
SINTS = ["int8", "int16", "int32", "int64"]
FLOATS = ["float16", "float32", "float64"]
QUERY_TYPES = ["int", "float"] + UINTS + SINTS + FLOATS


def _alphabets(dtname):
    """(name, letters as exact values) for one sample dtype: small counts, the dtype's extremes, and for 64-bit integers
    neighbours beyond +-2**53 (closer than the float64 spacing); for narrow floats values that float64 queries can
    straddle"""
    dt = numpy.dtype(dtname)
    out = []
    if dt.kind == "u":
        out.append(("small", [0, 1, 2, 5]))
    else:
        out.append(("small", [0, 1, 2, 5]))
        out.append(("signed", [-2, -1, 0, 3]))
    if dt.kind in "iu":
        ii = numpy.iinfo(dt)
        out.append(("extremes", [ii.min, ii.min + 1, ii.max - 1, ii.max]))
        if dt.itemsize == 8:
            for b in ([2 ** 53, 2 ** 62 + 2 ** 9, ii.max - 3] + ([-2 ** 53 - 2, ii.min + 1] if dt.kind == "i" else [2 ** 63 - 1])):
                out.append((f"beyond-2^53@{b:+d}", [b - 1, b, b + 1, b + 2]))
    else:
        one = dt.type(1)
        eps = numpy.finfo(dt).eps
        third = dt.type(1) / dt.type(3)
        out.append(("fractions", [Fraction(float(third)), Fraction(float(dt.type(0.1))), Fraction(float(one + eps)), Fraction(1)]))
    return out


def _queries_for(letters, dt, rng):
    """exact query values on, between, just beside, below and above the letters"""
    lo, hi = min(letters), max(letters)
    qs = set(letters) | {lo - 1, hi + 1}
    s = sorted(set(letters))
    for a, b in zip(s, s[1:]):
        qs.add((Fraction(a) + Fraction(b)) / 2)
    if dt.kind == "f":
        for t in letters:   # float64 neighbours of a narrow float's value: between representable sample values
            qs.add(Fraction(float(numpy.nextafter(float(t), numpy.inf))))
            qs.add(Fraction(float(numpy.nextafter(float(t), -numpy.inf))))
    return sorted(qs)


def _typed_queries(val):
    """every way of handing the exact value `val` to the library: Python int / float and numpy scalars that hold it"""
    out = []
    val = Fraction(val)
    for qt in QUERY_TYPES:
        try:
            q = _mk_query(qt, str(val))
        except (OverflowError, ValueError):
            continue
        if not (isinstance(q, float) or (isinstance(q, numpy.floating))) or numpy.isfinite(q):
            if _exact(q) == val or (val.denominator == 1 and _exact(q) == int(val)):
                out.append(q)
    # ... and as 0-d arrays of every numpy type (not "weak": a 0-d array keeps its dtype in comparisons)
    out += [numpy.asarray(q) for q in out if isinstance(q, numpy.generic)]
    return out


def _dtype_cases(run, drv, pending, rng, tier):
    import itertools as it
    quick = tier == "quick"
    n0 = run.evaluations
    for dtname in UINTS + SINTS + FLOATS:
        dt = numpy.dtype(dtname)
        for aname, letters in _alphabets(dtname):
            queries = _queries_for(letters, dt, rng)
            typed = {q: _typed_queries(q) for q in queries}
            for size in (1, 2, 3, 4):
                multisets = list(it.combinations_with_replacement(letters, size))
                if quick and len(multisets) > 9:
                    multisets = rng.sample(multisets, 9)
                for ms in multisets:
                    ms = list(ms)
                    rng.shuffle(ms)
                    if dt.kind in "iu":
                        arr = numpy.array([int(t) for t in ms], dtype=dt)
                    else:
                        arr = numpy.array([float(t) for t in ms], dtype=dt)
                    for q in queries:
                        tq = typed[q]
                        if not tq:
                            continue
                        for v in (rng.sample(tq, min(2, len(tq))) if quick else tq):
                            _check_case(run, drv, pending, arr, v, rng.random() < 0.25, f"dtype-{aname}",
                                        layout=rng.choice(LAYOUTS) if rng.random() < 0.3 else None)
    # large random samples with heavy ties held in every dtype, queries as numpy scalars of random dtypes
    for _ in range(120 if quick else 1500):
        dtname = rng.choice(UINTS + SINTS + FLOATS)
        dt = numpy.dtype(dtname)
        n = rng.choice([5, 50, 500, 3000])
        if dt.kind in "iu":
            ii = numpy.iinfo(dt)
            base = rng.choice([0, ii.min, ii.max - 40, (ii.max // 2)] + ([2 ** 53 - 3, ii.max - 2 ** 53] if dt.itemsize == 8 else []))
            pool = [min(ii.max, max(ii.min, base + rng.randrange(0, 40))) for _ in range(rng.randint(1, 12))]
            arr = numpy.array([rng.choice(pool) for _ in range(n)], dtype=dt)
            cand = [rng.choice(pool), rng.choice(pool) + 1, rng.choice(pool) - 1, min(pool) - 1, max(pool) + 1, min(pool), max(pool)]
        else:
            pool = [float(dt.type(rng.uniform(-4, 4))) for _ in range(rng.randint(1, 12))]
            arr = numpy.array([rng.choice(pool) for _ in range(n)], dtype=dt)
            p = rng.choice(pool)
            cand = [Fraction(p), Fraction(float(numpy.nextafter(dt.type(p), dt.type(9)))), Fraction(float(numpy.nextafter(p, 9.0))),
                    Fraction(float(numpy.nextafter(p, -9.0))), Fraction(min(pool)) - 1, Fraction(max(pool)) + 1]
        for q in rng.sample(cand, 3):
            tq = _typed_queries(q)
            if tq:
                _check_case(run, drv, pending, arr, rng.choice(tq), rng.random() < 0.1, "random-dtype",
                            layout=rng.choice(LAYOUTS) if rng.random() < 0.3 else None)
    run.extra["dtype_cases"] = run.evaluations - n0


def _binned_dtypes(run, rng, tier):
    """binned_ecdf with sample and query arrays of every integer / float dtype"""
    from csep.utils import stats
    drv, pend = Driver(), []
    for _ in range(150 if tier == "quick" else 2000):
        dx = numpy.dtype(rng.choice(UINTS + SINTS + FLOATS + ["int64", "uint64"]))
        dq = dx if rng.random() < 0.4 else numpy.dtype(rng.choice(UINTS + SINTS + FLOATS))
        big = rng.choice([2 ** 53 - 2, 2 ** 62 - 3, 2 ** 63 - 14])     # shared, so that sample and queries interleave
        def pool_of(dt, k):
            if dt.kind in "iu":
                ii = numpy.iinfo(dt)
                lo = rng.choice([0, ii.min, ii.max - 12] + ([big, big, ii.max - 2 ** 53] if dt.itemsize == 8 else []))
                return [min(ii.max, max(ii.min, lo + rng.randrange(0, 12))) for _ in range(k)]
            return [float(dt.type(rng.choice([0.1, 0.3, 1.0, 2.5, 7.0, rng.uniform(0, 12)]))) for _ in range(k)]
        xs = pool_of(dx, rng.randint(1, 8))
        x = numpy.array([rng.choice(xs) for _ in range(rng.randint(1, 40))], dtype=dx)
        fx = [_exact(t) for t in x.tolist()] if dx.kind in "iu" else [_exact(t) for t in x]
        # query values: sample values the query dtype can hold, and values of its own
        cand = [t for t in set(fx) if _representable(dq, Fraction(t))] + [Fraction(_exact(t)) for t in
                numpy.array(pool_of(dq, 3), dtype=dq).tolist()]
        cand = sorted(set(Fraction(t) for t in cand))
        if not cand:
            continue
        vals = numpy.array([int(t) if dq.kind in "iu" else float(t) for t in cand], dtype=dq)
        fvals = [_exact(t) for t in (vals.tolist() if dq.kind in "iu" else vals)]
        if len(set(fvals)) != len(fvals) or sorted(fvals) != fvals:
            continue
        aw = [awaiting_class(x, v) for v in vals]
        if any(a in AWAITING_DECISION for a in aw):
            run.count("awaiting:binned:" + next(a for a in aw if a))
            continue
        bsig = next(("ecdf:" + a for a in aw if a in KNOWN_FINDING_CLASSES), None)
        n = len(fx)
        case = dict(x=[str(t) for t in fx], vals=[str(t) for t in fvals], xdtype=dx.name, vdtype=dq.name, tag="binned-dtype")
        if rng.random() < 0.3:
            case["errstate"] = rng.choice(["div-inv", "all"])
            run.count("errstate:" + case["errstate"])
        run.case(case, ("binned", dx.name, dq.name, tuple(fx), tuple(fvals)))
        try:
            with _numstate(case.get("errstate")):
                got = stats.binned_ecdf(x, vals)
        except Exception as e:
            run.oracle_failure(case, f"exception {type(e).__name__}: {e}", signature=bsig)
            continue
        want = [sum(1 for t in fx if t <= v) / n for v in fvals]
        try:
            ok = got is not None and _feq([_scalar(t) for t in got[1]], want) and [_exact(t) for t in got[0]] == fvals
        except Exception:
            ok = False
        if not ok:
            run.oracle_failure(case, f"binned_ecdf={got!r:.300} expected {want!r}", signature=bsig)
            continue
        pend.append((case, drv.ask(f"binned_ecdf {flist(Fraction(t) for t in fx)} {flist(Fraction(t) for t in fvals)}"),
                     list(got[1])))
    out = drv.run()
    for case, i, got in pend:
        try:
            model = [int(t.split(":")[0]) / int(t.split(":")[1]) for t in out[i].split(",")]
        except Exception:
            model = None
        if model is None or not _feq(model, [float(t) for t in got]):
            run.mismatch(case, [float(t) for t in got], out[i])


# ----------------------------------------------------------------------------- queries at +-infinity (oracle only)
def _infinite_queries(run, rng, tier):
    """v = +inf is above, v = -inf below every finite sample value: (0, 1) and (1, 0); the model has no infinities"""
    from csep.utils import stats
    for _ in range(60 if tier == "quick" else 600):
        dt = numpy.dtype(rng.choice(UINTS + SINTS + FLOATS))
        n = rng.choice([1, 2, 5, 40])
        if dt.kind in "iu":
            ii = numpy.iinfo(dt)
            arr = numpy.array([rng.choice([ii.min, ii.max, 0, 1, ii.max // 2]) for _ in range(n)], dtype=dt)
        else:
            arr = numpy.array([rng.choice([0.0, -1.5, 2.25, float(numpy.finfo(dt).max), -float(numpy.finfo(dt).max)])
                               for _ in range(n)], dtype=dt)
        sign = rng.choice([1, -1])
        v = rng.choice([float("inf"), numpy.float64("inf"), numpy.float32("inf"), numpy.float16("inf"),
                        numpy.asarray(numpy.inf)]) * sign
        case = dict(x=[str(t) for t in arr.tolist()], xdtype=dt.name, v="inf" if sign > 0 else "-inf", vtype=_vtype(v),
                    tag="infinite-query")
        run.case(case, None)
        run.count("infinite-query")
        want = (0.0, 1.0) if sign > 0 else (1.0, 0.0)
        try:
            with numpy.errstate(all="ignore"):
                got = (stats.greater_equal_ecdf(arr, v), stats.less_equal_ecdf(arr, v))
                q = stats.get_quantiles(arr, v)
        except Exception as e:
            run.oracle_failure(case, f"exception {type(e).__name__}: {e}")
            continue
        try:
            ok = _feq(tuple(map(_scalar, got)), want) and _feq(tuple(map(_scalar, q)), want)
        except Exception:
            ok = False
        if not ok:
            run.oracle_failure(case, f"(ge, le)={got!r} quantiles={q!r}, expected {want}")


# ----------------------------------------------------------------------------- samples of more than 2**16 values
def _run_large(run, case):
    from csep.utils import stats
    n, dt = case["n"], numpy.dtype(case["xdtype"])
    pool = [int(t) if dt.kind in "iu" else float(t) for t in case["pool"]]
    g = numpy.random.RandomState(case["rs"])
    arr = numpy.array(pool, dtype=dt)[g.randint(0, len(pool), size=n)]
    v = int(case["v"]) if dt.kind in "iu" else float(case["v"])
    a64 = arr.astype(numpy.int64 if dt.kind in "iu" else numpy.float64)
    kge, kle = int((a64 >= v).sum()), int((a64 <= v).sum())
    try:
        q = stats.get_quantiles(arr, v)
        got = (_scalar(q[0]), _scalar(q[1]), _scalar(stats.greater_equal_ecdf(arr, v)), _scalar(stats.less_equal_ecdf(arr, v)))
    except Exception as e:
        run.oracle_failure(case, f"exception {type(e).__name__}: {e}")
        return
    if not _feq(got, (kge / n, kle / n, kge / n, kle / n)):
        run.oracle_failure(case, f"n={n}: (ge, le)={got!r}, expected ({kge}/{n}, {kle}/{n})")


def _large_samples(run, rng, tier):
    """n > 65536 (not a multiple of 65536) with ties so heavy that the counts themselves exceed 65535: 16-bit counters,
    float32 rank vectors and block-wise algorithms show here. Exact oracle with numpy integer / float64 comparisons
    (exact for these dtypes); the model is not asked (the request line would hold 10^5 rationals)."""
    for _ in range(6 if tier == "quick" else 40):
        n = rng.choice([65537, 70001, 131073, 200003, 65536 * 3 + 17])
        dt = numpy.dtype(rng.choice(["int64", "float64", "int32", "float32", "uint16", "uint8"]))
        nv = rng.choice([1, 2, 3, 7])
        if dt.kind in "iu":
            pool = [rng.randrange(0, 200) for _ in range(nv)]
        else:
            pool = [float(dt.type(rng.choice([0.25, 1.5, 3.0, 7.75, 0.1, 2.3]))) for _ in range(nv)]
        rs = rng.randrange(2 ** 32)
        for v in rng.sample(pool + [min(pool) - 1, max(pool) + 1], min(3, len(pool) + 2)):
            if dt.kind == "u" and v < 0:
                continue
            case = dict(tag="large-sample", n=n, xdtype=dt.name, pool=[repr(t) for t in pool], v=repr(v), rs=rs)
            run.case(case, ("large", n, dt.name, tuple(pool), v))
            run.count("large-sample")
            _run_large(run, case)


# ----------------------------------------------------------------------------- histories on ONE sample object
def _run_session(run, case):
    """one numpy array object is looked at, changed IN PLACE, looked at again, ...: every lookup must answer for the
    contents the array has at that moment (the property is about the sample x handed over, not about an earlier one)"""
    from csep.utils import stats
    dt = numpy.dtype(case["xdtype"])
    conv = (lambda t: int(Fraction(t))) if dt.kind in "iu" else (lambda t: float(Fraction(t)))
    as_list = case.get("container") == "list"
    x = [conv(t) for t in case["init"]] if as_list else numpy.array([conv(t) for t in case["init"]], dtype=dt)
    other = numpy.array([conv(t) for t in case["init"]][::-1], dtype=dt)
    vals_buf = numpy.zeros(1, dtype=dt)          # ONE query array for binned_ecdf, refilled in place
    for k, st in enumerate(case["steps"]):
        op = st["op"]
        if op == "realloc":                      # the old object is dropped, a NEW one (often at the same address) takes its place
            del x
            x = [conv(t) for t in st["vals"]] if as_list else numpy.array([conv(t) for t in st["vals"]], dtype=dt)
        elif op == "append" and as_list:
            x.append(conv(st["vals"][0]))
        elif as_list and op in ("refill", "fill-progressively"):
            x[:] = [conv(t) for t in st["vals"]][:len(x)] + x[len(st["vals"]):]
        elif as_list and op == "set-one":
            x[st["i"] % len(x)] = conv(st["vals"][0])
        elif as_list and op == "double":
            x[:] = [2 * t for t in x]
        elif as_list and op == "sort-inplace":
            x.sort()
        elif as_list and op == "reverse":
            x.reverse()
        elif as_list:
            pass
        elif op == "refill":
            x[:] = numpy.array([conv(t) for t in st["vals"]], dtype=dt)
        elif op == "set-one":
            x[st["i"] % len(x)] = conv(st["vals"][0])
        elif op == "double":
            x *= 2
        elif op == "sort-inplace":
            x.sort()
        elif op == "reverse":
            x[:] = x[::-1].copy()
        elif op == "fill-progressively":        # a preallocated buffer of simulations filled step by step
            for i, t in enumerate(st["vals"][:len(x)]):
                x[i] = conv(t)
        elif op == "rejected-call":
            # (i) a call on the SAME sample that the library rejects (the query is not a number); the caller catches the
            # exception and goes on: the next lookups must be those of a fresh call
            for bad in (object(), "not-a-number", [1, 2]):
                try:
                    with numpy.errstate(all="ignore"):
                        stats.get_quantiles(x, bad)
                except Exception:
                    pass
        elif op == "other-array":
            if _guard(run, case, f"step {k} (lookup on another array)", lambda: stats.get_quantiles(other, conv(st["v"]))) is _FAILED:
                return
        v = conv(st["v"])
        fx = [_exact(t) for t in (x if as_list else (x.tolist() if dt.kind in "iu" else x))]
        n = len(fx)
        kge, kle = sum(1 for t in fx if t >= _exact(v)), sum(1 for t in fx if t <= _exact(v))
        try:
            with _numstate(case.get("errstate")):
                how = st.get("call", "quantiles")
                if how == "cdf" and "ecdf" in _MISSING:
                    how = "separate"
                if how == "quantiles":
                    got = tuple(map(_scalar, stats.get_quantiles(x, v)))
                elif how == "separate":
                    got = (_scalar(stats.greater_equal_ecdf(x, v)), _scalar(stats.less_equal_ecdf(x, v)))
                elif how == "cdf":                   # the documented cdf= argument with the ecdf of the sample AS IT IS NOW
                    cdf = stats.ecdf(x)
                    got = (_scalar(stats.greater_equal_ecdf(x, v, cdf=cdf)), _scalar(stats.less_equal_ecdf(x, v, cdf=cdf)))
                else:
                    vals_buf[0] = v
                    b = stats.binned_ecdf(x, vals_buf)
                    got = (_scalar(stats.greater_equal_ecdf(x, v)), _scalar(b[1][0]))
        except Exception as e:
            run.oracle_failure(case, f"step {k} ({op}): exception {type(e).__name__}: {e}")
            return
        if not _feq(got, (kge / n, kle / n)):
            run.oracle_failure(case, f"step {k} (after {op}): (ge, le)={got!r} for the sample as it is now "
                                     f"{[str(t) for t in fx][:12]} and v={v!r}; expected ({kge}/{n}, {kle}/{n})")
            return


def _sessions(run, rng, tier):
    for _ in range(200 if tier == "quick" else 2000):
        dt = numpy.dtype(rng.choice(["int64", "int64", "float64", "float64", "int32", "uint8", "float32", "int16", "uint64"]))
        n = rng.choice([1, 2, 3, 5, 8, 40])
        if dt.kind in "iu":
            lo = 0 if dt.kind == "u" else -20
            pool = [rng.randrange(lo, 60) for _ in range(rng.randint(1, 9))]
            q = lambda: str(rng.choice(pool) + rng.choice([0, 0, 1, -1]) if dt.kind == "i" else max(0, rng.choice(pool) + rng.choice([0, 0, 1])))
        else:
            pool = [rng.choice([0.5, 1.25, -2.0, 3.75, 0.0]) + rng.randrange(0, 6) for _ in range(rng.randint(1, 9))]
            q = lambda: str(Fraction(rng.choice(pool) + rng.choice([0, 0, 0.5, -0.25])))
        val = lambda: str(Fraction(rng.choice(pool)))
        steps = []
        for _k in range(rng.randint(2, 6)):
            op = rng.choice(["none", "refill", "refill", "set-one", "double", "sort-inplace", "reverse",
                             "fill-progressively", "other-array", "realloc", "realloc", "append", "rejected-call"])
            steps.append(dict(op=op, vals=[val() for _ in range(n)], i=rng.randrange(n), v=q(),
                              call=rng.choice(["quantiles", "quantiles", "separate", "binned", "cdf"])))
        case = dict(tag="session", xdtype=dt.name, init=[val() for _ in range(n)], steps=steps,
                    container=rng.choice(["array", "array", "list"]))
        if rng.random() < 0.25:
            case["errstate"] = rng.choice(["div-inv", "all"])
            run.count("errstate:" + case["errstate"])
        run.case(dict(tag="session", xdtype=dt.name, n=n, container=case["container"], ops=[st["op"] for st in steps]),
                 ("session", dt.name, tuple(case["init"]), tuple((st["op"], tuple(st["vals"]), st["v"]) for st in steps)))
        run.count("session")
        for st in steps:
            run.count("session-op:" + st["op"])
        _run_session(run, case)


# ----------------------------------------------------------------------------- statement-level layer (Model/EcdfCode.lean)
CONTAINERS = ["list", "tuple", "array", "series", "range", "array.array", "deque", "subclass"]
CALL_FORMS = ["positional", "quantiles", "keywords", "cdf-own-tuple", "cdf-own-list", "cdf-own-pylists", "cdf-empty", "quantiles-kw",
              "binned", "binned-kw"]


class _Sub(numpy.ndarray):
    """a plain ndarray subclass (views keep the class): the property is about the values"""


def _container(kind, vals, dt):
    import array as _array
    import collections
    if kind == "range":
        return range(int(vals[0]), int(vals[0]) + len(vals))
    conv = [int(t) for t in vals] if dt.kind in "iuO" else [float(t) for t in vals]
    if dt.kind == "O":                      # Python ints of any size: numpy chooses int64 / uint64 / object itself
        return conv if kind == "list" else (tuple(conv) if kind == "tuple" else __import__("collections").deque(conv))
    arr = numpy.array(conv, dtype=dt)
    if kind == "list":
        return conv
    if kind == "tuple":
        return tuple(conv)
    if kind == "series":
        import pandas
        return pandas.Series(arr, index=[7 * i + 3 for i in range(len(conv))][::-1])
    if kind == "array.array":
        return _array.array("q" if dt.kind in "iu" else "d", conv)
    if kind == "deque":
        return collections.deque(conv)
    if kind == "subclass":
        return arr.view(_Sub)
    return arr


def _qtext(v):
    f = float(v)
    return "nan" if f != f else ("inf" if f == math.inf else ("-inf" if f == -math.inf else frac(Fraction(_exact(v)))))


def _list_class(x, v):
    """known-finding class D48 of a sample given as a sequence of Python ints, or None: numpy turns it into float64 and
    some sample value or the (integer) query is not a float64 value"""
    seq = list(x)
    if not seq or not all(isinstance(t, int) and not isinstance(t, bool) for t in seq):
        return None
    if numpy.asarray(seq).dtype.kind != "f":
        return None
    vals = seq + ([int(v)] if isinstance(v, (int, numpy.integer)) and not isinstance(v, bool) else [])
    if all(int(float(t)) == t for t in vals):
        return None
    return "python-int-list-straddling-2^63"


def _run_code_case(run, case, drv=None, pend=None):
    """one call of the quantile functions in one ARGUMENT FORM (container, keywords, cdf=) -> exact oracle; the same call
    is queued for the statement-level model (`ecdf_code` / `binned_code`)"""
    from csep.utils import stats
    dt = numpy.dtype(case["xdtype"])
    fx = [Fraction(t) for t in case["x"]]
    x = _container(case["container"], fx, dt)
    vt = case["vtype"]
    if case["v"] in ("inf", "-inf", "nan"):
        v = float(case["v"]) if vt == "float" else numpy.dtype(vt.replace("@0d", "")).type(case["v"])
        if vt.endswith("@0d"):
            v = numpy.asarray(v)
    else:
        v = _mk_query(vt, case["v"])
    form = case["form"]
    n = len(fx)
    sig = None
    if dt.kind == "O":
        a = numpy.asarray(list(x))
        lc = _list_class(x, v)
        if lc is not None:
            if lc in AWAITING_DECISION:
                run.count("awaiting:" + lc)
                return
            if lc in KNOWN_FINDING_CLASSES:       # D48: evaluated; a wrong answer is reported with the finding's signature
                sig = "ecdf:" + lc
                run.count("known-class:" + lc)
        elif a.dtype.kind in "iu" and awaiting_class(a, v) is not None:
            run.count("code-layer:skipped-known-class")       # uint64 sample x Python int query: D35, judged in _dtype_cases
            return
    fv = None if case["v"] in ("inf", "-inf", "nan") else Fraction(case["v"])
    if case["v"] == "inf":
        kge, kle = 0, n
    elif case["v"] == "-inf":
        kge, kle = n, 0
    elif case["v"] == "nan":
        kge = kle = None
    else:
        kge, kle = sum(1 for t in fx if t >= fv), sum(1 for t in fx if t <= fv)
    stale = case.get("stale")                   # another sample whose ecdf is handed over as cdf= (statistic only)
    if "ecdf" in _MISSING:
        if stale is not None:
            return
        if form.startswith("cdf-own"):
            form = "positional"
    got = None
    try:
        with (_numstate(case.get("errstate")) if (_FORCE_STATE or case.get("errstate")) and stale is None and kge is not None
              else numpy.errstate(all="ignore")):
            if stale is not None:
                cdf = stats.ecdf(numpy.array([float(Fraction(t)) for t in stale]))
                got = (stats.greater_equal_ecdf(x, v, cdf=cdf), stats.less_equal_ecdf(x, v, cdf=cdf))
            elif form == "positional":
                got = (stats.greater_equal_ecdf(x, v), stats.less_equal_ecdf(x, v))
            elif form == "quantiles":
                got = stats.get_quantiles(x, v)
            elif form == "keywords":
                got = (stats.greater_equal_ecdf(x=x, val=v), stats.less_equal_ecdf(val=v, x=x))
            elif form == "quantiles-kw":
                got = stats.get_quantiles(obs_count=v, sim_counts=x)
            elif form == "cdf-empty":
                got = (stats.greater_equal_ecdf(x, v, cdf=()), stats.less_equal_ecdf(x, v, ()))
            elif form.startswith("cdf-own"):
                ex, ey = stats.ecdf(x)
                cdf = (ex, ey) if form == "cdf-own-tuple" else ([ex, ey] if form == "cdf-own-list" else (list(ex), list(ey)))
                got = (stats.greater_equal_ecdf(x, v, cdf=cdf), stats.less_equal_ecdf(x, v, cdf))
            else:                                # binned_ecdf at [v] (+ a second point above everything)
                top = int(max(fx)) + 1 if dt.kind == "O" else float(max(fx)) + 1.0      # a second point above everything
                vals = [v, top] if (fv is None or fv < Fraction(top)) and case["v"] != "inf" else [v]
                if dt.kind == "O" and len(vals) == 2 and numpy.asarray(vals).dtype.kind == "f":
                    vals = [v]      # two Python ints straddling 2**63 as QUERY list: numpy makes them float64 (D48's family)
                how = case.get("vals_as") if dt.kind != "O" else ("tuple" if case.get("vals_as") == "tuple" else "list")
                vals = tuple(vals) if how == "tuple" else (numpy.array([float(t) for t in vals]) if how == "array" else vals)
                b = stats.binned_ecdf(x, vals) if form == "binned" else stats.binned_ecdf(vals=vals, x=x)
                if len(b[1]) != len(vals) or (len(vals) == 2 and not _feq(_scalar(b[1][1]), 1.0)):
                    raise TypeError(f"binned_ecdf returned {b!r:.200}")
                got = (stats.greater_equal_ecdf(x, v), b[1][0])
        got = (_scalar(got[0]), _scalar(got[1]))
    except IndexError:
        got = "IndexError"
    except Exception as e:
        unpromised = (case["container"] in ("deque", "array.array", "range", "subclass") or dt.kind == "O"
                      or form in ("keywords", "quantiles-kw", "binned-kw", "cdf-own-list", "cdf-own-pylists"))
        if stale is None and kge is not None and unpromised and isinstance(e, (TypeError, ValueError, OverflowError)):
            # an argument FORM the docstrings do not promise (exotic container, Python ints beyond 64 bits, parameter
            # names, a cdf= that is not the documented tuple of arrays) was REJECTED with an error: recorded, no verdict.
            # (A value returned for such a form is judged like any other.)
            _outside(run, "argument-form-rejected", False)
            return
        if stale is None and kge is not None:
            run.oracle_failure(case, f"{form} on a {case['container']}: exception {type(e).__name__}: {e}", signature=sig)
            return
        got = "exc:" + type(e).__name__
    verdict = stale is None and kge is not None        # a stale cdf / a nan query are outside the property: statistic
    if verdict and not _feq(got, (kge / n, kle / n)):
        run.oracle_failure(case, f"{form} on a {case['container']} of {dt.name}: (ge, le)={got!r}, expected ({kge}/{n}, {kle}/{n})",
                           signature=sig)
        return
    if drv is not None:
        line = f"ecdf_code {flist(fx)} {_qtext(v)}" + (f" {flist(Fraction(t) for t in stale)}" if stale is not None else "")
        pend.append((case, drv.ask(line), got, verdict))


def _code_layer(run, rng, tier):
    """argument forms of the public functions (containers, keywords, the cdf= argument in its documented forms, float64
    infinities) against the statement-level model: arrays, reversed array, subscripts, numpy's binary search"""
    from csep.utils import stats
    drv, pend = Driver(), []
    stat = _code_stat(run)
    for _ in range(1000 if tier == "quick" else 12000):
        dt = numpy.dtype(rng.choice(["int64", "float64", "float64", "int32", "float32", "uint8", "int16"]))
        kind = rng.choice(CONTAINERS)
        n = rng.choice([1, 1, 2, 3, 4, 7, 20, 33])
        if kind == "range":
            dt = numpy.dtype("int64")
            lo = rng.randrange(-5, 5)
            vals = [Fraction(lo + i) for i in range(n)]
        elif dt.kind in "iu":
            pool = [rng.randrange(0 if dt.kind == "u" else -9, 30) for _ in range(rng.randint(1, 6))]
            vals = [Fraction(rng.choice(pool)) for _ in range(n)]
        else:
            pool = [Fraction(rng.choice([0.5, 1.25, -2.0, 3.75, 0.0, 7.5, 0.125]) + rng.randrange(0, 4)) for _ in range(rng.randint(1, 6))]
            vals = [rng.choice(pool) for _ in range(n)]
        if kind == "array.array" and dt.name not in ("int64", "float64"):
            dt = numpy.dtype("int64" if dt.kind in "iu" else "float64")
        pyint = kind in ("list", "tuple", "deque") and rng.random() < 0.35
        if pyint:
            # Python ints of any size: int64 beyond 2**53, uint64 (all >= 2**63), object arrays (beyond 2**64, negative huge)
            base = rng.choice([2 ** 53 - 2, 2 ** 62 + 7, 2 ** 63 + 3, 2 ** 64 + 5, 2 ** 70, -2 ** 70, -2 ** 63 - 9, 2 ** 63 - 2])
            pool = [base + rng.randrange(0, 4) for _ in range(rng.randint(1, 5))]
            if rng.random() < 0.3 and base >= 2 ** 64 or base <= -2 ** 63 - 9:
                pool.append(rng.choice([-7, 0, 12]))         # object array with small and huge entries
            vals = [Fraction(rng.choice(pool)) for _ in range(n)]
            dt = numpy.dtype("O")
        lo, hi = min(vals), max(vals)
        r = rng.random()
        if pyint:
            q = rng.choice([rng.choice(vals), rng.choice(vals) + 1, rng.choice(vals) - 1, lo, hi, lo - 1, hi + 1, 0, 2 ** 80, -2 ** 80])
            vtxt, vt = str(int(q)), "int"
        elif r < 0.12:
            vtxt, vt = rng.choice(["inf", "-inf"]), rng.choice(["float", "float64", "float32", "float64@0d"])
        elif r < 0.15:
            vtxt, vt = "nan", rng.choice(["float", "float64"])
        else:
            q = rng.choice([rng.choice(vals), rng.choice(vals), lo - 1, hi + 1, (lo + hi) / 2, rng.choice(vals) + Fraction(1, 4),
                            lo, hi])
            tq = [t for t in _typed_queries(q)]
            if not tq:
                continue
            t = rng.choice(tq)
            vtxt, vt = str(Fraction(_exact(t))), _vtype(t)
        form = rng.choice(CALL_FORMS)
        case = dict(tag="code-layer", container=kind, xdtype=dt.name, x=[str(t) for t in vals], v=vtxt, vtype=vt, form=form,
                    vals_as=rng.choice(["list", "tuple", "array"]))
        if vt.endswith("@0d") and form.startswith("binned"):
            case["vals_as"] = "list"
        if rng.random() < 0.3:
            case["errstate"] = rng.choice(["div-inv", "all", "all"])
            run.count("errstate:" + case["errstate"])
        if rng.random() < 0.04:
            case["stale"] = [str(rng.choice(vals) + rng.choice([-1, 0, 2])) for _ in range(rng.choice([1, 2, 5]))]
            case["form"] = "positional"
        run.case(dict(case, x=case["x"][:12]), ("code", kind, dt.name, tuple(vals), vtxt, vt, case["form"])
                 if len(set(vals)) < n or vtxt in case["x"] else None)
        run.count("code-layer:" + case["form"])
        run.count("container:" + kind)
        _run_code_case(run, case, drv, pend)
    # ecdf(x) itself: the two arrays
    for _ in range(40 if tier == "quick" else 400):
        n = rng.choice([1, 2, 5, 17])
        vals = [Fraction(rng.randrange(-4, 9), rng.choice([1, 1, 2, 4])) for _ in range(n)]
        kind = rng.choice(["list", "tuple", "array", "series", "deque"])
        case = dict(tag="ecdf-arrays", container=kind, x=[str(t) for t in vals])
        run.case(case, None)
        _run_ecdf_arrays(run, case)
    _flush_code(run, drv, pend, stat)


def _code_stat(run):
    return run.extra.setdefault("code_layer", dict(
        note="statement-level model (Model/EcdfCode.lean) against the library; verdict for finite / infinite queries, "
             "statistic for nan queries and for a cdf= of another sample (outside the property)",
        cases=0, outside_property_cases=0, outside_property_predicted=0, disagreements=[]))


def _flush_code(run, drv, pend, stat):
    out = drv.run()
    for case, i, got, verdict in pend:
        parts = out[i].split(" ")
        if len(parts) != 2:
            model = out[i]
        elif "IndexError" in parts:
            model = "IndexError"
        else:
            try:
                model = tuple(float(Fraction(t)) for t in parts)
            except Exception:
                model = out[i]
        if verdict:
            stat["cases"] += 1
            if not (isinstance(model, tuple) and isinstance(got, tuple) and _feq(model, got)):
                run.mismatch(dict(case, op="ecdf_code"), repr(got), out[i])
        else:
            stat["outside_property_cases"] += 1
            if model == got:
                stat["outside_property_predicted"] += 1
            elif len(stat["disagreements"]) < 6:
                stat["disagreements"].append(dict(case=case, library=repr(got), model=out[i]))


def _corpus(run):
    """corpus/C09/*.json (minimised witnesses and their must-stay-right neighbours) run first"""
    import json
    cdir = os.path.join(os.path.dirname(os.path.dirname(os.path.abspath(__file__))), "corpus", "C09")
    if not os.path.isdir(cdir):
        return
    drv, pend = Driver(), []
    for fn in sorted(os.listdir(cdir)):
        if fn.endswith(".json"):
            case = json.load(open(os.path.join(cdir, fn)))
            case = dict(case.get("case", case))
            if case.get("tag") == "code-layer":
                run.case(case, None)
                run.count("corpus")
                _run_code_case(run, case, drv, pend)
    _flush_code(run, drv, pend, _code_stat(run))


def _run_ecdf_arrays(run, case):
    from csep.utils import stats
    if "ecdf" in _MISSING:
        return
    vals = [Fraction(t) for t in case["x"]]
    x = _container(case["container"], vals, numpy.dtype("float64"))
    n = len(vals)
    try:
        ex, ey = stats.ecdf(x)
        ok = [Fraction(float(t)) for t in ex] == sorted(vals) and _feq([float(t) for t in ey], [(i + 1) / n for i in range(n)])
    except Exception as e:
        run.oracle_failure(case, f"ecdf raised {type(e).__name__}: {e}")
        return
    if not ok:
        run.oracle_failure(case, "ecdf(x) is not (sorted x, (1..n)/n)")


# ----------------------------------------------------------------------------- samples that contain -inf / +inf
def _xkey(t):
    """exact order key of a float value that is not nan: (-1, 0) for -inf, (0, Fraction) finite, (1, 0) for +inf"""
    f = float(t)
    return (-1, 0) if f == -math.inf else ((1, 0) if f == math.inf else (0, Fraction(f)))


def _run_inf_case(run, case, drv=None, pend=None):
    """a real-valued sample with infinite entries (IEEE: the two extreme values of the order; -inf is an ordinary
    log-likelihood statistic), looked up through get_quantiles and the three direct functions: exact counts in the
    extended reals (Ecdf.inf_sample_code_eq)"""
    from csep.utils import stats
    dt = numpy.dtype(case["xdtype"])
    vals = [float(t) for t in case["x"]]
    arr = numpy.array(vals, dtype=dt)
    x = arr.tolist() if case["as_list"] else arr
    vt = case["vtype"]
    v = float(case["v"]) if vt == "float" else numpy.dtype(vt.replace("@0d", "")).type(float(case["v"]))
    if vt.endswith("@0d"):
        v = numpy.asarray(v)
    n = len(vals)
    kx, kv = [_xkey(t) for t in vals], _xkey(float(case["v"]))
    kge, kle = sum(1 for t in kx if t >= kv), sum(1 for t in kx if t <= kv)
    snap = arr.tobytes()
    call = case["call"]
    try:
        with (_numstate(case.get("errstate")) if (_FORCE_STATE or case.get("errstate")) else numpy.errstate(all="ignore")):
            if call == "quantiles":
                got = stats.get_quantiles(x, v)
            elif call == "separate":
                got = (stats.greater_equal_ecdf(x, v), stats.less_equal_ecdf(x, v))
            elif call == "cdf" and "ecdf" not in _MISSING:
                cdf = stats.ecdf(x)
                got = (stats.greater_equal_ecdf(x, v, cdf), stats.less_equal_ecdf(x, v, cdf=cdf))
            elif call == "binned":
                b = stats.binned_ecdf(x, [v])
                got = (stats.get_quantiles(x, v)[0], b[1][0])
            else:
                got = stats.get_quantiles(sim_counts=x, obs_count=v)
        got = (_scalar(got[0]), _scalar(got[1]))
    except Exception as e:
        run.oracle_failure(case, f"{call}: exception {type(e).__name__}: {e}")
        return
    if not _feq(got, (kge / n, kle / n)):
        run.oracle_failure(case, f"{call} on a {dt.name} sample with infinite entries: (ge, le)={got!r}, expected ({kge}/{n}, {kle}/{n})")
        return
    if not case["as_list"] and arr.tobytes() != snap:
        run.oracle_failure(case, "the lookups modified the caller's sample in place")
        return
    if drv is not None:
        # the model sees the sample through the order embedding -inf -> lo, +inf -> hi (Ecdf.embed)
        fin = [Fraction(t) for t in vals + [float(case["v"])] if math.isfinite(t)]
        lo, hi = (min(fin) - 1, max(fin) + 1) if fin else (Fraction(-1), Fraction(1))
        emb = lambda t: lo if t == -math.inf else (hi if t == math.inf else Fraction(t))
        pend.append((case, drv.ask(f"ecdf_code {flist(emb(t) for t in vals)} {frac(emb(float(case['v'])))}"), got, True))


def _infinite_samples(run, rng, tier):
    drv, pend = Driver(), []
    for _ in range(300 if tier == "quick" else 3000):
        dt = numpy.dtype(rng.choice(["float64", "float64", "float32", "float16"]))
        pool = rng.sample([-3.5, -1.25, 0.0, -0.0, 0.5, 2.0, 7.75, -96.0, 5e-324 if dt.name == "float64" else 0.25], rng.randint(1, 4))
        n = rng.choice([1, 2, 3, 4, 7, 20])
        p_lo, p_hi = rng.choice([(0.5, 0.0), (0.3, 0.3), (0.0, 0.4), (1.0, 0.0), (0.0, 1.0), (0.5, 0.5), (0.1, 0.0)])
        vals = []
        for _i in range(n):
            r = rng.random()
            vals.append(-math.inf if r < p_lo else (math.inf if r < p_lo + p_hi else rng.choice(pool)))
        q = rng.choice([-math.inf, math.inf, rng.choice(vals), rng.choice(pool), rng.choice(pool) + 0.125, rng.choice(pool) - 0.125])
        vt = rng.choice(["float", dt.name, "float64", dt.name + "@0d"])
        case = dict(tag="inf-sample", xdtype=dt.name, x=[repr(float(t)) for t in vals], v=repr(float(q)), vtype=vt,
                    as_list=rng.random() < 0.3, call=rng.choice(["quantiles", "quantiles", "separate", "cdf", "binned", "quantiles-kw"]))
        if rng.random() < 0.3:
            case["errstate"] = rng.choice(["div-inv", "all", "all"])
            run.count("errstate:" + case["errstate"])
        run.case(case, ("inf", dt.name, tuple(case["x"]), case["v"], vt, case["call"]))
        run.count("inf-sample:" + ("all-infinite" if all(math.isinf(t) for t in vals) else
                                   ("with-infinities" if any(math.isinf(t) for t in vals) else "finite")))
        _run_inf_case(run, case, drv, pend)
    _flush_code(run, drv, pend, _code_stat(run))


# ----------------------------------------------------------------------------- aliasing of RETURNED arrays
def _run_alias_case(run, case):
    """the arrays a public call returns belong to the caller: he may scale / zero / re-sort them in place; no later lookup
    - on the same sample, on ANOTHER sample of the same length, on a sample of another length - may change"""
    from csep.utils import stats
    dt = numpy.dtype(case["xdtype"])
    conv = (lambda t: int(Fraction(t))) if dt.kind in "iu" else (lambda t: float(Fraction(t)))
    samples = [numpy.array([conv(t) for t in xs], dtype=dt) for xs in case["samples"]]
    mut = case["mutation"]

    def spoil(a):
        """what a caller may do to an array he was handed (False: the array is read-only, nothing to spoil)"""
        if not isinstance(a, numpy.ndarray) or not a.flags.writeable or a.size == 0:
            return False
        with numpy.errstate(all="ignore"):
            if mut == "scale":
                a *= 100
            elif mut == "zero":
                a[...] = 0
            elif mut == "minus-one":
                a -= 1
            else:
                a[::-1].sort()
        return True

    def lookups(k, where):
        for i, (xs, arr) in enumerate(zip(case["samples"], samples)):
            fx = [Fraction(t) for t in xs]
            for vtxt in case["queries"]:
                fv = Fraction(vtxt)
                v = conv(vtxt)
                n = len(fx)
                want = (sum(1 for t in fx if t >= fv) / n, sum(1 for t in fx if t <= fv) / n)
                try:
                    how = case["lookup"]
                    if how == "quantiles":
                        got = stats.get_quantiles(arr, v)
                    elif how == "separate":
                        got = (stats.greater_equal_ecdf(arr, v), stats.less_equal_ecdf(arr, v))
                    else:
                        got = (stats.greater_equal_ecdf(arr, v), stats.binned_ecdf(arr, [v])[1][0])
                    got = (_scalar(got[0]), _scalar(got[1]))
                except Exception as e:
                    run.oracle_failure(case, f"{where}: lookup on sample {i} raised {type(e).__name__}: {e}")
                    return False
                if not _feq(got, want):
                    run.oracle_failure(case, f"{where}: lookup on sample {i} (length {n}) at {vtxt} gives {got!r}, expected {want!r}")
                    return False
        return True
    if not lookups(0, "before anything was modified"):
        return
    for step, src in enumerate(case["sources"]):
        arr = samples[src["sample"] % len(samples)]
        try:
            if src["api"] == "ecdf":
                if "ecdf" in _MISSING:
                    continue
                ex, ey = stats.ecdf(arr)
                spoiled = [spoil(ey), spoil(ex)]
            else:
                qv = numpy.array([conv(t) for t in case["queries"]], dtype=dt)
                ret = stats.binned_ecdf(arr, qv)
                spoiled = [spoil(ret[1])]
        except Exception as e:
            run.oracle_failure(case, f"step {step}: {src['api']} raised {type(e).__name__}: {e}")
            return
        run.count("aliasing:" + src["api"] + (":spoiled" if any(spoiled) else ":returned-read-only"))
        # the sample handed in must not have been touched by spoiling what came back (numpy.sort returns a copy)
        if [_exact(t) for t in arr.tolist()] != [int(Fraction(t)) if dt.kind in "iu" else Fraction(float(Fraction(t)))
                                                   for t in case["samples"][src["sample"] % len(samples)]]:
            run.oracle_failure(case, f"step {step}: modifying the arrays {src['api']}() returned changed the caller's sample")
            return
        if not lookups(step + 1, f"after the caller modified IN PLACE ({mut}) the arrays {src['api']}() returned for sample "
                                 f"{src['sample'] % len(samples)}"):
            return


def _aliasing(run, rng, tier):
    for _ in range(150 if tier == "quick" else 1500):
        dt = numpy.dtype(rng.choice(["float64", "float64", "int64", "float32", "int32"]))
        n = rng.choice([1, 2, 3, 5, 7, 16, 40])
        pool = [rng.randrange(-6, 30) for _ in range(rng.randint(1, 6))] if dt.kind in "iu" else \
            [rng.choice([0.5, 1.25, -2.0, 3.75, 0.0, 7.5]) + rng.randrange(0, 4) for _ in range(rng.randint(1, 6))]
        mk = lambda m: [str(Fraction(rng.choice(pool))) for _ in range(m)]
        # the sample whose arrays get modified, ANOTHER sample of the same length, and one of another length
        samples = [mk(n), mk(n), mk(n + rng.choice([1, 2, 5]))]
        queries = sorted(set(str(Fraction(rng.choice(pool) + rng.choice([0, 0, 1, -1]))) for _ in range(3)), key=Fraction)
        case = dict(tag="aliasing", xdtype=dt.name, samples=samples, queries=queries,
                    mutation=rng.choice(["scale", "zero", "minus-one", "reverse-sort"]),
                    lookup=rng.choice(["quantiles", "separate", "binned"]),
                    sources=[dict(api=rng.choice(["ecdf", "ecdf", "binned"]), sample=rng.randrange(3)) for _ in range(rng.randint(1, 3))])
        run.case(dict(tag="aliasing", xdtype=dt.name, n=n, mutation=case["mutation"], sources=[s_["api"] for s_ in case["sources"]]),
                 ("alias", dt.name, tuple(map(tuple, samples)), tuple(queries), case["mutation"], case["lookup"],
                  tuple((s_["api"], s_["sample"]) for s_ in case["sources"])))
        _run_alias_case(run, case)


# ----------------------------------------------------------------------------- sup_dist / sup_dist_na
def _sup_dist(run, rng, tier):
    """sup_dist_na(d1, d2) = sup over the pooled sample of |F1 - F2| with F_i the "at most" probability of sample i
    (Ecdf.sup_dist_na_spec); sup_dist(cdf1, cdf2) = max |cdf2 - cdf1|"""
    from csep.utils import stats
    if "sup_dist_na" in _MISSING:
        return
    drv, pend = Driver(), []
    bit = run.extra.setdefault("sup_dist_na", dict(cases=0, bitexact_with_soft64=0))
    for it in range(250 if tier == "quick" else 2500):
        kind = rng.choice(["int", "decimal", "float", "int"])
        n1, n2 = rng.choice([1, 1, 2, 3, 7, 30]), rng.choice([1, 2, 3, 5, 11, 30])
        if rng.random() < 0.06:
            n1, n2 = rng.choice([100, 200]), rng.choice([150, 300])
        if kind == "int":
            pool = [rng.randrange(-4, 12) for _ in range(rng.randint(1, 8))]
        elif kind == "decimal":
            pool = [round(rng.uniform(0, 3), 1) for _ in range(rng.randint(1, 8))]
        else:
            pool = [rng.uniform(-5, 5) for _ in range(rng.randint(1, 30))]
        d1 = [rng.choice(pool) for _ in range(n1)]
        d2 = [rng.choice(pool + [max(pool) + 1, min(pool) - 1]) for _ in range(n2)]
        if rng.random() < 0.1:
            d2 = list(d1)                                  # identical samples: distance 0
            n2 = n1
        f1, f2 = [Fraction(t) for t in d1], [Fraction(t) for t in d2]
        case = dict(d1=[str(t) for t in f1], d2=[str(t) for t in f2], kind=kind, tag="sup_dist_na")
        form = rng.choice(["list", "array", "mixed"])
        a1 = d1 if form == "list" else numpy.array(d1)
        a2 = numpy.array(d2) if form == "array" else d2
        run.case(case, ("supna", tuple(f1), tuple(f2)) if len(set(f1) & set(f2)) or len(set(f1)) < n1 else None)
        run.count("sup_dist_na")
        try:
            got = float(stats.sup_dist_na(a1, a2))
        except Exception as e:
            run.oracle_failure(case, f"sup_dist_na raised {type(e).__name__}: {e}")
            continue
        s1, s2 = sorted(f1), sorted(f2)
        want = max(abs(Fraction(bisect.bisect_right(s1, p), n1) - Fraction(bisect.bisect_right(s2, p), n2))
                   for p in set(f1 + f2))
        if abs(Fraction(got) - want) > Fraction(1, 10 ** 15):
            run.oracle_failure(case, f"sup_dist_na={got!r}, sup over the pooled sample of |F1-F2| = {float(want)!r}")
            continue
        pend.append((case, drv.ask(f"sup_dist_na {flist(f1)} {flist(f2)}"), got, want))
        # sup_dist on two aligned ecdf arrays (the values binned_ecdf returns)
        if it % 3 == 0 and "sup_dist" not in _MISSING:
            pts = sorted(set(f1 + f2))
            c1 = [sum(1 for t in f1 if t <= p) / n1 for p in pts]
            c2 = [sum(1 for t in f2 if t <= p) / n2 for p in pts]
            sc = dict(cdf1=[repr(t) for t in c1], cdf2=[repr(t) for t in c2], tag="sup_dist")
            run.case(sc, None)
            try:
                g = float(stats.sup_dist(numpy.array(c1), numpy.array(c2)))
            except Exception as e:
                run.oracle_failure(sc, f"sup_dist raised {type(e).__name__}: {e}")
                continue
            w = max(abs(b - a) for a, b in zip(c1, c2))
            if not _feq(g, w):
                run.oracle_failure(sc, f"sup_dist={g!r}, max|cdf2-cdf1|={w!r}")
                continue
            pend.append((sc, drv.ask(f"sup_dist {flist(Fraction(t) for t in c1)} {flist(Fraction(t) for t in c2)}"), g, None))
    out = drv.run()
    for case, i, got, want in pend:
        if want is None:
            if not _feq(float(Fraction(out[i])), got):
                run.mismatch(case, frac(Fraction(got)), out[i])
            continue
        ex, fl = out[i].split(" ")
        bit["cases"] += 1
        bit["bitexact_with_soft64"] += int(Fraction(fl) == Fraction(got))
        if Fraction(ex) != want or abs(Fraction(got) - Fraction(ex)) > Fraction(1, 10 ** 15):
            run.mismatch(case, frac(Fraction(got)), out[i])


# ----------------------------------------------------------------------------- min_or_none / max_or_none
def _min_max(run, rng, tier):
    from csep.utils import stats
    if "min_or_none" in _MISSING or "max_or_none" in _MISSING:
        return
    drv, pend = Driver(), []
    for _ in range(150 if tier == "quick" else 1500):
        dt = numpy.dtype(rng.choice(UINTS + SINTS + FLOATS))
        n = rng.choice([0, 0, 1, 2, 3, 9, 100])
        if dt.kind in "iu":
            ii = numpy.iinfo(dt)
            base = rng.choice([0, ii.min, ii.max - 20] + ([2 ** 53 - 3] if dt.itemsize == 8 else []))
            vals = [min(ii.max, max(ii.min, base + rng.randrange(0, 20))) for _ in range(n)]
        else:
            vals = [float(dt.type(rng.choice([0.1, -0.3, 1.0, 2.5, rng.uniform(-9, 9)]))) for _ in range(n)]
        arr = numpy.array(vals, dtype=dt)
        arg = arr if rng.random() < 0.7 else arr.tolist()
        fx = [_exact(t) for t in (arr.tolist() if dt.kind in "iu" else arr)]
        case = dict(x=[str(t) for t in fx], xdtype=dt.name, as_list=not isinstance(arg, numpy.ndarray), tag="min_max")
        run.case(case, ("minmax", dt.name, tuple(fx)) if len(set(fx)) < len(fx) else None)
        run.count("min_max" if n else "min_max:empty")
        if n == 0:
            # empty input: outside C09 (the helpers' own contract: None); recorded, not a verdict
            got0, exc = _quiet(lambda: (stats.min_or_none(arg), stats.max_or_none(arg)))
            _outside(run, "empty-min-max", exc is None and got0[0] is None and got0[1] is None)
            continue
        try:
            lo, hi = stats.min_or_none(arg), stats.max_or_none(arg)
        except Exception as e:
            run.oracle_failure(case, f"exception {type(e).__name__}: {e}")
            continue
        try:
            ok = lo is not None and hi is not None and _exact(lo) == min(fx) and _exact(hi) == max(fx)
        except Exception:
            ok = False
        if not ok:
            run.oracle_failure(case, f"min/max = {lo!r}/{hi!r}, expected {min(fx)}/{max(fx)}")
            continue
        # the extremes have probability one (Ecdf.extremes_have_probability_one)
        ext = _guard(run, case, "P(X >= min), P(X <= max)", lambda: (stats.greater_equal_ecdf(arr, lo), stats.less_equal_ecdf(arr, hi)))
        if ext is _FAILED:
            continue
        try:
            ok = _feq(_scalar(ext[0]), 1.0) and _feq(_scalar(ext[1]), 1.0)
        except Exception:
            ok = False
        if not ok:
            run.oracle_failure(case, f"P(X >= min), P(X <= max) = {ext!r}, expected 1, 1")
        pend.append((case, drv.ask(f"min_max {flist(Fraction(t) for t in fx)}"), Fraction(_exact(lo)), Fraction(_exact(hi))))
    out = drv.run()
    for case, i, lo, hi in pend:
        a, b = out[i].split(" ")
        if a == "none" or Fraction(a) != lo or Fraction(b) != hi:
            run.mismatch(case, [str(lo), str(hi)], out[i])


def replay(run, payload):
    case = payload["case"]
    _detect_helpers(run)
    _REPLAY_STATE.clear()
    _REPLAY_STATE["errstate"] = case.get("errstate")
    if case.get("tag") in ("sup_dist_na", "sup_dist", "min_max", "infinite-query"):
        return _replay_extra(run, case)
    if case.get("tag") == "session":
        run.case(case, None)
        return _run_session(run, case)
    if case.get("tag") == "aliasing":
        run.case(case, None)
        return _run_alias_case(run, case)
    if case.get("tag") == "inf-sample":
        run.case(case, None)
        drv, pend = Driver(), []
        _run_inf_case(run, case, drv, pend)
        return _flush_code(run, drv, pend, _code_stat(run))
    if case.get("tag") == "code-layer":
        run.case(case, None)
        drv, pend = Driver(), []
        _run_code_case(run, case, drv, pend)
        out = drv.run()
        for c, i, got, verdict in pend:
            parts = out[i].split(" ")
            model = "IndexError" if "IndexError" in parts else tuple(float(Fraction(t)) for t in parts)
            if verdict and not (isinstance(model, tuple) and isinstance(got, tuple) and _feq(model, got)):
                run.mismatch(dict(c, op="ecdf_code"), repr(got), out[i])
        return
    if case.get("tag") == "ecdf-arrays":
        run.case(case, None)
        return _run_ecdf_arrays(run, case)
    if case.get("tag") == "large-sample":
        run.case(case, None)
        return _run_large(run, case)
    if case.get("tag") == "binned-dtype":
        from csep.utils import stats
        dx, dq = numpy.dtype(case["xdtype"]), numpy.dtype(case["vdtype"])
        fx, fvals = [Fraction(t) for t in case["x"]], [Fraction(t) for t in case["vals"]]
        x = numpy.array([int(t) if dx.kind in "iu" else float(t) for t in fx], dtype=dx)
        vals = numpy.array([int(t) if dq.kind in "iu" else float(t) for t in fvals], dtype=dq)
        run.case(case, None)
        got = _guard(run, case, "binned_ecdf", lambda: stats.binned_ecdf(x, vals), state=case.get("errstate"))
        if got is _FAILED:
            return
        want = [sum(1 for t in fx if t <= v) / len(fx) for v in fvals]
        try:
            ok = got is not None and _feq([_scalar(t) for t in got[1]], want)
        except Exception:
            ok = False
        if not ok:
            run.oracle_failure(case, f"binned_ecdf={got!r:.300} expected {want!r}")
        return
    if "xdtype" in case and isinstance(case.get("x"), list) and case["x"]:
        fx = [Fraction(t) for t in case["x"]]
        if case["xdtype"] in ("int", "float"):
            x = [int(t) if case["xdtype"] == "int" else float(t) for t in fx]
        else:
            dx = numpy.dtype(case["xdtype"])
            x = numpy.array([int(t) if dx.kind in "iu" else float(t) for t in fx], dtype=dx)
        v = _mk_query(case["vtype"], case["v"])
        drv, pending = Driver(), []
        _check_case(run, drv, pending, x, v, case.get("as_list", False), "replay", layout=case.get("layout"))
        _flush(run, drv, pending)
        return
    if case.get("tag") == "binned" or "vals" in case:
        from csep.utils import stats
        x = [float(t) for t in case["x"]]; vals = [float(t) for t in case["vals"]]
        n = len(x)
        if n == 0:
            got, exc = _quiet(lambda: stats.binned_ecdf([], vals))
            _outside(run, "empty-sample-binned", exc is None and got is None)
            return
        run.case(case, None)
        got = _guard(run, case, "binned_ecdf", lambda: stats.binned_ecdf(numpy.array(x), numpy.array(vals)),
                     state=case.get("errstate"))
        if got is _FAILED:
            return
        want = [sum(1 for t in x if Fraction(t) <= Fraction(v)) / n for v in vals]
        try:
            ok = got is not None and _feq([_scalar(t) for t in got[1]], want)
        except Exception:
            ok = False
        if not ok:
            run.oracle_failure(case, f"binned_ecdf={got!r:.300} expected {want!r}")
        return
    if not case.get("x"):
        from csep.utils import stats
        got, exc = _quiet(lambda: (stats.greater_equal_ecdf([], 1.0), stats.less_equal_ecdf(numpy.array([]), 1.0)))
        _outside(run, "empty-sample", exc is None and got[0] is None and got[1] is None)
        return
    x = [float(t) if "." in t or "e" in t or "inf" in t else int(t) for t in case["x"]]
    v = float(case["v"]) if "." in case["v"] else int(case["v"])
    drv, pending = Driver(), []
    _check_case(run, drv, pending, x, v, case.get("as_list", False), "replay")
    _flush(run, drv, pending)


def _replay_extra(run, case):
    from csep.utils import stats
    run.case(case, None)
    tag = case["tag"]
    if (tag == "sup_dist_na" and "sup_dist_na" in _MISSING) or (tag == "sup_dist" and "sup_dist" in _MISSING) or \
            (tag == "min_max" and ("min_or_none" in _MISSING or "max_or_none" in _MISSING)):
        return
    if tag == "sup_dist_na":
        f1, f2 = [Fraction(t) for t in case["d1"]], [Fraction(t) for t in case["d2"]]
        conv = (lambda t: int(t)) if case.get("kind") == "int" else float
        got = _guard(run, case, "sup_dist_na", lambda: float(stats.sup_dist_na([conv(t) for t in f1], numpy.array([conv(t) for t in f2]))))
        if got is _FAILED:
            return
        want = max(abs(Fraction(sum(1 for t in f1 if t <= p), len(f1)) - Fraction(sum(1 for t in f2 if t <= p), len(f2)))
                   for p in f1 + f2)
        if abs(Fraction(got) - want) > Fraction(1, 10 ** 15):
            run.oracle_failure(case, f"sup_dist_na={got!r}, sup over the pooled sample of |F1-F2| = {float(want)!r}")
    elif tag == "sup_dist":
        c1, c2 = [float(t) for t in case["cdf1"]], [float(t) for t in case["cdf2"]]
        g = _guard(run, case, "sup_dist", lambda: float(stats.sup_dist(numpy.array(c1), numpy.array(c2))))
        if g is _FAILED:
            return
        w = max(abs(b - a) for a, b in zip(c1, c2))
        if not _feq(g, w):
            run.oracle_failure(case, f"sup_dist={g!r}, max|cdf2-cdf1|={w!r}")
    elif tag == "min_max":
        dt = numpy.dtype(case["xdtype"])
        fx = [Fraction(t) for t in case["x"]]
        arr = numpy.array([int(t) if dt.kind in "iu" else float(t) for t in fx], dtype=dt)
        arg = arr.tolist() if case.get("as_list") else arr
        got = _guard(run, case, "min_or_none / max_or_none", lambda: (stats.min_or_none(arg), stats.max_or_none(arg)))
        if got is _FAILED:
            return
        lo, hi = got
        if not fx:
            _outside(run, "empty-min-max", lo is None and hi is None)
            return
        try:
            ok = lo is not None and hi is not None and _exact(lo) == min(fx) and _exact(hi) == max(fx)
        except Exception:
            ok = False
        if not ok:
            run.oracle_failure(case, f"min/max = {lo!r}/{hi!r}, expected {min(fx)}/{max(fx)}")
    else:
        dt = numpy.dtype(case["xdtype"])
        arr = numpy.array([int(t) if dt.kind in "iu" else float(t) for t in case["x"]], dtype=dt)
        sign = 1 if case["v"] == "inf" else -1
        base = case["vtype"].replace("@0d", "")
        v = sign * (float("inf") if base == "float" else numpy.dtype(base).type("inf"))
        if case["vtype"].endswith("@0d"):
            v = numpy.asarray(v)
        want = (0.0, 1.0) if sign > 0 else (1.0, 0.0)
        got = _guard(run, case, "infinite query", lambda: (stats.greater_equal_ecdf(arr, v), stats.less_equal_ecdf(arr, v)))
        if got is _FAILED:
            return
        try:
            ok = _feq(tuple(map(_scalar, got)), want)
        except Exception:
            ok = False
        if not ok:
            run.oracle_failure(case, f"(ge, le)={got!r}, expected {want}")
