"""C04 (extension) — apply_mct, the filter stage of CatalogForecast.__next__, and extras of filter / filter_spatial
(update_stats, results that share nothing with the catalog they were taken from).

Correspondence with Model/FilterMct.lean (ops c04_mct, c04_next) + direct oracle. The two transcendental floats of apply_mct
(`10 ** x` for t_crit, `log10` for the completeness magnitude) are computed here with the same formulas; an event whose magnitude
is within 1e-9 of its completeness magnitude is in a band where either answer is accepted, and generated times keep 0.01 ms
away from t_crit_epoch unless t_crit is exactly representable (1, 10, 100 days), where the boundary itself is exercised."""
import datetime
import json
import math
import types
from fractions import Fraction

import numpy

from .core import frac

# Input classes on which the UNCHANGED code misbehaves and that wait for a decision (genuine-defect candidates, see notes/C04.md).
# While an entry is listed its class is not generated; delete the entry and the generator produces it and the oracle reports it.
# W-C04-1 (apply_mct on an empty catalog) and W-C04-2 (filter_spatial with a quadtree region) were repaired in /repo by D37 (cafbaf1)
# and D42 (cf7bcb4); both classes are generated since and their witnesses are corpus cases.
AWAITING_DECISION = [
    dict(id="W-C04-3", cls="spatial-nan-coordinate-cartesian",
         what="filter_spatial(CartesianGrid2D) on a catalog holding an event whose latitude or longitude is NaN raises IndexError "
              "(bin1d_vec turns NaN into the minimum int64, regions.py get_masked indexes with it) instead of removing the event, "
              "which lies in no cell; QuadtreeGrid2D.get_masked removes it"),
]
_AWAIT = {w["cls"] for w in AWAITING_DECISION}

EPOCH0 = datetime.datetime(1970, 1, 1)
DAY = 86400000
EXACT_TCRIT_DAYS = (1.0, 10.0, 100.0, 1000.0)


# ----------------------------------------------------------------------------- the floats of apply_mct, as the code computes them
def tcrit_of(m_main, epoch, mc):
    t_crit_days = 10 ** -((mc - m_main + 4.5) / 0.75)          # catalogs.py:615
    t_crit_millis = t_crit_days * 86400 * 1000                 # time_utils.days_to_millis
    return t_crit_days, t_crit_millis, t_crit_millis + epoch   # :622


def mct_of(t_ms, epoch, m_main):
    """completeness magnitude at time t_ms (>= epoch); +inf at the mainshock instant (log10(0) = -inf)"""
    d = (t_ms - epoch) / 86400 / 1000
    if d == 0:
        return math.inf
    return m_main - 4.5 - 0.75 * math.log10(d)


def decide_below(row_t, row_m, epoch, m_main):
    """(below, in_band) for a row inside the window"""
    m = mct_of(row_t, epoch, m_main)
    if m == math.inf:
        return row_m < m, False              # every reported magnitude is below +inf; an unreported one (NaN) is not
    band = abs(row_m - m) <= 1e-9 * max(1.0, abs(m))
    return row_m < m, band


# ----------------------------------------------------------------------------- generator
def gen_mct_params(rng):
    m_main = rng.choice([7.0, 7.0, 7.75, 8.5, 6.25, 7.3, round(rng.uniform(5.5, 9.0), 1), rng.uniform(5.5, 9.0)])
    mc = rng.choice([2.5, 2.5, 2.5, 3.0, 2.0, round(rng.uniform(1.5, 4.0), 1)])
    if rng.random() < 0.25:     # t_crit exactly 1 / 10 / 100 days
        m_main, mc = rng.choice([(7.0, 2.5), (7.75, 2.5), (8.5, 2.5), (7.5, 3.0), (6.5, 2.0)])
    epoch = rng.choice([1246406400000, 0, 946684800000, -1097606850620, 1577836800123, rng.randrange(-10 ** 12, 2 * 10 ** 12)])
    return m_main, mc, epoch


def gen_mct_rows(rng, m_main, mc, epoch, n, sorted_=True, nan_ok=False):
    from . import c04 as base
    days, tcm, tcrit = tcrit_of(m_main, epoch, mc)
    exact = days in EXACT_TCRIT_DAYS
    ft = int(math.floor(tcrit))
    offs = [-DAY, -1000, -1, 0, 0, 1, 2, 1000, 60000, 3600000, int(tcm * 0.01), int(tcm * 0.1), int(tcm * 0.5), int(tcm * 0.9),
            ft - epoch - 1, ft - epoch, ft - epoch + 1, ft - epoch + 2, int(tcm * 2), int(tcm) + DAY]
    tpool = [epoch + rng.choice(offs) for _ in range(rng.randint(2, 8))] + [epoch + rng.randrange(-DAY, int(tcm * 1.5) + 2)]
    if not exact:
        tpool = [t for t in tpool if abs(t - tcrit) > 0.01] or [epoch + 1]
    rows = []
    for i in range(n):
        if rows and rng.random() < 0.1:
            e = rng.choice(rows)
            rows.append((i + 1,) + e[1:])
            continue
        t = rng.choice(tpool)
        k = rng.random()
        if t > epoch and k < 0.7:
            m = mct_of(t, epoch, m_main) + rng.choice([1e-3, -1e-3, 0.05, -0.05, 0.5, -0.5, 2.0, -2.0, 1e-6, -1e-6])
        elif k < 0.85:
            m = rng.choice([mc, mc - 0.1, mc + 0.1, m_main, 9.5, 0.0, -1.0])
        else:
            m = rng.uniform(-1, 9.5)
        if nan_ok and rng.random() < 0.04:
            m = float("nan")                     # unreported magnitude: `mw < mct` is false, the event is kept
        rows.append((i + 1, t, rng.choice([0.0, 35.2, -41.3]), rng.choice([0.0, -118.1, 172.6]), float(rng.randrange(0, 30)), float(m)))
    if sorted_:
        rows.sort(key=lambda r: r[1])
    else:
        rng.shuffle(rows)
    ids = list(range(1, n + 1))
    rng.shuffle(ids)
    return [base.row_of((ids[i],) + r[1:]) for i, r in enumerate(rows)]


def gen_mct_case(rng):
    m_main, mc, epoch = gen_mct_params(rng)
    n = rng.choice([1, 2, 3, 5, 8, 13, 20, 40])
    if rng.random() < 0.08:
        n = 0                                   # D37: an empty catalog is returned as it is
    srt = rng.random() < 0.8
    rows = gen_mct_rows(rng, m_main, mc, epoch, n, srt, nan_ok=True)
    return dict(kind="mct", m_main=repr(m_main), mc=repr(mc), epoch=epoch, epoch_kind=rng.choice(["int", "int", "np", "float"]),
                pass_mc=(mc != 2.5 or rng.random() < 0.5), events=[list(r) for r in rows], sorted=srt,
                with_state=rng.random() < 0.3, twice=rng.random() < 0.5, commute=rng.random() < 0.4,
                stmt_seed=rng.randrange(2 ** 32))


# ----------------------------------------------------------------------------- oracle pieces
def mct_expect(rows, m_main, mc, epoch):
    """(expected rows by the one-pass specification, expected rows by the loop as coded, ids in the decision band, ids with below)"""
    _, _, tcrit = tcrit_of(m_main, epoch, mc)
    band, below = set(), set()
    pure = []
    for r in rows:
        t = r[1]
        if epoch <= t <= tcrit:
            b, inb = decide_below(t, float.fromhex(r[5]), epoch, m_main)
            if inb:
                band.add(r[0])
            if b:
                below.add(r[0])
                continue
        pure.append(r)
    loop, i = [], 0
    while i < len(rows):
        r = rows[i]
        if r[1] > tcrit:
            loop += rows[i:]
            break
        if not (r[1] >= epoch and r[0] in below):
            loop.append(r)
        i += 1
    return pure, loop, band, below, tcrit


def _epoch_arg(case):
    e = case["epoch"]
    return {"int": e, "np": numpy.int64(e), "float": float(e)}[case["epoch_kind"]]


def _mk(rows, **kw):
    from csep.core.catalogs import CSEPCatalog
    return CSEPCatalog(data=[(r[0], r[1], float.fromhex(r[2]), float.fromhex(r[3]), float.fromhex(r[4]), float.fromhex(r[5]))
                             for r in rows], **kw)


def _guarded(fn):
    """Lesson: a harness crash is a missed detection. An exception while the implementation's output is being interpreted
    (unexpected shape / dtype / type / missing key) is reported as an oracle failure with the case as replay, not as exit 2.
    Driver failures and KeyboardInterrupt still propagate."""
    import functools

    @functools.wraps(fn)
    def wrapper(run, *args, **kw):
        try:
            return fn(run, *args, **kw)
        except (RuntimeError, KeyboardInterrupt, MemoryError):
            raise
        except Exception as ex:
            case = next((a for a in args if isinstance(a, dict)), None)
            import traceback
            where = traceback.extract_tb(ex.__traceback__)[-1]
            run.oracle_failure(case, f"the implementation's output could not be interpreted ({type(ex).__name__}: {ex} at "
                                     f"{where.name}:{where.lineno}): it deviates in shape / type from what the property describes")
    return wrapper


@_guarded
def mct_case(run, drv, pending, case, rng=None):
    from . import c04 as base
    rows = [tuple(r) for r in case["events"]]
    m_main, mc, epoch = float(case["m_main"]), float(case["mc"]), case["epoch"]
    pure, loop, band, below, tcrit = mct_expect(rows, m_main, mc, epoch)
    srt = all(rows[i][1] <= rows[i + 1][1] for i in range(len(rows) - 1))
    kw = {}
    reg = None
    if case.get("with_state"):
        reg = dict(dh=1.0, dh_text="1", origins=[[0.0, 0.0], [1.0, 0.0], [0.0, 1.0], [1.0, 1.0]])
        kw = dict(filters=["magnitude >= -5.0"], region=base.build_region(reg))
    cat = _mk(rows, **kw)
    witness = _mk(rows)            # a second object with the same rows: must not change
    args = (m_main, _epoch_arg(case)) + ((mc,) if case["pass_mc"] else ())

    def strip(rs):
        return [r for r in rs if r[0] not in band]
    run.count("mct:" + ("sorted" if srt else "unsorted"))
    run.count("mct:epoch-" + case["epoch_kind"])
    if not rows:
        run.count("mct:empty-catalog")
    try:
        # CALL FORMS: positionally and by keyword in the pinned order apply_mct(m_main, event_epoch, mc=2.5)
        if case.get("seed", len(rows)) % 2:
            kwargs = dict(m_main=args[0], event_epoch=args[1], **(dict(mc=args[2]) if len(args) > 2 else {}))
            res = cat.apply_mct(**kwargs)
            run.count("callform:apply_mct:keywords")
        else:
            res = cat.apply_mct(*args)
            run.count("callform:apply_mct:positional")
    except Exception as e:
        run.oracle_failure(case, f"apply_mct raised {type(e).__name__}: {e}")
        return
    got = base.snapshot(cat)
    if res is not cat:
        run.oracle_failure(case, "apply_mct did not return the catalog itself")
        return
    ok_pure, ok_loop = strip(got) == strip(pure), strip(got) == strip(loop)
    if not (ok_pure or (not srt and ok_loop)):
        run.oracle_failure(case, f"apply_mct(m_main={m_main}, event_epoch={epoch}, mc={mc}) kept ids {[r[0] for r in got]}; the events "
                                 f"outside [event_epoch, t_crit_epoch={tcrit!r}] or not below the completeness magnitude are "
                                 f"{[r[0] for r in pure]}")
        return
    if base.snapshot(witness) != rows:
        run.oracle_failure(case, "apply_mct changed another catalog object")
        return
    if kw and (cat.filters != ["magnitude >= -5.0"] or cat.region is not kw["region"]):
        run.oracle_failure(case, "apply_mct changed the filters / region of the catalog")
        return
    nontriv = 0 < len(got) < len(rows)
    for r in rows:
        if r[1] == epoch:
            run.count("mct:event-at-mainshock-instant")
        if r[1] == tcrit:
            run.count("mct:event-exactly-at-t_crit")
        if r[1] == math.floor(tcrit) + 1:
            run.count("mct:event-1ms-after-t_crit")
    if band:
        run.count("mct:decision-band")
    # model (the loop as coded). An implementation that is the one-pass filter on an unsorted catalog is accepted by the oracle
    # and not compared with the model (the property leaves unsorted catalogs to the documented assumption)
    hasnan = any(float.fromhex(r[5]) != float.fromhex(r[5]) for r in rows)
    if hasnan:
        run.count("mct:nan-magnitude (oracle only)")
    if ok_loop and not hasnan:
        i = drv.ask(" ".join(["c04_mct", base.enc_events(rows),
                              f"{frac(float(epoch)) if case['epoch_kind'] == 'float' else epoch};{frac(tcrit)};"
                              + (",".join(str(k) for k in sorted(below)) or "-")]))
        pending.append((case, i, ",".join(str(r[0]) for r in got if r[0] not in band) or "-", sorted(band)))
    else:
        run.count("mct:unsorted-one-pass-semantics")
    # idempotence on the implementation (a second call on a non-empty result; an emptied catalog is class W-C04-1)
    if case.get("twice"):
        try:
            cat.apply_mct(*args)
            if strip(base.snapshot(cat)) != strip(got):
                run.oracle_failure(case, "a second apply_mct with the same arguments changed the catalog")
                return
            run.count("mct:twice")
        except Exception as e:
            run.oracle_failure(case, f"second apply_mct raised {type(e).__name__}: {e}")
            return
    # commutation with statement filters on sorted catalogs (implementation's own outputs)
    if case.get("commute") and srt and rows and not hasnan:
        import random
        r2 = random.Random(case["stmt_seed"])
        sts = [base.gen_stmt(r2, rows) for _ in range(r2.randint(1, 2))]
        texts = [s["text"] for s in sts]
        want = [r for r in pure if all(base.holds(r, s) for s in sts)]
        a = _mk(rows).filter(list(texts))
        b = _mk(rows).apply_mct(*args)
        try:
            ga = base.snapshot(a.apply_mct(*args))
            if strip(ga) != strip(want):
                run.oracle_failure(dict(case, stmts=texts), f"filter({texts}) then apply_mct kept {[r[0] for r in ga]}, "
                                                             f"expected {[r[0] for r in want]}")
                return
            if not a.event_count:
                run.count("mct:after-filter-emptied-catalog")
            gb = base.snapshot(b.filter(list(texts)))
            if strip(gb) != strip(want):
                run.oracle_failure(dict(case, stmts=texts), f"apply_mct then filter({texts}) kept {[r[0] for r in gb]}, "
                                                             f"expected {[r[0] for r in want]}")
                return
            run.count("mct:commute-with-filter")
        except Exception as e:
            run.oracle_failure(dict(case, stmts=texts), f"filter / apply_mct chain raised {type(e).__name__}: {e}")
            return
    run.case(dict(kind="mct", m_main=m_main, mc=mc, n=len(rows)),
             ("mct", case["m_main"], case["mc"], epoch, tuple(rows)) if nontriv or band else None)


# ----------------------------------------------------------------------------- CatalogForecast.__next__ filter stage
def gen_next_case(rng):
    from . import c04 as base
    m_main, mc, epoch = gen_mct_params(rng)
    mc = 2.5                                  # __next__ calls apply_mct with the default mc
    epoch = abs(epoch) % (4 * 10 ** 12)       # the event time travels as a datetime
    use_mct = rng.random() < 0.6
    use_sp = rng.random() < 0.5
    ncat = rng.randint(1, 4)
    cats = []
    allrows = []
    for _ in range(ncat):
        n = rng.choice([1, 2, 4, 8, 15])
        rows = gen_mct_rows(rng, m_main, mc, epoch, n, True)
        cats.append(rows)
        allrows += rows
    reg = None
    if use_sp or rng.random() < 0.2:
        reg = base.gen_region(rng, allrows)
        cats = [[base.row_of(e) for e in base.place_events_in_region(
            rng, [(r[0], r[1], float.fromhex(r[2]), float.fromhex(r[3]), float.fromhex(r[4]), float.fromhex(r[5])) for r in rows], reg)]
            for rows in cats]
        allrows = [r for rows in cats for r in rows]
    sts = [base.gen_stmt(rng, allrows) for _ in range(rng.choice([0, 1, 1, 2]))]
    return dict(kind="next", m_main=repr(m_main), epoch=epoch, apply_filters=rng.random() < 0.85, stmts=sts,
                stmts_form=rng.choice(["list", "tuple"]), use_mct=use_mct, use_spatial=use_sp,
                region=reg if (use_sp and rng.random() < 0.9) or (reg is not None and rng.random() < 0.5) else None,
                cat_region=reg if rng.random() < 0.3 else None,
                catalogs=[[list(r) for r in rows] for rows in cats])


@_guarded
def next_case(run, drv, pending, case):
    from . import c04 as base
    from csep.core.forecasts import CatalogForecast
    m_main, epoch = float(case["m_main"]), case["epoch"]
    sts, reg, creg = case["stmts"], case["region"], case["cat_region"]
    ev = types.SimpleNamespace(magnitude=m_main, time=EPOCH0 + datetime.timedelta(milliseconds=epoch))
    regobj = base.build_region(reg) if reg is not None else None
    cregobj = base.build_region(creg) if creg is not None else None
    catrows = [[tuple(r) for r in rows] for rows in case["catalogs"]]
    # expected per catalog
    exps = []
    for rows in catrows:
        if not case["apply_filters"]:
            exps.append(("ok", rows, set(), None))
            continue
        cur = [r for r in rows if all(base.holds(r, s) for s in sts)]
        band, mline = set(), "none"
        if case["use_mct"]:
            if not cur:
                run.count("next:mct-on-emptied-catalog")
            pure, _, band, below, tcrit = mct_expect(cur, m_main, 2.5, epoch)
            mline = f"{epoch};{frac(tcrit)};" + (",".join(str(k) for k in sorted(below)) or "-")
            cur = pure
        if case["use_spatial"]:
            rr = reg if reg is not None else creg
            if rr is None:
                exps.append(("exc", cur, set(band), mline))     # cur: the rows the stages in front of the spatial one leave
                continue
            band |= {r[0] for r in cur if base.in_band(rr, float.fromhex(r[3]), float.fromhex(r[2]))}
            cur = [r for r in cur if base.inside_exact(rr, float.fromhex(r[3]), float.fromhex(r[2]))]
        exps.append(("ok", cur, band, mline))
    kw = dict(region=cregobj) if cregobj is not None else {}
    cats = [_mk(rows, **kw) for rows in catrows]
    fc = CatalogForecast(catalogs=cats, filters=base.py_stmts(sts, case["stmts_form"]) if sts else None,
                         apply_mct=case["use_mct"], filter_spatial=case["use_spatial"], region=regobj, event=ev,
                         apply_filters=case["apply_filters"])
    run.count("next:" + ("on" if case["apply_filters"] else "off") + (":filters" if sts else "") + (":mct" if case["use_mct"] else "")
              + (":spatial" if case["use_spatial"] else ""))
    emptied = False
    for pas in range(2):     # second pass: the stored catalogs were filtered in place, filtering is idempotent
        it = iter(fc)
        for k, (kind, want, band, mline) in enumerate(exps):
            try:
                got = next(it)
            except StopIteration:
                run.oracle_failure(case, f"pass {pas}: the forecast stopped after {k} of {len(exps)} catalogs")
                return
            except Exception as e:
                if kind == "exc":
                    run.count("next:raises")
                    if pas == 0:
                        i = drv.ask(_next_line(base, case, catrows[k], mline or "none"))
                        pending.append((dict(case, catalog=k), i, "exc", []))
                    return        # the pass is aborted by the exception
                run.oracle_failure(case, f"pass {pas}: __next__ raised {type(e).__name__}: {e} on catalog {k}")
                return
            snap = base.snapshot(got)
            if kind == "exc":
                # a MISCONFIGURED forecast (filter_spatial=True, no region anywhere): the code rejects it; a version that applies
                # the stages it can apply is acceptable too, as long as it does not hand out anything else
                if [r for r in snap if r[0] not in band] != [r for r in want if r[0] not in band]:
                    run.oracle_failure(case, f"pass {pas}: filter_spatial without any region: catalog {k} was yielded with ids "
                                             f"{[r[0] for r in snap]}, neither rejected nor the rows {[r[0] for r in want]} the other stages leave")
                    return
                run.count("next:no-region-tolerated")
                continue
            emptied = emptied or not snap
            if [r for r in snap if r[0] not in band] != [r for r in want if r[0] not in band]:
                run.oracle_failure(case, f"pass {pas}: catalog {k} yielded with ids {[r[0] for r in snap]}; the events satisfying "
                                         f"the carried filters are {[r[0] for r in want]}")
                return
            if pas == 0:
                i = drv.ask(_next_line(base, case, catrows[k], mline or "none"))
                pending.append((dict(case, catalog=k), i, ",".join(str(r[0]) for r in snap if r[0] not in band) or "-", sorted(band)))
                run.case(dict(kind="next", n=len(catrows[k])), ("next", tuple(catrows[k]), tuple(s["text"] for s in sts), mline,
                                                                case["use_spatial"]) if 0 < len(want) < len(catrows[k]) else None)
        try:
            next(it)
            run.oracle_failure(case, f"pass {pas}: more catalogs than the forecast holds")
            return
        except StopIteration:
            pass


def _next_line(base, case, rows, mline):
    return " ".join(["c04_next", base.enc_events(rows), "-", base.enc_region(case["cat_region"]),
                     "1" if case["apply_filters"] else "0", base.enc_stmts(case["stmts"]),
                     mline if (case["use_mct"] and case["apply_filters"]) else "none",
                     "1" if case["use_spatial"] else "0", base.enc_region(case["region"])])


# ----------------------------------------------------------------------------- extras of filter / filter_spatial
def gen_extra_case(rng):
    from . import c04 as base
    n = rng.choice([1, 2, 3, 6, 12, 30])
    evs = base.gen_events(rng, n)
    reg = base.gen_region(rng, [base.row_of(e) for e in evs])
    evs = base.place_events_in_region(rng, evs, reg)
    if rng.random() < 0.3:      # everything inside: a result equal to the original must still be a separate copy
        ox, oy = reg["origins"][0]
        evs = [(e[0], e[1], oy + reg["dh"] / 2, ox + reg["dh"] / 2, e[4], e[5]) for e in evs]
    rows = [base.row_of(e) for e in evs]
    k = rng.random()
    if k < 0.5:
        call = dict(kind="spatial", update_stats=rng.random() < 0.6, in_place=rng.random() < 0.5,
                    region_kind="quadtree" if rng.random() < 0.35 else "cart", quad=rng.choice(["single1", "single2", "keys"]))
        if call["region_kind"] == "quadtree":
            # events on tile corners / edges, inside, beyond the grid's latitude bounds, on longitude 180, duplicates
            tiles = [tuple(float(v) for v in r) for r in _quad_region(call["quad"]).bounds]
            evs2 = []
            for e in evs:
                x0, y0, x1, y1 = rng.choice(tiles)
                lon, lat = rng.choice([(x0, y0), (x1, y0 + (y1 - y0) / 3), (x0 + (x1 - x0) / 4, y1), ((x0 + x1) / 2, (y0 + y1) / 2),
                                       (x0 + (x1 - x0) / 8, y0), (180.0, 10.0), (rng.uniform(-180, 180), rng.choice([86.0, -86.5, 89.9])),
                                       (rng.uniform(-180, 180), rng.uniform(-85, 85))])
                evs2.append((e[0], e[1], float(lat), float(lon), e[4], e[5]))
            rows = [base.row_of(e) for e in evs2]
    else:
        # statement lists of ANY length: the empty list / tuple keeps every row and must still give a separate copy
        m = rng.choice([0, 1, 1, 1, 2, 2, 3, 4])
        sts = [base.gen_stmt(rng, rows) for _ in range(m)]
        if m and rng.random() < 0.3:  # statements every row satisfies
            sts = [dict(text="magnitude >= -100.0", enc="mag,ge,-100", attr="mag", op="ge", value="-100", kind="mag")]
        call = dict(kind="filter", stmts=sts, form=rng.choice(["string", "list", "tuple"]) if len(sts) == 1 else rng.choice(["list", "tuple"]),
                    in_place=rng.random() < 0.3)
    return dict(kind="extra", events=[list(r) for r in rows], region=reg, call=call)


def _quad_region(name):
    from csep.core.regions import QuadtreeGrid2D
    if name == "single1":
        return QuadtreeGrid2D.from_single_resolution(1)
    if name == "single2":
        return QuadtreeGrid2D.from_single_resolution(2)
    return QuadtreeGrid2D.from_quadkeys(["01", "1", "200", "31"])      # tiles of three sizes, gaps between them


def _stats(cat):
    return (cat.min_magnitude, cat.max_magnitude, cat.min_latitude, cat.max_latitude, cat.min_longitude, cat.max_longitude)


@_guarded
def extra_case(run, case, drv=None, pending=None):
    from . import c04 as base
    rows = [tuple(r) for r in case["events"]]
    reg, call = case["region"], case["call"]
    cat = _mk(rows)
    band = set()
    qbounds = None
    try:
        if call["kind"] == "spatial":
            if call.get("region_kind") == "quadtree":
                from csep.core.regions import QuadtreeGrid2D
                robj = _quad_region(call.get("quad", "single2"))
                b = [tuple(float(v) for v in r) for r in robj.bounds]
                qbounds = b
                want = [r for r in rows if any(x0 <= float.fromhex(r[3]) < x1 and y0 <= float.fromhex(r[2]) < y1 for x0, y0, x1, y1 in b)]
            else:
                robj = base.build_region(reg)
                band = {r[0] for r in rows if base.in_band(reg, float.fromhex(r[3]), float.fromhex(r[2]))}
                want = [r for r in rows if base.inside_exact(reg, float.fromhex(r[3]), float.fromhex(r[2]))]
            res = cat.filter_spatial(robj, update_stats=call["update_stats"], in_place=call["in_place"])
            run.count(f"extra:spatial:update_stats={call['update_stats']}:in_place={call['in_place']}")
        else:
            want = [r for r in rows if all(base.holds(r, s) for s in call["stmts"])]
            res = cat.filter(base.py_stmts(call["stmts"], call["form"]), in_place=call["in_place"])
            run.count(f"extra:filter:{call['form']}:in_place={call['in_place']}")
    except Exception as e:
        run.oracle_failure(case, f"{call['kind']} raised {type(e).__name__}: {e}")
        return
    got = base.snapshot(res)
    if [r for r in got if r[0] not in band] != [r for r in want if r[0] not in band]:
        run.oracle_failure(case, f"{call['kind']}: kept ids {[r[0] for r in got]} expected {[r[0] for r in want]}")
        return
    if qbounds is not None and drv is not None:
        run.count("extra:spatial:quadtree-region")
        i = drv.ask(" ".join(["c04_spq", base.enc_events(rows)] + [",".join(frac(t[c]) for t in qbounds) for c in range(4)]))
        pending.append((case, i, ",".join(str(r[0]) for r in got) or "-", []))
    if call["in_place"]:
        if res is not cat:
            run.oracle_failure(case, "in_place=True did not return the catalog itself")
            return
    else:
        if res is cat:
            run.oracle_failure(case, "in_place=False returned the catalog itself")
            return
        if base.snapshot(cat) != rows:
            run.oracle_failure(case, "in_place=False changed the events of the original catalog")
            return
        # the result shares nothing with the original: changing a row of the one does not change the other
        if got:
            if len(got) == len(rows):
                run.count("extra:result-equals-original")
            for a, b, tag in ((res, cat, "result"), (cat, res, "original")):
                keep_b = base.snapshot(b)
                old = a.catalog["depth"][0]
                a.catalog["depth"][0] = old + 1.0
                a.catalog["origin_time"][0] += 1
                changed = base.snapshot(b) != keep_b
                a.catalog["depth"][0] = old
                a.catalog["origin_time"][0] -= 1
                if changed:
                    run.oracle_failure(case, f"in_place=False: writing into a row of the {tag} changed the other catalog — the "
                                             f"returned catalog shares its event array with the original")
                    return
            run.count("extra:no-shared-rows")
    # summary statistics describe the rows the catalog now holds (filter always recomputes them; filter_spatial when asked to)
    if call["kind"] == "filter" or call.get("update_stats"):
        if got:
            lat = [float.fromhex(r[2]) for r in got]
            lon = [float.fromhex(r[3]) for r in got]
            mag = [float.fromhex(r[5]) for r in got]
            exp = (min(mag), max(mag), min(lat), max(lat), min(lon), max(lon))
        else:
            exp = (None,) * 6
        # the summary statistics are not part of property C04 (it speaks about the events): recorded, never a verdict
        try:
            st = tuple(None if v is None else float(v) for v in _stats(res))
        except Exception:
            st = "unreadable"
        run.count("extra:stats-describe-kept-rows" if st == exp else "extra:stats-differ (not part of the property)")
    run.case(dict(kind="extra", call=call["kind"]), ("extra", tuple(rows), str(call)) if 0 < len(got) < len(rows) else None)


# ----------------------------------------------------------------------------- NaN / infinite attribute values and thresholds
NONFINITE = [float("nan"), float("nan"), float("inf"), float("-inf")]


def _fenc(x):
    if x != x:
        return "nan"
    if x in (float("inf"), float("-inf")):
        return "inf" if x > 0 else "-inf"
    return frac(x)


def gen_nan_case(rng):
    from . import c04 as base
    n = rng.choice([1, 2, 3, 5, 8, 15, 30])
    evs = base.gen_events(rng, n)
    rows = []
    for e in evs:
        e = list(e)
        for col in (2, 3, 4, 5):                       # latitude, longitude, depth, magnitude
            p = 0.25 if col == 4 else 0.08             # unreported depth is the common case
            if rng.random() < p:
                e[col] = rng.choice(NONFINITE)
        rows.append(base.row_of(tuple(e)))
    sts = []
    for _ in range(rng.randint(1, 4)):
        name, key = rng.choice(base.ATTRS)
        sym, op = rng.choice(base.OPS)
        fin = [float.fromhex(r[base.COL[key]]) for r in rows if key != "t"]
        fin = [v for v in fin if v == v and abs(v) != float("inf")]
        k = rng.random()
        if k < 0.2:
            v = rng.choice(NONFINITE)
        elif key == "t":
            v = float(rng.choice(rows)[1] + rng.choice([0, 0, 1, -1]))
        elif fin and k < 0.8:
            v = rng.choice(fin)
        else:
            v = float(rng.randrange(-5, 40))
        txt = rng.choice(["nan", "NaN"]) if v != v else (rng.choice(["inf", "Infinity"]) if v == float("inf") else
                                                           ("-inf" if v == float("-inf") else repr(v)))
        assert (float(txt) == v) or (v != v and float(txt) != float(txt))
        sts.append(dict(text=f"{name} {sym} {txt}", enc=f"{key},{op},{_fenc(v)}", attr=key, op=op, value=txt))
    # a statement and its complement, applied one after the other: nothing may survive (rows with a NaN attribute satisfy neither)
    compl = None
    if rng.random() < 0.4:
        name, key = rng.choice(base.ATTRS[1:])
        v = float(rng.randrange(0, 40))
        pair = rng.choice([("<=", "le", ">", "gt"), ("<", "lt", ">=", "ge"), (">", "gt", "<=", "le"), (">=", "ge", "<", "lt")])
        compl = [dict(text=f"{name} {pair[0]} {v!r}", enc=f"{key},{pair[1]},{frac(v)}", attr=key, op=pair[1], value=repr(v)),
                 dict(text=f"{name} {pair[2]} {v!r}", enc=f"{key},{pair[3]},{frac(v)}", attr=key, op=pair[3], value=repr(v))]
    return dict(kind="nan", events=[list(r) for r in rows], stmts=sts, compl=compl, dtype=rng.choice(DTYPES), seed=rng.randrange(2 ** 32))


def ieee_holds(row, st):
    """IEEE-754 comparison of the row's attribute with the threshold; exact (Fraction) when both are finite"""
    from . import c04 as base
    v = float(st["value"])
    a = row[1] if st["attr"] == "t" else float.fromhex(row[base.COL[st["attr"]]])
    if v != v or (isinstance(a, float) and a != a):
        return False
    fa = Fraction(a) if abs(a) != float("inf") else a
    fv = Fraction(v) if abs(v) != float("inf") else v
    return base.OPF[st["op"]](fa, fv)


def _enc_events_f(rows):
    if not rows:
        return "-"
    return ";".join(",".join([str(r[0]), str(r[1])] + [_fenc(float.fromhex(h)) for h in r[2:]]) for r in rows)


DTYPES = ["list", "list", "native-array", "big-endian-array"]


def _mk_dt(rows, how, **kw):
    """catalog from a list of tuples or from a structured array in native / non-native byte order"""
    from csep.core.catalogs import CSEPCatalog
    tup = [(str(r[0]), r[1], float.fromhex(r[2]), float.fromhex(r[3]), float.fromhex(r[4]), float.fromhex(r[5])) for r in rows]
    if how == "list":
        return CSEPCatalog(data=[(r[0],) + t[1:] for r, t in zip(rows, tup)], **kw)
    bo = ">" if how == "big-endian-array" else "<"
    dt = numpy.dtype([("id", "S256"), ("origin_time", bo + "i8"), ("latitude", bo + "f8"), ("longitude", bo + "f8"),
                      ("depth", bo + "f8"), ("magnitude", bo + "f8")])
    return CSEPCatalog(data=numpy.array(tup, dtype=dt), **kw)


@_guarded
def nan_case(run, drv, pending, case):
    from . import c04 as base
    import random
    rows = [tuple(r) for r in case["events"]]
    sts = case["stmts"]
    texts = [s["text"] for s in sts]
    r2 = random.Random(case["seed"])
    want = [r for r in rows if all(ieee_holds(r, s) for s in sts)]
    how = case.get("dtype", "list")
    run.count("nan:dtype-" + how)
    try:
        outs = {"list": base.snapshot(_mk_dt(rows, how).filter(list(texts), in_place=r2.random() < 0.5))}
        sh = list(texts)
        r2.shuffle(sh)
        outs["shuffled"] = base.snapshot(_mk_dt(rows, how).filter(tuple(sh), in_place=r2.random() < 0.5))
        c = _mk_dt(rows, how)
        keep0 = base.snapshot(c)
        for t in texts:
            c2 = c.filter(t, in_place=r2.random() < 0.5)
            c = c2
        outs["one-by-one"] = base.snapshot(c)
        outs["twice"] = base.snapshot(_mk_dt(rows, how).filter(texts).filter(texts))
        if keep0 != rows:
            run.oracle_failure(case, "the constructor changed the rows")
            return
        if case.get("compl"):
            ct = [s["text"] for s in case["compl"]]
            outs["complement-pair"] = base.snapshot(_mk_dt(rows, how).filter(ct[0]).filter(ct[1]))
            outs["complement-list"] = base.snapshot(_mk_dt(rows, how).filter(ct, in_place=False))
    except Exception as e:
        run.oracle_failure(case, f"filter on a catalog with NaN / infinite values raised {type(e).__name__}: {e}")
        return
    for nm, got in outs.items():
        exp = [] if nm.startswith("complement") else want
        if got != exp:
            run.oracle_failure(case, f"{nm}: statements {texts if not nm.startswith('complement') else [s['text'] for s in case['compl']]} "
                                     f"kept ids {[r[0] for r in got]}; the rows for which every statement is true (IEEE comparison, NaN "
                                     f"compares false) are {[r[0] for r in exp]}")
            return
    nanrows = sum(1 for r in rows if any(float.fromhex(h) != float.fromhex(h) for h in r[2:]))
    if nanrows:
        run.count("nan:catalog-with-nan-attribute")
    if any(float(s["value"]) != float(s["value"]) for s in sts):
        run.count("nan:nan-threshold")
    if case.get("compl"):
        run.count("nan:complement-pair")
    i = drv.ask(" ".join(["c04_nan", _enc_events_f(rows), ";".join(s["enc"] for s in sts)]))
    pending.append((case, i, ",".join(str(r[0]) for r in outs["list"]) or "-", []))
    run.case(dict(kind="nan", n=len(rows), stmts=texts[:3]), ("nan", tuple(rows), tuple(texts)) if nanrows else None)


# ----------------------------------------------------------------------------- sessions: objects sharing a region, caller edits
def gen_session_case(rng):
    from . import c04 as base
    n = [rng.choice([0, 1, 3, 6, 12, 25]), rng.choice([1, 4, 10])]
    m_main, mc, epoch = gen_mct_params(rng)
    cats = [gen_mct_rows(rng, m_main, mc, epoch, k, True) for k in n]
    quad = rng.random() < 0.4
    reg = None
    if not quad:
        reg = base.gen_region(rng, cats[0] + cats[1])
        cats = [[base.row_of(e) for e in base.place_events_in_region(
            rng, [(r[0], r[1], float.fromhex(r[2]), float.fromhex(r[3]), float.fromhex(r[4]), float.fromhex(r[5])) for r in rows], reg)]
            for rows in cats]
        for rows in cats:
            rows.sort(key=lambda r: r[1])
    allrows = cats[0] + cats[1]
    ops = []
    for _ in range(rng.randint(3, 8)):
        k = rng.random()
        tg = rng.randrange(2)
        if k < 0.35:
            m = rng.choice([1, 1, 2, 3])
            sts = [base.gen_stmt(rng, allrows) for _ in range(m)]
            ops.append(dict(op="filter", target=tg, stmts=sts, form=rng.choice(["string", "list", "tuple"]) if m == 1 else rng.choice(["list", "tuple"]),
                            in_place=rng.random() < 0.6))
        elif k < 0.45:
            ops.append(dict(op="refilter", target=tg, in_place=rng.random() < 0.6))            # filter() through the stored filters
        elif k < 0.6:
            ops.append(dict(op="spatial", target=tg, explicit=rng.random() < 0.5, in_place=rng.random() < 0.6, update_stats=rng.random() < 0.5))
        elif k < 0.75:
            ops.append(dict(op="mct", target=tg))
        else:
            ops.append(dict(op="edit", target=tg, row=rng.randrange(64), field=rng.choice(["magnitude", "depth", "origin_time"]),
                            value=rng.choice([repr(round(rng.uniform(0, 9), 1)), repr(float(rng.randrange(0, 50)))])))
    return dict(kind="session", m_main=repr(m_main), mc=repr(mc), epoch=epoch, quad=("keys" if quad else None), region=reg, catalogs=[[list(r) for r in c] for c in cats],
                ops=ops, dtype=rng.choice(DTYPES), bound=rng.random() < 0.6)


@_guarded
def session_case(run, drv, pending, case):
    """TWO catalog objects sharing ONE region object; filter / filter() / filter_spatial / apply_mct in both in_place modes,
    interleaved with writes of the caller into an event array. After EVERY step every live object must hold exactly the rows the
    step's predicate keeps of the target AS IT WAS BEFORE THE STEP (recomputed from scratch), all others unchanged."""
    from . import c04 as base
    m_main, mc, epoch = float(case["m_main"]), float(case["mc"]), case["epoch"]
    quad, reg = case["quad"], case["region"]
    robj = _quad_region(quad) if quad else base.build_region(reg)
    qb = [tuple(float(v) for v in r) for r in robj.bounds] if quad else None
    how = case.get("dtype", "list")
    objs = [_mk_dt([tuple(r) for r in rows], how, **(dict(region=robj) if case["bound"] else {})) for rows in case["catalogs"]]
    state = [dict(rows=[tuple(r) for r in rows], filters=[], region=case["bound"]) for rows in case["catalogs"]]
    run.count("session:" + ("quadtree" if quad else "cartesian") + ":" + how)

    def inside(r):
        lon, lat = float.fromhex(r[3]), float.fromhex(r[2])
        if quad:
            return any(x0 <= lon < x1 and y0 <= lat < y1 for x0, y0, x1, y1 in qb)
        return base.inside_exact(reg, lon, lat)
    band = set()
    for step, o in enumerate(case["ops"]):
        tg = o["target"] % len(objs)
        tobj, tst = objs[tg], state[tg]
        before = [base.snapshot(x) for x in objs]
        if before != [s_["rows"] if not band else before[k] for k, s_ in enumerate(state)] and not band:
            run.oracle_failure(dict(case, failed_step=step), f"before step {step} the catalogs do not hold the rows of the previous steps")
            return
        expect_exc, newobj, mline = False, False, None
        try:
            if o["op"] == "edit":
                if tst["rows"]:
                    j = o["row"] % len(tst["rows"])
                    val = float(o["value"])
                    r = list(tst["rows"][j])
                    if o["field"] == "origin_time":
                        tobj.catalog["origin_time"][j] = int(val) + r[1]
                        r[1] = int(val) + r[1]
                    else:
                        tobj.catalog[o["field"]][j] = val
                        r[{"depth": 4, "magnitude": 5}[o["field"]]] = val.hex()
                    tst["rows"] = tst["rows"][:j] + [tuple(r)] + tst["rows"][j + 1:]
                    run.count("session:caller-edit")
                continue
            if o["op"] == "filter":
                sts = o["stmts"]
                expected = [r for r in tst["rows"] if all(base.holds(r, s) for s in sts)]
                res = tobj.filter(base.py_stmts(sts, o["form"]), in_place=o["in_place"])
                mline = " ".join(["c04_hist", base.enc_events(tst["rows"]), "-", "none", f"f:0:1:{base.enc_stmts(sts)}"])
                newf = list(sts)
            elif o["op"] == "refilter":
                if not tst.get("fk", True):
                    # which statements an object has stored after a not-in-place call (on the original: `self.filters = statements`
                    # in both modes; on an instance built by filter_spatial: none) is incidental, not fixed by the property
                    run.count("session:skipped-stored-filters-not-fixed-by-the-property")
                    continue
                sts = tst["filters"]
                expect_exc = not sts
                expected = [r for r in tst["rows"] if all(base.holds(r, s) for s in sts)]
                res = tobj.filter(in_place=o["in_place"])
                newf = list(sts)
            elif o["op"] == "spatial":
                if not o["explicit"] and not tst.get("rk", True):
                    run.count("session:skipped-stored-region-not-fixed-by-the-property")
                    continue
                use_region = o["explicit"] or tst["region"]
                expect_exc = not use_region
                expected = [r for r in tst["rows"] if inside(r)]
                if not quad:
                    band |= {r[0] for r in tst["rows"] if base.in_band(reg, float.fromhex(r[3]), float.fromhex(r[2]))}
                res = tobj.filter_spatial(robj if o["explicit"] else None, update_stats=o["update_stats"], in_place=o["in_place"])
                if quad:
                    mline = " ".join(["c04_spq", base.enc_events(tst["rows"])] + [",".join(frac(t[c]) for t in qb) for c in range(4)])
                newf = None
            else:
                srt = all(tst["rows"][i][1] <= tst["rows"][i + 1][1] for i in range(len(tst["rows"]) - 1))
                pure, loop, b2, below, tcrit = mct_expect(tst["rows"], m_main, mc, epoch)
                band |= b2
                expected = pure if srt else loop
                res = tobj.apply_mct(m_main, epoch, mc)
                o = dict(o, in_place=True)
                mline = " ".join(["c04_mct", base.enc_events(tst["rows"]), f"{epoch};{frac(tcrit)};" + (",".join(str(k) for k in sorted(below)) or "-")])
                newf = None
                if not srt:
                    mline = None
        except Exception as e:           # which exception class rejects a call is not part of the property
            if not expect_exc:
                run.oracle_failure(dict(case, failed_step=step), f"step {step} {o['op']} raised {type(e).__name__}: {e}")
                return
            # "nothing to filter by" is rejected ATOMICALLY by the unchanged code: the caller catches the exception and goes on;
            # every object must still hold its rows (round 7, class i)
            if [base.snapshot(x) for x in objs] != before:
                run.oracle_failure(dict(case, failed_step=step), f"step {step} was rejected ({type(e).__name__}) but changed the rows of a catalog")
                return
            run.count("session:exception")
            continue
        if expect_exc:
            # nothing to filter by and the call returned instead of raising: acceptable iff every row of every object was kept
            if [base.snapshot(x) for x in objs] != before or base.snapshot(res) != before[tg]:
                run.oracle_failure(dict(case, failed_step=step), f"step {step} {o['op']}: nothing to filter by, the call did not raise "
                                                                 f"and did not keep every row")
                return
            run.count("session:nothing-to-filter-by-tolerated")
            break
        run.count("session:" + o["op"])
        inpl = o["in_place"]
        if inpl and res is not tobj:
            run.oracle_failure(dict(case, failed_step=step), f"step {step} {o['op']}: in place, but another object was returned")
            return
        if not inpl and any(res is x for x in objs):
            run.oracle_failure(dict(case, failed_step=step), f"step {step} {o['op']}: in_place=False returned an existing object")
            return
        try:
            got = base.snapshot(res)
        except Exception as e:
            run.oracle_failure(dict(case, failed_step=step), f"step {step}: the result is not a readable catalog ({type(e).__name__}: {e})")
            return

        def strip(rs):
            return [r for r in rs if r[0] not in band]
        if strip(got) != strip(expected):
            run.oracle_failure(dict(case, failed_step=step),
                               f"step {step} {o['op']} (in_place={inpl}) on catalog {tg} after {[x['op'] for x in case['ops'][:step]]}: kept ids "
                               f"{[r[0] for r in got]}, the rows of the catalog as it was that satisfy the step are {[r[0] for r in expected]}")
            return
        after = [base.snapshot(x) for x in objs]
        for k in range(len(objs)):
            if k == tg and inpl:
                continue
            if after[k] != before[k]:
                run.oracle_failure(dict(case, failed_step=step), f"step {step} {o['op']} (in_place={inpl}) changed catalog object {k}")
                return
        if mline is not None and not (band and o["op"] != "filter"):
            i = drv.ask(mline)
            impl = ",".join(str(r[0]) for r in got if r[0] not in band) or "-"
            pending.append((dict(case, failed_step=step), i, impl, sorted(band)))
        nst = dict(rows=got, filters=(newf if newf is not None else (tst["filters"] if inpl else [])),
                   region=(True if (o["op"] == "spatial") else tst["region"]))
        if o["op"] in ("filter", "refilter"):
            tst["filters"] = newf
        if o["op"] == "spatial":
            tst["region"] = True
        # stored values that are fixed by the property: put there by the constructor or by an IN-PLACE call with an argument;
        # what a not-in-place call leaves on the original and what the new instance carries is incidental
        if o["op"] == "filter":
            tst["fk"] = bool(inpl)
        elif o["op"] == "spatial" and o["explicit"]:
            tst["rk"] = bool(inpl)
        nst["fk"], nst["rk"] = (tst.get("fk", True), tst.get("rk", True)) if inpl else (False, False)
        if inpl:
            state[tg] = dict(nst, filters=tst["filters"] if o["op"] != "spatial" else tst["filters"])
            state[tg]["rows"] = got
        else:
            objs.append(res)
            state.append(nst)
    run.case(dict(kind="session", ops=[x["op"] for x in case["ops"]]), ("session", json.dumps(case, sort_keys=True, default=str)))


# ----------------------------------------------------------------------------- sizes: catalogs with more than 2^16 events
def gen_bigfilter_case(rng):
    from . import c04 as base
    distinct = base.gen_events(rng, rng.randint(3, 9))
    rows = [base.row_of(e) for e in distinct]
    sts = [base.gen_stmt(rng, rows, allow_dt=False) for _ in range(rng.randint(1, 3))]
    return dict(kind="bigfilter", distinct=[list(r) for r in rows], n=rng.choice([65537, 70000, 131073]) + rng.randrange(0, 7),
                stmts=sts, in_place=rng.random() < 0.5, dtype=rng.choice(["native-array", "big-endian-array"]))


@_guarded
def bigfilter_case(run, case):
    from . import c04 as base
    from csep.core.catalogs import CSEPCatalog
    rows = [tuple(r) for r in case["distinct"]]
    n, k = case["n"], len(case["distinct"])
    bo = ">" if case["dtype"] == "big-endian-array" else "<"
    dt = numpy.dtype([("id", "S256"), ("origin_time", bo + "i8"), ("latitude", bo + "f8"), ("longitude", bo + "f8"),
                      ("depth", bo + "f8"), ("magnitude", bo + "f8")])
    data = numpy.zeros(n, dtype=dt)
    which = numpy.arange(n) % k
    data["id"] = numpy.arange(n).astype("S256")
    for name, col in (("origin_time", 1), ("latitude", 2), ("longitude", 3), ("depth", 4), ("magnitude", 5)):
        vals = numpy.array([r[col] if col == 1 else float.fromhex(r[col]) for r in rows])
        data[name] = vals[which]
    keep = numpy.array([all(base.holds(r, s) for s in case["stmts"]) for r in rows])
    want_ids = numpy.arange(n)[keep[which]]
    texts = [s["text"] for s in case["stmts"]]
    run.count("bigfilter:" + case["dtype"])
    try:
        cat = CSEPCatalog(data=data.copy())
        res = cat.filter(list(texts), in_place=case["in_place"])
        got_ids = numpy.array([int(x) for x in res.get_event_ids()], dtype=numpy.int64)
        cnt = res.event_count
    except Exception as e:
        run.oracle_failure(case, f"filter on a catalog of {n} events raised {type(e).__name__}: {e}")
        return
    if cnt != len(want_ids) or not numpy.array_equal(got_ids, want_ids):
        run.oracle_failure(case, f"filter({texts}) on {n} events kept {cnt}; {len(want_ids)} satisfy every statement")
        return
    run.case(dict(kind="bigfilter", n=n), ("bigfilter", json.dumps(case, sort_keys=True, default=str)) if 0 < len(want_ids) < n else None)


# ----------------------------------------------------------------------------- SIZE THRESHOLDS: 500 / 2 000 / 5 000 / 2^16 events
SIZES = [600, 2500, 6000, 70000]


def gen_sized_case(rng, n=None, sorted_=None):
    """a catalog just above a size threshold, time-sorted or not, with many ties (origin times, magnitudes, depths repeat) and
    thresholds equal to the value of a row in an EARLY block, the middle, the last row, or its +-1 neighbour: an implementation
    that switches algorithm with the size / the ordering of the catalog (bisection, chunking, another dtype) must select the same rows"""
    n = n or rng.choice(SIZES)
    return dict(kind="sized", n=n + rng.randrange(0, 5), sorted=rng.random() < 0.5 if sorted_ is None else sorted_, seed=rng.randrange(2 ** 32),
                n_stmts=rng.choice([1, 1, 2, 3]), in_place=rng.random() < 0.5, callform=rng.randrange(3), form=rng.choice(["string", "list", "tuple"]))


@_guarded
def sized_case(run, case):
    import datetime as _dt
    import random
    from csep.core.catalogs import CSEPCatalog
    r = random.Random(case["seed"])
    g = numpy.random.default_rng(case["seed"])
    n = case["n"]
    t = 1262304000000 + numpy.cumsum(g.integers(0, 3, size=n)) * r.choice([1, 500, 1000])      # non-decreasing, many ties
    mag = numpy.round(g.uniform(2.0, 8.0, size=n), 1)
    dep = g.integers(0, 40, size=n).astype(float)
    lat = numpy.round(g.uniform(30, 40, size=n), 2)
    lon = numpy.round(g.uniform(-120, -110, size=n), 2)
    if not case["sorted"]:
        perm = g.permutation(n)
        t = t[perm]
    dt = numpy.dtype([("id", "S256"), ("origin_time", "<i8"), ("latitude", "<f8"), ("longitude", "<f8"), ("depth", "<f8"), ("magnitude", "<f8")])
    data = numpy.zeros(n, dtype=dt)
    data["id"] = numpy.arange(n).astype("S256")
    data["origin_time"], data["latitude"], data["longitude"], data["depth"], data["magnitude"] = t, lat, lon, dep, mag
    cols = dict(origin_time=t, latitude=lat, longitude=lon, depth=dep, magnitude=mag)
    ops = {">": numpy.greater, "<": numpy.less, ">=": numpy.greater_equal, "<=": numpy.less_equal, "==": numpy.equal}
    keep = numpy.ones(n, dtype=bool)
    texts = []
    for k in range(case["n_stmts"] if case["form"] != "string" else 1):
        name = r.choice(["origin_time", "origin_time", "origin_time", "magnitude", "depth", "latitude", "longitude"])
        sym = r.choice([">", "<", ">=", "<=", "==", "<", "<="])
        pos = r.choice([r.randrange(0, max(1, n // 20)), n // 2, n - 1, 0, r.randrange(n)])     # an early block, the middle, the ends
        v = cols[name][pos]
        if name == "origin_time":
            v = int(v) + r.choice([0, 0, 0, 1, -1])
            keep &= ops[sym](t, v)                        # int64 against an integer: exact
            if r.random() < 0.4:
                d = _dt.datetime(1970, 1, 1) + _dt.timedelta(milliseconds=v)
                texts.append(f"datetime {sym} " + d.strftime("%Y-%m-%d %H:%M:%S.%f") + r.choice(["", "+00:00"]))
            else:
                texts.append(f"origin_time {sym} {v}" if r.random() < 0.5 else f"origin_time {sym} {float(v)!r}")
        else:
            v = float(v) + r.choice([0.0, 0.0, 0.0, 0.1, -0.1])
            keep &= ops[sym](cols[name], v)               # float64 against a float: exact
            texts.append(f"{name} {sym} {v!r}")
    want = numpy.arange(n)[keep]
    arg = texts[0] if case["form"] == "string" else (tuple(texts) if case["form"] == "tuple" else list(texts))
    ip, cf = case["in_place"], case["callform"]
    run.count(f"sized:{'>2^16' if n > 65536 else '>5000' if n > 5000 else '>2000' if n > 2000 else '>500'}:{'sorted' if case['sorted'] else 'unsorted'}")
    try:
        cat = CSEPCatalog(data=data.copy())
        res = cat.filter(arg, ip) if cf == 1 else (cat.filter(statements=arg, in_place=ip) if cf == 2 else cat.filter(arg, in_place=ip))
        got = numpy.array([int(x) for x in res.get_event_ids()], dtype=numpy.int64)
    except Exception as e:
        run.oracle_failure(case, f"filter({texts}) on {n} events raised {type(e).__name__}: {e}")
        return
    if not numpy.array_equal(got, want):
        diff = sorted(set(got.tolist()) ^ set(want.tolist()))[:6]
        run.oracle_failure(case, f"filter({texts}) on a {'time-sorted' if case['sorted'] else 'time-unsorted'} catalog of {n} events kept "
                                 f"{len(got)} rows, {len(want)} satisfy every statement (first differing row numbers {diff}; rows whose value "
                                 f"equals a threshold are among them: {bool(diff)})")
        return
    if not numpy.array_equal(res.catalog[["origin_time", "magnitude", "depth"]], data[keep][["origin_time", "magnitude", "depth"]]):
        run.oracle_failure(case, f"filter({texts}) on {n} events altered the fields of the kept rows")
        return
    if ip and res is not cat:
        run.oracle_failure(case, "in_place=True did not return the catalog itself")
        return
    if not ip:
        if res is cat or not numpy.array_equal(cat.catalog, data):
            run.oracle_failure(case, f"filter({texts}, in_place=False) on {n} events " +
                               ("returned the catalog itself" if res is cat else "changed the events of the original"))
            return
        if len(got) and numpy.shares_memory(res.catalog, cat.catalog):
            run.oracle_failure(case, f"filter({texts}, in_place=False) on {n} events returned rows that share memory with the original")
            return
    run.case(dict(kind="sized", n=n), ("sized", json.dumps(case, sort_keys=True)) if 0 < len(want) < n else None)


# ----------------------------------------------------------------------------- flushing
def flush(run, drv, pending):
    out = drv.run()
    for case, i, impl, band in pending:
        model = out[i]
        if "|" in model:                       # c04_hist: `flags|ids of object 0`
            model = model.split("|", 1)[1]
        if band and not model.startswith("exc") and model != "bad-op":
            model = ",".join(t for t in model.split(",") if t != "-" and int(t) not in band) or "-"
        if impl == "exc":
            model = "exc" if model.startswith("exc") else model
        if impl != model:
            run.mismatch(case, impl, model)
    pending.clear()
    drv.lines = []


def run_all(run, rng, tier, Driver):
    run.extra["awaiting_decision"] = [f"{w['id']} ({w['cls']}): {w['what']}" for w in AWAITING_DECISION]
    drv, pending = Driver(), []
    for _ in range(2500 if tier == "quick" else 25000):
        mct_case(run, drv, pending, gen_mct_case(rng))
        if len(pending) >= 2000:
            flush(run, drv, pending)
    for _ in range(500 if tier == "quick" else 5000):
        next_case(run, drv, pending, gen_next_case(rng))
        if len(pending) >= 2000:
            flush(run, drv, pending)
    flush(run, drv, pending)
    for _ in range(1200 if tier == "quick" else 12000):
        nan_case(run, drv, pending, gen_nan_case(rng))
        if len(pending) >= 2000:
            flush(run, drv, pending)
    for _ in range(600 if tier == "quick" else 6000):
        session_case(run, drv, pending, gen_session_case(rng))
        if len(pending) >= 2000:
            flush(run, drv, pending)
    flush(run, drv, pending)
    for _ in range(2 if tier == "quick" else 12):
        bigfilter_case(run, gen_bigfilter_case(rng))
    # at least one catalog above each size threshold, time-sorted AND unsorted, in every run; more at random
    for n in SIZES:
        for srt in (True, False):
            for _ in range(3 if n < 10000 else 1):
                sized_case(run, gen_sized_case(rng, n, srt))
    for _ in range(20 if tier == "quick" else 300):
        sized_case(run, gen_sized_case(rng, rng.choice(SIZES[:3])))
    for _ in range(1200 if tier == "quick" else 12000):
        extra_case(run, gen_extra_case(rng), drv, pending)
        if len(pending) >= 2000:
            flush(run, drv, pending)
    flush(run, drv, pending)


def replay(run, case, Driver):
    drv, pending = Driver(), []
    if case["kind"] == "mct":
        mct_case(run, drv, pending, case)
    elif case["kind"] == "next":
        next_case(run, drv, pending, {k: v for k, v in case.items() if k != "catalog"})
    elif case["kind"] == "nan":
        nan_case(run, drv, pending, case)
    elif case["kind"] == "session":
        session_case(run, drv, pending, case)
    elif case["kind"] == "bigfilter":
        bigfilter_case(run, case)
    elif case["kind"] == "sized":
        sized_case(run, case)
    else:
        extra_case(run, case, drv, pending)
    flush(run, drv, pending)
