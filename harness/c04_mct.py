"""C04 (extension) — apply_mct, the filter stage of CatalogForecast.__next__, and extras of filter / filter_spatial
(update_stats, results that share nothing with the catalog they were taken from).

Correspondence with Model/FilterMct.lean (ops c04_mct, c04_next) + direct oracle. The two transcendental floats of apply_mct
(`10 ** x` for t_crit, `log10` for the completeness magnitude) are computed here with the same formulas; an event whose magnitude
is within 1e-9 of its completeness magnitude is in a band where either answer is accepted, and generated times keep 0.01 ms
away from t_crit_epoch unless t_crit is exactly representable (1, 10, 100 days), where the boundary itself is exercised."""
import datetime
import math
import types
from fractions import Fraction

import numpy

from .core import frac

# Input classes on which the UNCHANGED code misbehaves and that wait for a decision (genuine-defect candidates, see notes/C04.md).
# While an entry is listed its class is not generated; delete the entry and the generator produces it and the oracle reports it.
AWAITING_DECISION = [
    dict(id="W-C04-1", cls="mct-empty-catalog",
         what="apply_mct on a catalog without events raises IndexError (times[0], catalogs.py:625); reached from "
              "CatalogForecast.__next__ when the carried filters leave no event and apply_mct=True, and by a second apply_mct "
              "after the first removed every event"),
    dict(id="W-C04-2", cls="spatial-quadtree-region",
         what="filter_spatial(QuadtreeGrid2D) raises AttributeError: QuadtreeGrid2D has no get_masked (regions.py:1009 ff.)"),
]
_AWAIT = {w["cls"] for w in AWAITING_DECISION}

EPOCH0 = datetime.datetime(1970, 1, 1)
DAY = 86400000
EXACT_TCRIT_DAYS = (1.0, 10.0, 100.0, 1000.0)


# ----------------------------------------------------------------------------- the floats of apply_mct, as the code computes them
def tcrit_of(m_main, epoch, mc):
    t_crit_days = 10 ** -((mc - m_main + 4.5) / 0.75)          # catalogs.py:615
    t_crit_millis = t_crit_days * 86400 * 1000                 # time_utils.days_to_millis
    return t_crit_days, t_crit_millis, t_crit_millis + epoch   # :622


def mct_of(t_ms, epoch, m_main):
    """completeness magnitude at time t_ms (>= epoch); +inf at the mainshock instant (log10(0) = -inf)"""
    d = (t_ms - epoch) / 86400 / 1000
    if d == 0:
        return math.inf
    return m_main - 4.5 - 0.75 * math.log10(d)


def decide_below(row_t, row_m, epoch, m_main):
    """(below, in_band) for a row inside the window"""
    m = mct_of(row_t, epoch, m_main)
    if m == math.inf:
        return True, False
    band = abs(row_m - m) <= 1e-9 * max(1.0, abs(m))
    return row_m < m, band


# ----------------------------------------------------------------------------- generator
def gen_mct_params(rng):
    m_main = rng.choice([7.0, 7.0, 7.75, 8.5, 6.25, 7.3, round(rng.uniform(5.5, 9.0), 1), rng.uniform(5.5, 9.0)])
    mc = rng.choice([2.5, 2.5, 2.5, 3.0, 2.0, round(rng.uniform(1.5, 4.0), 1)])
    if rng.random() < 0.25:     # t_crit exactly 1 / 10 / 100 days
        m_main, mc = rng.choice([(7.0, 2.5), (7.75, 2.5), (8.5, 2.5), (7.5, 3.0), (6.5, 2.0)])
    epoch = rng.choice([1246406400000, 0, 946684800000, -1097606850620, 1577836800123, rng.randrange(-10 ** 12, 2 * 10 ** 12)])
    return m_main, mc, epoch


def gen_mct_rows(rng, m_main, mc, epoch, n, sorted_=True):
    from . import c04 as base
    days, tcm, tcrit = tcrit_of(m_main, epoch, mc)
    exact = days in EXACT_TCRIT_DAYS
    ft = int(math.floor(tcrit))
    offs = [-DAY, -1000, -1, 0, 0, 1, 2, 1000, 60000, 3600000, int(tcm * 0.01), int(tcm * 0.1), int(tcm * 0.5), int(tcm * 0.9),
            ft - epoch - 1, ft - epoch, ft - epoch + 1, ft - epoch + 2, int(tcm * 2), int(tcm) + DAY]
    tpool = [epoch + rng.choice(offs) for _ in range(rng.randint(2, 8))] + [epoch + rng.randrange(-DAY, int(tcm * 1.5) + 2)]
    if not exact:
        tpool = [t for t in tpool if abs(t - tcrit) > 0.01] or [epoch + 1]
    rows = []
    for i in range(n):
        if rows and rng.random() < 0.1:
            e = rng.choice(rows)
            rows.append((i + 1,) + e[1:])
            continue
        t = rng.choice(tpool)
        k = rng.random()
        if t > epoch and k < 0.7:
            m = mct_of(t, epoch, m_main) + rng.choice([1e-3, -1e-3, 0.05, -0.05, 0.5, -0.5, 2.0, -2.0, 1e-6, -1e-6])
        elif k < 0.85:
            m = rng.choice([mc, mc - 0.1, mc + 0.1, m_main, 9.5, 0.0, -1.0])
        else:
            m = rng.uniform(-1, 9.5)
        rows.append((i + 1, t, rng.choice([0.0, 35.2, -41.3]), rng.choice([0.0, -118.1, 172.6]), float(rng.randrange(0, 30)), float(m)))
    if sorted_:
        rows.sort(key=lambda r: r[1])
    else:
        rng.shuffle(rows)
    ids = list(range(1, n + 1))
    rng.shuffle(ids)
    return [base.row_of((ids[i],) + r[1:]) for i, r in enumerate(rows)]


def gen_mct_case(rng):
    m_main, mc, epoch = gen_mct_params(rng)
    n = rng.choice([1, 2, 3, 5, 8, 13, 20, 40])
    if "mct-empty-catalog" not in _AWAIT and rng.random() < 0.1:
        n = 0
    srt = rng.random() < 0.8
    rows = gen_mct_rows(rng, m_main, mc, epoch, n, srt)
    return dict(kind="mct", m_main=repr(m_main), mc=repr(mc), epoch=epoch, epoch_kind=rng.choice(["int", "int", "np", "float"]),
                pass_mc=(mc != 2.5 or rng.random() < 0.5), events=[list(r) for r in rows], sorted=srt,
                with_state=rng.random() < 0.3, twice=rng.random() < 0.5, commute=rng.random() < 0.4,
                stmt_seed=rng.randrange(2 ** 32))


# ----------------------------------------------------------------------------- oracle pieces
def mct_expect(rows, m_main, mc, epoch):
    """(expected rows by the one-pass specification, expected rows by the loop as coded, ids in the decision band, ids with below)"""
    _, _, tcrit = tcrit_of(m_main, epoch, mc)
    band, below = set(), set()
    pure = []
    for r in rows:
        t = r[1]
        if epoch <= t <= tcrit:
            b, inb = decide_below(t, float.fromhex(r[5]), epoch, m_main)
            if inb:
                band.add(r[0])
            if b:
                below.add(r[0])
                continue
        pure.append(r)
    loop, i = [], 0
    while i < len(rows):
        r = rows[i]
        if r[1] > tcrit:
            loop += rows[i:]
            break
        if not (r[1] >= epoch and r[0] in below):
            loop.append(r)
        i += 1
    return pure, loop, band, below, tcrit


def _epoch_arg(case):
    e = case["epoch"]
    return {"int": e, "np": numpy.int64(e), "float": float(e)}[case["epoch_kind"]]


def _mk(rows, **kw):
    from csep.core.catalogs import CSEPCatalog
    return CSEPCatalog(data=[(r[0], r[1], float.fromhex(r[2]), float.fromhex(r[3]), float.fromhex(r[4]), float.fromhex(r[5]))
                             for r in rows], **kw)


def mct_case(run, drv, pending, case, rng=None):
    from . import c04 as base
    rows = [tuple(r) for r in case["events"]]
    m_main, mc, epoch = float(case["m_main"]), float(case["mc"]), case["epoch"]
    pure, loop, band, below, tcrit = mct_expect(rows, m_main, mc, epoch)
    srt = all(rows[i][1] <= rows[i + 1][1] for i in range(len(rows) - 1))
    kw = {}
    reg = None
    if case.get("with_state"):
        reg = dict(dh=1.0, dh_text="1", origins=[[0.0, 0.0], [1.0, 0.0], [0.0, 1.0], [1.0, 1.0]])
        kw = dict(filters=["magnitude >= -5.0"], region=base.build_region(reg))
    cat = _mk(rows, **kw)
    witness = _mk(rows)            # a second object with the same rows: must not change
    args = (m_main, _epoch_arg(case)) + ((mc,) if case["pass_mc"] else ())

    def strip(rs):
        return [r for r in rs if r[0] not in band]
    run.count("mct:" + ("sorted" if srt else "unsorted"))
    run.count("mct:epoch-" + case["epoch_kind"])
    if not rows:
        run.count("mct:empty-catalog")
    try:
        res = cat.apply_mct(*args)
    except Exception as e:
        run.oracle_failure(case, f"apply_mct raised {type(e).__name__}: {e}", signature="W-C04-1" if not rows else None)
        return
    got = base.snapshot(cat)
    if res is not cat:
        run.oracle_failure(case, "apply_mct did not return the catalog itself")
        return
    ok_pure, ok_loop = strip(got) == strip(pure), strip(got) == strip(loop)
    if not (ok_pure or (not srt and ok_loop)):
        run.oracle_failure(case, f"apply_mct(m_main={m_main}, event_epoch={epoch}, mc={mc}) kept ids {[r[0] for r in got]}; the events "
                                 f"outside [event_epoch, t_crit_epoch={tcrit!r}] or not below the completeness magnitude are "
                                 f"{[r[0] for r in pure]}")
        return
    if base.snapshot(witness) != rows:
        run.oracle_failure(case, "apply_mct changed another catalog object")
        return
    if kw and (cat.filters != ["magnitude >= -5.0"] or cat.region is not kw["region"]):
        run.oracle_failure(case, "apply_mct changed the filters / region of the catalog")
        return
    nontriv = 0 < len(got) < len(rows)
    for r in rows:
        if r[1] == epoch:
            run.count("mct:event-at-mainshock-instant")
        if r[1] == tcrit:
            run.count("mct:event-exactly-at-t_crit")
        if r[1] == math.floor(tcrit) + 1:
            run.count("mct:event-1ms-after-t_crit")
    if band:
        run.count("mct:decision-band")
    # model (the loop as coded). An implementation that is the one-pass filter on an unsorted catalog is accepted by the oracle
    # and not compared with the model (the property leaves unsorted catalogs to the documented assumption)
    if ok_loop:
        i = drv.ask(" ".join(["c04_mct", base.enc_events(rows),
                              f"{frac(float(epoch)) if case['epoch_kind'] == 'float' else epoch};{frac(tcrit)};"
                              + (",".join(str(k) for k in sorted(below)) or "-")]))
        pending.append((case, i, ",".join(str(r[0]) for r in got if r[0] not in band) or "-", sorted(band)))
    else:
        run.count("mct:unsorted-one-pass-semantics")
    # idempotence on the implementation (a second call on a non-empty result; an emptied catalog is class W-C04-1)
    if case.get("twice") and (got or "mct-empty-catalog" not in _AWAIT):
        try:
            cat.apply_mct(*args)
            if strip(base.snapshot(cat)) != strip(got):
                run.oracle_failure(case, "a second apply_mct with the same arguments changed the catalog")
                return
            run.count("mct:twice")
        except Exception as e:
            run.oracle_failure(case, f"second apply_mct raised {type(e).__name__}: {e}", signature="W-C04-1" if not got else None)
            return
    # commutation with statement filters on sorted catalogs (implementation's own outputs)
    if case.get("commute") and srt and rows:
        import random
        r2 = random.Random(case["stmt_seed"])
        sts = [base.gen_stmt(r2, rows) for _ in range(r2.randint(1, 2))]
        texts = [s["text"] for s in sts]
        want = [r for r in pure if all(base.holds(r, s) for s in sts)]
        a = _mk(rows).filter(list(texts))
        b = _mk(rows).apply_mct(*args)
        try:
            if a.event_count or "mct-empty-catalog" not in _AWAIT:
                ga = base.snapshot(a.apply_mct(*args))
                if strip(ga) != strip(want):
                    run.oracle_failure(dict(case, stmts=texts), f"filter({texts}) then apply_mct kept {[r[0] for r in ga]}, "
                                                                 f"expected {[r[0] for r in want]}")
                    return
            gb = base.snapshot(b.filter(list(texts)))
            if strip(gb) != strip(want):
                run.oracle_failure(dict(case, stmts=texts), f"apply_mct then filter({texts}) kept {[r[0] for r in gb]}, "
                                                             f"expected {[r[0] for r in want]}")
                return
            run.count("mct:commute-with-filter")
        except Exception as e:
            run.oracle_failure(dict(case, stmts=texts), f"filter / apply_mct chain raised {type(e).__name__}: {e}")
            return
    run.case(dict(kind="mct", m_main=m_main, mc=mc, n=len(rows)),
             ("mct", case["m_main"], case["mc"], epoch, tuple(rows)) if nontriv or band else None)


# ----------------------------------------------------------------------------- CatalogForecast.__next__ filter stage
def gen_next_case(rng):
    from . import c04 as base
    m_main, mc, epoch = gen_mct_params(rng)
    mc = 2.5                                  # __next__ calls apply_mct with the default mc
    epoch = abs(epoch) % (4 * 10 ** 12)       # the event time travels as a datetime
    use_mct = rng.random() < 0.6
    use_sp = rng.random() < 0.5
    ncat = rng.randint(1, 4)
    cats = []
    allrows = []
    for _ in range(ncat):
        n = rng.choice([1, 2, 4, 8, 15])
        rows = gen_mct_rows(rng, m_main, mc, epoch, n, True)
        cats.append(rows)
        allrows += rows
    reg = None
    if use_sp or rng.random() < 0.2:
        reg = base.gen_region(rng, allrows)
        cats = [[base.row_of(e) for e in base.place_events_in_region(
            rng, [(r[0], r[1], float.fromhex(r[2]), float.fromhex(r[3]), float.fromhex(r[4]), float.fromhex(r[5])) for r in rows], reg)]
            for rows in cats]
        allrows = [r for rows in cats for r in rows]
    sts = [base.gen_stmt(rng, allrows) for _ in range(rng.choice([0, 1, 1, 2]))]
    return dict(kind="next", m_main=repr(m_main), epoch=epoch, apply_filters=rng.random() < 0.85, stmts=sts,
                stmts_form=rng.choice(["list", "tuple"]), use_mct=use_mct, use_spatial=use_sp,
                region=reg if (use_sp and rng.random() < 0.9) or (reg is not None and rng.random() < 0.5) else None,
                cat_region=reg if rng.random() < 0.3 else None,
                catalogs=[[list(r) for r in rows] for rows in cats])


def next_case(run, drv, pending, case):
    from . import c04 as base
    from csep.core.forecasts import CatalogForecast
    m_main, epoch = float(case["m_main"]), case["epoch"]
    sts, reg, creg = case["stmts"], case["region"], case["cat_region"]
    ev = types.SimpleNamespace(magnitude=m_main, time=EPOCH0 + datetime.timedelta(milliseconds=epoch))
    regobj = base.build_region(reg) if reg is not None else None
    cregobj = base.build_region(creg) if creg is not None else None
    catrows = [[tuple(r) for r in rows] for rows in case["catalogs"]]
    # expected per catalog
    exps = []
    for rows in catrows:
        if not case["apply_filters"]:
            exps.append(("ok", rows, set(), None))
            continue
        cur = [r for r in rows if all(base.holds(r, s) for s in sts)]
        band, mline = set(), "none"
        if case["use_mct"]:
            if not cur:
                exps.append(("exc", None, set(), None))
                continue
            pure, _, band, below, tcrit = mct_expect(cur, m_main, 2.5, epoch)
            mline = f"{epoch};{frac(tcrit)};" + (",".join(str(k) for k in sorted(below)) or "-")
            cur = pure
        if case["use_spatial"]:
            rr = reg if reg is not None else creg
            if rr is None:
                exps.append(("exc", None, set(), mline))
                continue
            band |= {r[0] for r in cur if base.in_band(rr, float.fromhex(r[3]), float.fromhex(r[2]))}
            cur = [r for r in cur if base.inside_exact(rr, float.fromhex(r[3]), float.fromhex(r[2]))]
        exps.append(("ok", cur, band, mline))
    if any(e[0] == "exc" and e[3] is None for e in exps) and "mct-empty-catalog" in _AWAIT:
        run.count("next:skipped-awaiting-W-C04-1")
        return
    kw = dict(region=cregobj) if cregobj is not None else {}
    cats = [_mk(rows, **kw) for rows in catrows]
    fc = CatalogForecast(catalogs=cats, filters=base.py_stmts(sts, case["stmts_form"]) if sts else None,
                         apply_mct=case["use_mct"], filter_spatial=case["use_spatial"], region=regobj, event=ev,
                         apply_filters=case["apply_filters"])
    run.count("next:" + ("on" if case["apply_filters"] else "off") + (":filters" if sts else "") + (":mct" if case["use_mct"] else "")
              + (":spatial" if case["use_spatial"] else ""))
    emptied = False
    for pas in range(2):     # second pass: the stored catalogs were filtered in place, filtering is idempotent
        if pas == 1 and case["apply_filters"] and case["use_mct"] and "mct-empty-catalog" in _AWAIT and emptied:
            run.count("next:second-pass-skipped-awaiting-W-C04-1")   # a stored catalog is now empty: apply_mct would raise
            break
        it = iter(fc)
        for k, (kind, want, band, mline) in enumerate(exps):
            try:
                got = next(it)
            except StopIteration:
                run.oracle_failure(case, f"pass {pas}: the forecast stopped after {k} of {len(exps)} catalogs")
                return
            except Exception as e:
                if kind == "exc":
                    run.count("next:raises")
                    if pas == 0:
                        i = drv.ask(_next_line(base, case, catrows[k], mline or "none"))
                        pending.append((dict(case, catalog=k), i, "exc", []))
                    return        # the pass is aborted by the exception
                run.oracle_failure(case, f"pass {pas}: __next__ raised {type(e).__name__}: {e} on catalog {k}",
                                   signature="W-C04-1" if isinstance(e, IndexError) else None)
                return
            if kind == "exc":
                run.oracle_failure(case, f"pass {pas}: catalog {k} was yielded although filter_spatial has no region")
                return
            snap = base.snapshot(got)
            emptied = emptied or not snap
            if [r for r in snap if r[0] not in band] != [r for r in want if r[0] not in band]:
                run.oracle_failure(case, f"pass {pas}: catalog {k} yielded with ids {[r[0] for r in snap]}; the events satisfying "
                                         f"the carried filters are {[r[0] for r in want]}")
                return
            if pas == 0:
                i = drv.ask(_next_line(base, case, catrows[k], mline or "none"))
                pending.append((dict(case, catalog=k), i, ",".join(str(r[0]) for r in snap if r[0] not in band) or "-", sorted(band)))
                run.case(dict(kind="next", n=len(catrows[k])), ("next", tuple(catrows[k]), tuple(s["text"] for s in sts), mline,
                                                                case["use_spatial"]) if 0 < len(want) < len(catrows[k]) else None)
        try:
            next(it)
            run.oracle_failure(case, f"pass {pas}: more catalogs than the forecast holds")
            return
        except StopIteration:
            pass


def _next_line(base, case, rows, mline):
    return " ".join(["c04_next", base.enc_events(rows), "-", base.enc_region(case["cat_region"]),
                     "1" if case["apply_filters"] else "0", base.enc_stmts(case["stmts"]),
                     mline if (case["use_mct"] and case["apply_filters"]) else "none",
                     "1" if case["use_spatial"] else "0", base.enc_region(case["region"])])


# ----------------------------------------------------------------------------- extras of filter / filter_spatial
def gen_extra_case(rng):
    from . import c04 as base
    n = rng.choice([1, 2, 3, 6, 12, 30])
    evs = base.gen_events(rng, n)
    reg = base.gen_region(rng, [base.row_of(e) for e in evs])
    evs = base.place_events_in_region(rng, evs, reg)
    if rng.random() < 0.3:      # everything inside: a result equal to the original must still be a separate copy
        ox, oy = reg["origins"][0]
        evs = [(e[0], e[1], oy + reg["dh"] / 2, ox + reg["dh"] / 2, e[4], e[5]) for e in evs]
    rows = [base.row_of(e) for e in evs]
    k = rng.random()
    if k < 0.5:
        call = dict(kind="spatial", update_stats=rng.random() < 0.6, in_place=rng.random() < 0.5,
                    region_kind="quadtree" if ("spatial-quadtree-region" not in _AWAIT and rng.random() < 0.3) else "cart")
    else:
        m = rng.choice([1, 1, 2, 3])
        sts = [base.gen_stmt(rng, rows) for _ in range(m)]
        if rng.random() < 0.3:  # statements every row satisfies
            sts = [dict(text="magnitude >= -100.0", enc="mag,ge,-100", attr="mag", op="ge", value="-100", kind="mag")]
        call = dict(kind="filter", stmts=sts, form=rng.choice(["string", "list", "tuple"]) if len(sts) == 1 else rng.choice(["list", "tuple"]),
                    in_place=rng.random() < 0.3)
    return dict(kind="extra", events=[list(r) for r in rows], region=reg, call=call)


def _stats(cat):
    return (cat.min_magnitude, cat.max_magnitude, cat.min_latitude, cat.max_latitude, cat.min_longitude, cat.max_longitude)


def extra_case(run, case):
    from . import c04 as base
    rows = [tuple(r) for r in case["events"]]
    reg, call = case["region"], case["call"]
    cat = _mk(rows)
    band = set()
    try:
        if call["kind"] == "spatial":
            if call.get("region_kind") == "quadtree":
                from csep.core.regions import QuadtreeGrid2D
                robj = QuadtreeGrid2D.from_single_resolution(2)
                b = [tuple(float(v) for v in r) for r in robj.bounds]
                want = [r for r in rows if any(x0 <= float.fromhex(r[3]) < x1 and y0 <= float.fromhex(r[2]) < y1 for x0, y0, x1, y1 in b)]
            else:
                robj = base.build_region(reg)
                band = {r[0] for r in rows if base.in_band(reg, float.fromhex(r[3]), float.fromhex(r[2]))}
                want = [r for r in rows if base.inside_exact(reg, float.fromhex(r[3]), float.fromhex(r[2]))]
            res = cat.filter_spatial(robj, update_stats=call["update_stats"], in_place=call["in_place"])
            run.count(f"extra:spatial:update_stats={call['update_stats']}:in_place={call['in_place']}")
        else:
            want = [r for r in rows if all(base.holds(r, s) for s in call["stmts"])]
            res = cat.filter(base.py_stmts(call["stmts"], call["form"]), in_place=call["in_place"])
            run.count(f"extra:filter:{call['form']}:in_place={call['in_place']}")
    except Exception as e:
        run.oracle_failure(case, f"{call['kind']} raised {type(e).__name__}: {e}",
                           signature="W-C04-2" if call.get("region_kind") == "quadtree" else None)
        return
    got = base.snapshot(res)
    if [r for r in got if r[0] not in band] != [r for r in want if r[0] not in band]:
        run.oracle_failure(case, f"{call['kind']}: kept ids {[r[0] for r in got]} expected {[r[0] for r in want]}")
        return
    if call["in_place"]:
        if res is not cat:
            run.oracle_failure(case, "in_place=True did not return the catalog itself")
            return
    else:
        if res is cat:
            run.oracle_failure(case, "in_place=False returned the catalog itself")
            return
        if base.snapshot(cat) != rows:
            run.oracle_failure(case, "in_place=False changed the events of the original catalog")
            return
        # the result shares nothing with the original: changing a row of the one does not change the other
        if got:
            if len(got) == len(rows):
                run.count("extra:result-equals-original")
            for a, b, tag in ((res, cat, "result"), (cat, res, "original")):
                keep_b = base.snapshot(b)
                old = a.catalog["depth"][0]
                a.catalog["depth"][0] = old + 1.0
                a.catalog["origin_time"][0] += 1
                changed = base.snapshot(b) != keep_b
                a.catalog["depth"][0] = old
                a.catalog["origin_time"][0] -= 1
                if changed:
                    run.oracle_failure(case, f"in_place=False: writing into a row of the {tag} changed the other catalog — the "
                                             f"returned catalog shares its event array with the original")
                    return
            run.count("extra:no-shared-rows")
    # summary statistics describe the rows the catalog now holds (filter always recomputes them; filter_spatial when asked to)
    if call["kind"] == "filter" or call.get("update_stats"):
        if got:
            lat = [float.fromhex(r[2]) for r in got]
            lon = [float.fromhex(r[3]) for r in got]
            mag = [float.fromhex(r[5]) for r in got]
            exp = (min(mag), max(mag), min(lat), max(lat), min(lon), max(lon))
        else:
            exp = (None,) * 6
        try:
            st = _stats(res)
        except AttributeError as e:
            run.oracle_failure(case, f"statistics missing after {call['kind']}: {e}")
            return
        if tuple(None if v is None else float(v) for v in st) != exp:
            run.oracle_failure(case, f"{call['kind']}: min/max statistics {st} do not describe the kept rows {exp}")
            return
        run.count("extra:stats-checked")
    run.case(dict(kind="extra", call=call["kind"]), ("extra", tuple(rows), str(call)) if 0 < len(got) < len(rows) else None)


# ----------------------------------------------------------------------------- flushing
def flush(run, drv, pending):
    out = drv.run()
    for case, i, impl, band in pending:
        model = out[i]
        if band and not model.startswith("exc") and model != "bad-op":
            model = ",".join(t for t in model.split(",") if t != "-" and int(t) not in band) or "-"
        if impl == "exc":
            model = "exc" if model.startswith("exc") else model
        if impl != model:
            run.mismatch(case, impl, model)
    pending.clear()
    drv.lines = []


def run_all(run, rng, tier, Driver):
    run.extra["awaiting_decision"] = [f"{w['id']} ({w['cls']}): {w['what']}" for w in AWAITING_DECISION]
    drv, pending = Driver(), []
    for _ in range(2500 if tier == "quick" else 25000):
        mct_case(run, drv, pending, gen_mct_case(rng))
        if len(pending) >= 2000:
            flush(run, drv, pending)
    for _ in range(500 if tier == "quick" else 5000):
        next_case(run, drv, pending, gen_next_case(rng))
        if len(pending) >= 2000:
            flush(run, drv, pending)
    flush(run, drv, pending)
    for _ in range(1200 if tier == "quick" else 12000):
        extra_case(run, gen_extra_case(rng))


def replay(run, case, Driver):
    drv, pending = Driver(), []
    if case["kind"] == "mct":
        mct_case(run, drv, pending, case)
    elif case["kind"] == "next":
        next_case(run, drv, pending, {k: v for k, v in case.items() if k != "catalog"})
    else:
        extra_case(run, case)
    flush(run, drv, pending)
