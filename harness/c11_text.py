"""Text layer shared by C11 and C12: ties Model/DecimalText.lean (decimal text -> binary64, Python int(), the value of
repr(), numpy.loadtxt tokenisation) to the running Python / numpy on generated tokens, and provides the alternative
spellings of a double used when files are written.

`token_stream(run, rng, n)` compares, token by token: float(tok), int(tok), numpy.loadtxt on a one-token line, and
Decimal(repr(x)), with the driver ops dt_float / dt_int / dt_np / dt_repr.  A difference is reported as a
model/implementation mismatch (the model of the text layer would be wrong: every theorem about parsed files rests on it)."""
import decimal
import io
import warnings
from fractions import Fraction

from .core import Driver, frac


def hexs(s):
    """string -> driver token (hex of the UTF-8 bytes, '-' for the empty string)"""
    return s.encode("utf-8").hex() if s else "-"


def unhexs(t):
    return "" if t == "-" else bytes.fromhex(t).decode("utf-8")


def finite_frac(v):
    v = float(v)
    return None if v != v or v in (float("inf"), float("-inf")) else Fraction(v)


def spellings(x):
    """texts that C strtod / float() read as exactly the finite double x (repr first)"""
    r = repr(float(x))
    out = [r, "%.17g" % x, "%.17e" % x, ("%.17e" % x).upper(), "%.18g" % x, "%.20e" % x, "%.25g" % x]
    for t in ("%.16e" % x, "%.15g" % x, "%.6e" % x, "%g" % x):
        if float(t) == x:
            out.append(t)
    neg = r.startswith("-")
    body = r[1:] if neg else r
    sign = "-" if neg else ""
    if not neg:
        out.append("+" + r)
    if "e" in r:
        m, e = r.split("e")
        out += [r.upper(), r.replace("e-0", "e-").replace("e+", "e"), m + "e" + ("%+04d" % int(e)), m + "E" + ("%+03d" % int(e))]
    elif "n" not in r:
        out += [sign + "00" + body, r + "0", r + "000", r + "e0", r + "E+00", r + "e-000"]
        if body.endswith(".0"):
            out += [r[:-1], r[:-2], r[:-2] + "e0", r[:-2] + ".e0"]
        if body.startswith("0.") and len(body) > 2:
            out += [sign + body[1:], ("-" if neg else "+") + body[1:]]
        # the same number with the point moved: d.ddd -> ddd.d e-2
        if "." in body:
            ip, fp = body.split(".")
            out.append(sign + ip + fp + "e-%d" % len(fp))
            out.append(sign + "0." + ip + fp + "e%d" % len(ip))
    return [t for t in out if float(t) == x]


MALFORMED = ["", " ", ".", "+", "-", "+.", "e5", ".e5", "1e", "1e+", "1e-", "1.0e", "--1", "+-1", "1..2", "1.2.3", "1,5", "1 2",
             "0x10", "0x1p3", "1d5", "1.5f", "1__0", "_1", "1_", "1_.5", "1._5", "1e_5", "1_e5", "1e5_", "inf", "-inf", "nan",
             "Infinity", "+infinity", "NaN", "1e400", "-1e400", "1.7976931348623159e308", "1e5.5", "1e 5", "1 e5", "- 1",
             "1.5.", "e", "E", ".e", "1ee5", "1e+-5", "\x1c1", "1\x1f", "one", "1.5j", "(1)", "1/2", "1.5\x00"]
WELL = ["1_0", "1_000.5", "1_0e1_0", "0_0", " 1.5 ", "\t2\n", "\x0b1\x0c", "\r\n7\r\n", "1e-400", "-1e-400", "0e999", "0.0e-999",
        "1.7976931348623157e308", "1.7976931348623158e308", "2.2250738585072014e-308", "2.2250738585072011e-308", "4.9e-324",
        "5e-324", "2.4703282292062328e-324", "2.4703282292062327e-324", "9007199254740993", "9007199254740992.5",
        "9007199254740993.0000000000000000000001", "0.1", "00.1", ".1", "1.", "+1", "-0", "-0.0", "0", "000", "1e0", "1E0",
        "1e+0", "1e-0", "1e00", "123456789012345678901234567890", "0.000000000000000000000000000001e30",
        "4.35", "2.675", "1.005", "0.30000000000000004", "179.99999999999997", "-179.99999999999997", "89.999999999999986"]


def token_stream(run, rng, n):
    """n random doubles x alternative spellings + the fixed well-formed / malformed lists; returns #tokens compared"""
    import numpy
    toks = list(WELL) + list(MALFORMED)
    xs = []
    for _ in range(n):
        k = rng.random()
        if k < 0.35:
            x = round(rng.uniform(-180, 180), rng.choice([0, 1, 2, 3, 4]))
        elif k < 0.6:
            x = rng.uniform(-700, 700)
        elif k < 0.8:
            x = (rng.random() - 0.5) * 10.0 ** rng.randint(-30, 30)
        elif k < 0.9:
            x = rng.choice([1, -1]) * rng.random() * 10.0 ** rng.randint(-323, 307)
        else:
            x = float(rng.choice([0.0, 5e-324, 2.0 ** -1022, 2.0 ** -1022 - 5e-324, 1.7976931348623157e308, 2.0 ** 53, 2.0 ** 53 + 2,
                                  1e22, 1e23, 0.1, 0.3, 1 / 3, 2.0 ** -30, 1e15 + 0.5, 2.0 ** 63, 2.0 ** -1074 * 3]))
        xs.append(x)
        sp = spellings(x)
        toks.append(rng.choice(sp))
        if rng.random() < 0.5:
            toks.append(rng.choice(sp))
        if rng.random() < 0.08:
            # a malformed neighbour of a good token: one character inserted / deleted / replaced
            t = list(rng.choice(sp))
            j = rng.randrange(len(t) + 1)
            kind = rng.random()
            if kind < 0.4:
                t.insert(j, rng.choice("eE+-._ x,0"))
            elif kind < 0.7 and t:
                del t[min(j, len(t) - 1)]
            elif t:
                t[min(j, len(t) - 1)] = rng.choice("eE+-._ x")
            toks.append("".join(t))
    toks = [t for t in toks if "\x00" not in t or t in MALFORMED]
    drv = Driver()
    i_f = drv.ask("dt_float " + ",".join(hexs(t) for t in toks))
    i_i = drv.ask("dt_int " + ",".join(hexs(t) for t in toks))
    plain = [t for t in toks if t and not any(c in t for c in " \t\n\r\x0b\x0c#,\x1c\x1d\x1e\x1f\x00")]
    i_n = drv.ask("dt_np " + ",".join(hexs(t) for t in plain))
    i_r = drv.ask("dt_repr " + ",".join(frac(x) for x in xs))
    out = drv.run()

    def py(fn, t):
        try:
            v = fn(t)
        except (ValueError, OverflowError):
            return None
        return v

    for t, a, b in zip(toks, out[i_f].split(","), out[i_i].split(",")):
        if a == "skip":          # exponent of more than five digits: the model is not asked (10^e would be enormous)
            run.count("token:skipped-huge-exponent")
            continue
        f = py(float, t)
        want = None if f is None else finite_frac(f)
        got = None if a == "none" else Fraction(a)
        run.count("token:float:" + ("finite" if want is not None else "refused-or-nonfinite"))
        if got != want:
            run.mismatch(dict(kind="float(token)", token=t), repr(f), a)
        iv = py(int, t)
        goti = None if b == "none" else int(b)
        if goti != iv:
            run.mismatch(dict(kind="int(token)", token=t), repr(iv), b)
    for t, a in zip(plain, out[i_n].split(",")):
        try:
            with warnings.catch_warnings():
                warnings.simplefilter("ignore")
                arr = numpy.loadtxt(io.StringIO(t + "\n"), ndmin=2)
            want = finite_frac(arr[0, 0]) if arr.shape == (1, 1) else None
        except Exception:
            want = None
        if a == "skip":
            continue
        got = None if a == "none" else Fraction(a)
        run.count("token:loadtxt:" + ("finite" if want is not None else "refused-or-nonfinite"))
        if got != want:
            run.mismatch(dict(kind="numpy.loadtxt(token)", token=t), repr(want), a)
    for x, a in zip(xs, out[i_r].split(",")):
        want = Fraction(decimal.Decimal(repr(x)))
        if Fraction(a) != want:
            run.mismatch(dict(kind="Decimal(repr(x))", x=float(x).hex()), str(want), a)
        if float(want) != x:
            raise RuntimeError(f"float(repr(x)) != x for {x!r}")
    run.count("token:repr", len(xs))
    return len(toks) + len(plain) + len(xs)


TOKEN_KINDS = ("float(token)", "int(token)", "numpy.loadtxt(token)", "Decimal(repr(x))")


def replay_token(run, case):
    """re-run one token comparison"""
    import numpy
    drv = Driver()
    kind = case["kind"]
    if kind == "Decimal(repr(x))":
        x = float.fromhex(case["x"])
        i = drv.ask("dt_repr " + frac(x))
        out = drv.run()
        want = Fraction(decimal.Decimal(repr(x)))
        if Fraction(out[i]) != want:
            run.mismatch(case, str(want), out[i])
        return
    t = case["token"]
    op = {"float(token)": "dt_float", "int(token)": "dt_int", "numpy.loadtxt(token)": "dt_np"}[kind]
    i = drv.ask(op + " " + hexs(t))
    out = drv.run()
    try:
        if kind == "float(token)":
            w = finite_frac(float(t))
        elif kind == "int(token)":
            w = int(t)
        else:
            w = finite_frac(numpy.loadtxt(io.StringIO(t + "\n"), ndmin=2)[0, 0])
    except Exception:
        w = None
    got = None if out[i] == "none" else Fraction(out[i])
    if got != (None if w is None else Fraction(w)):
        run.mismatch(case, repr(w), out[i])
