"""C02 — 1-D binning (`bin1d_vec`, `discretize`) and bin-edge generators (`cleaner_range`, `magnitude_bins`).

Direct oracle (exact, fractions.Fraction, independent of the Lean model) + correspondence with
Model/Bin1d.lean through the native driver (ops c02_bin1d, c02_cleaner, c02_decgrid).
See notes/C02.md for the band rule.
"""
import bisect
import glob
import itertools
import json
import os
from fractions import Fraction

import numpy

from .core import Driver, VERIF, frac, flist, validate_soft64

LEVEL_TEXT = ("Proof: the exact half-open semantics (bin k iff a0+k*h <= v < a0+(k+1)*h, below-first -> -1, open top, edges open "
              "their own bin, monotone, ideal = regular on exactly regular grids) for all rational grids and values; for the "
              "float code as written (Soft64 transcription, bit-exact with numpy on every run): result always -1..n-1 (all dtypes), "
              "a value at or above a real edge is never placed below it for every increasing float64 grid with 2 <= n <= 2^40 whose "
              "edges lie at most h/4 below a0+k*h, monotone in v for v >= 0 on every grid, complete behaviour on the whole "
              "non-negative axis for CSEP_MW_BINS (kernel-evaluated threshold table + monotonicity), kernel-evaluated tables at "
              "every edge +-1..4 ulps for CSEP_MW_BINS, magnitude_bins(5.95,8.95,0.1) and the NZ region edge arrays, and for the "
              "past failures; cleaner_range returns exactly the nearest doubles of the decimal grid for all |S|+(n+1)*D <= 2^50, "
              "m <= 22. Proved for every float64 grid with 2 <= n <= 2^40 increasing edges within h/4 of a0+k*h, h >= 2^-1021, and every "
              "float64 value with (n+1)*|a0|*eps + |v|*eps <= h/2: the result exceeds the ideal bin by at most one and only inside "
              "the band (1+13u)((j+1)|a0|eps+|v|eps)+6u*j*h+2^-1073*h below the regular position (inside the oracle's band), hence "
              "the model's answer is always in the allowed set (bin1dF_mem_allowed); bin1dF_safe (away from the band the float answer "
              "is the exact regular-grid answer); every edge lands in its own bin; discretize = edge of the bin, rejects exactly the "
              "out-of-range values, is idempotent. Tied to the code by correspondence (bit-exact on every run). Round 4: (i) `num_decimals` of "
              "cleaner_range is computed by the model from its own repr (DecimalText.reprValue, proved to read back): numDecimals_denotes (repr(x) = z/10^d "
              "with d = num_decimals(x), every x), float_is_nearest_of_its_repr, and cleanerRange_repr_exact / cleanerRange_repr_bins_ok: 'the generators "
              "return exactly the floats closest to the decimal grid start + k*step' for the function with NO outside input, start and step read as the "
              "decimals Python prints; (ii) the lower side 'a value at or above an edge may not go below it' for EVERY point tolerance: "
              "bin1dF_gen_never_below with instances for the tol= override (get_magnitude_index(mags, tol), magnitude_counts(tol=)) and for integer points on "
              "float64 edges, and (iii) the complete case analysis for every point tolerance (bin1dF_gen_cases) with bin1dF_tol_mem_allowed / "
              "bin1dF_intpts_mem_allowed / magCfg_tol_mem_allowed: for `tol=t` and for int64 points on float64 edges the model's answer is ALWAYS in the "
              "set the property allows (same strength as bin1dF_mem_allowed for the default tolerance).")
LEVEL_NOTE = ("Float theorems are about float64 points and float64 edges (default tolerance; the driver evaluates their hypotheses on "
              "every float64 model case and the evidence reports the covered share); tol= and int64-on-float64 have both sides of the band by theorem "
              "(C02_Tol.lean, under the same grid hypotheses), int64 on int64 is exact by theorem; float32 is modelled bit-exactly and covered by "
              "correspondence and the direct oracle, not by general theorems. The number of decimals of repr(start), repr(h) is computed by the model "
              "(round 4; compared with the implementation's nested helper and with Decimal(repr(x)) on every run). NaN, +-inf, |ints| >= 2^53 are outside "
              "the model. cleaner_range's fallback path (step that is not a short decimal: 16+ decimals) is modelled bit-exactly and generated (oracle: the "
              "grid start + k*h to 1e-12 relative, exact length for an end on the grid); no theorem covers it, and the class in which it rounds the START to a "
              "multiple of the step was decided a genuine defect (D49, repaired in /repo: the branch now steps from the start itself); the model is "
              "of the REPAIRED branch (fallbackRange), the old one is kept as kernel-checked findings (finding_cleaner_fallback_displaced_*), and "
              "the repaired branch is proved: first edge = start, edge k = fl64(start + fl64(k*h)), exact count, and the binning clause on regular "
              "returned grids (fallback_first_edge, fallbackRange_getElem?, fallback_count_exact, fallback_bins_ok).")
DESIGN_REF = "DESIGN.md §4 C02"
TECHNIQUE = "Lean 4 kernel-checked theorems (exact layer on Rat, Soft64 layer for the float formula) + differential correspondence"

THEOREMS = [
    "Bin1d.binReg_eq_iff", "Bin1d.binReg_open_top", "Bin1d.binReg_below_first", "Bin1d.binReg_closed_top",
    "Bin1d.binReg_edge", "Bin1d.binReg_range", "Bin1d.binReg_mono",
    "Bin1d.binIdeal_eq_iff", "Bin1d.binIdeal_below_first", "Bin1d.binIdeal_open_top", "Bin1d.binIdeal_mono",
    "Bin1d.binIdeal_range", "Bin1d.binIdeal_eq_binReg",
    "Bin1d.bin1dF_range", "Bin1d.bin1dF_never_below_next", "Bin1d.bin1dF_never_below",
    "Bin1d.bin1dF_mono_nonneg", "Bin1d.bin1dF_const_between",
    "Bin1d.mw_thresholds", "Bin1d.csep_mw_bins_complete", "Bin1d.csep_mw_bins_complete_top",
    "Bin1d.csep_mw_bins_complete_bottom",
    "Bin1d.test_witness_878", "Bin1d.test_witness_top",
    "Bin1d.table_csep_mw_bins_open", "Bin1d.table_csep_mw_bins_closed", "Bin1d.table_magnitude_bins_595",
    "Bin1d.table_nz_region_edges", "Bin1d.table_collection_region_edges",
    "Bin1d.cleanerRange_exact", "Bin1d.test_cleaner_050", "Bin1d.test_cleaner_1em5",
    # Properties/C02_Float.lean: the float64 formula leaves the ideal bin only inside the band
    "Bin1d.bin1dF_cases", "Bin1d.bin1dF_upper", "Bin1d.bin1dF_upper_top", "Bin1d.bin1dF_mem_allowed",
    "Bin1d.bin1dF_safe_band", "Bin1d.bin1dF_safe", "Bin1d.bin1dF_edge_own_bin",
    "Bin1d.regularGridB_sound", "Bin1d.pointOKB_sound", "Bin1d.hyp_check_sound",
    # Properties/C02_Discretize.lean
    "Bin1d.discretize_arg_checks", "Bin1d.discretize_eq_edge_of_bin", "Bin1d.discretize_rejects_outside",
    "Bin1d.discretize_idem", "Bin1d.discretize_idem_f64", "Bin1d.discretize_rejects_below_first",
    "Bin1d.discretize_rejects_at_top",
    # Properties/C02_Decimal.lean: decimal grids (cleaner_range output) meet the hypotheses; global lon/lat without tables
    "Bin1d.decimalGrid_regular", "Bin1d.decimalGrid_mem_allowed", "Bin1d.decimalGrid_edge_own_bin",
    "Bin1d.cleanerRange_bins_ok", "Bin1d.decimalGridOK_of_numeric", "Bin1d.globalLon_ok", "Bin1d.globalLat_ok",
    "Bin1d.global_lon_edges", "Bin1d.global_lat_edges",
    # Properties/C02_Calls.lean: the magnitude call sites inherit the property
    "Bin1d.getMagIdx_mem_allowed", "Bin1d.open_top_last_bin", "Bin1d.getMagnitudeIndex_ok_iff", "Bin1d.getMagnitudeIndex_range",
    "Bin1d.getMagnitudeIndex_accepts", "Bin1d.magnitudeCounts_entry", "Bin1d.magnitudeCounts_length",
    "Bin1d.magnitudeCounts_bin_allowed", "Bin1d.magnitudeBins_regular", "Bin1d.createSpaceMagnitudeRegion_spec",
    # Properties/C02_Int.lean: integer points on integer edges are binned exactly
    "Bin1d.quotF_cfgInt", "Bin1d.bin1dCore_cfgInt", "Bin1d.floor_fl64_div_int", "Bin1d.bin1dF_int_exact",
    # Properties/C02_Tol.lean: the band of the `tol=` override and of integer points on float64 edges
    "Bin1d.quotF_cfgTol", "Bin1d.quotF_cfgIntPts", "Bin1d.bin1dCore_gen", "Bin1d.bin1dF_gen_upper", "Bin1d.bin1dF_tol_upper",
    "Bin1d.bin1dF_intpts_upper", "Bin1d.magCfg_tol_eq",
    # round 4: the lower side for every point tolerance
    "Bin1d.qG_lower", "Bin1d.qG_nonneg", "Bin1d.bin1dF_gen_never_below", "Bin1d.bin1dF_tol_never_below",
    "Bin1d.bin1dF_intpts_never_below", "Bin1d.magCfg_tol_never_below",
    # Properties/C02_TolCases.lean (round 4): the complete case analysis and mem_allowed for every point tolerance
    "Bin1d.gband_lt", "Bin1d.bin1dF_gen_cases", "Bin1d.le_bandWidth_gen", "Bin1d.bin1dF_gen_mem_allowed",
    "Bin1d.bin1dF_tol_mem_allowed", "Bin1d.bin1dF_intpts_mem_allowed", "Bin1d.magCfg_tol_mem_allowed",
    # Properties/C02_Repr.lean (round 4): num_decimals inside the model
    "Bin1d.numDecimals_denotes", "Bin1d.float_is_nearest_of_its_repr", "Bin1d.cleanerRange_repr_exact",
    "Bin1d.cleanerRange_repr_bins_ok",
    # the fallback branch after fix D49, and the old branch as findings
    "Bin1d.fallbackRange_length", "Bin1d.fallbackRange_getElem?", "Bin1d.fallback_first_edge", "Bin1d.fallback_quotient_err",
    "Bin1d.fallback_count_exact", "Bin1d.fallback_edge_near", "Bin1d.cleanerRangeAuto_fallback", "Bin1d.fallback_bins_ok",
    "Bin1d.finding_cleaner_fallback_displaced_50", "Bin1d.finding_cleaner_fallback_displaced_035",
]
TRUSTED = ["Lean 4.33 kernel", "axioms: propext, Classical.choice, Quot.sound at most",
           "Soft64.fl64/fl32 is IEEE-754 round-to-nearest-even and numpy + - * / floor on float64/float32 are that arithmetic "
           "(validated bit-exactly on every run: primitives and the whole bin1d_vec formula)",
           "numpy dtype promotion (NEP 50) as transcribed in Model/Bin1d.lean (validated by the bit-exact comparison)",
           "DecimalText.reprValue is the value of Python's repr(float) (shortest round-trip decimal; proved to read back; compared with "
           "Decimal(repr(x)) on ~430 / 4000 values per run) and CPython switches to exponent notation at 1e16 / below 1e-4 "
           "(ReprDec.numDecimals; compared with the implementation's nested num_decimals on the same values)",
           "numpy.arange length/fill semantics as transcribed (validated by correspondence)",
           "harness/c02.py generators, the Fraction oracle and the band rule; driver parsing (Proto.lean)"]
RULE = ("grids: decimal grids with 1-4 decimals (|start| << step, ~ step, >> step, negative, zero-crossing), library-generated "
        "(cleaner_range / magnitude_bins), start+arange(n)*h, linspace, integer and float32 edge arrays, CSEP_MW_BINS and the "
        "lon/lat edge arrays of every shipped region that builds offline, n from 1 to 2*10^4, both modes, tol override; values: "
        "every edge (sampled edges on grids > 400 in the model pass, all edges in the oracle pass), +-1,2,3,4,8,...,4096 ulps "
        "around edges, midpoints, below first, around and above the upper edge of the last bin, float64 / float32 / int64 arrays "
        "and scalars; a case is one (grid, mode, value); non-trivial = value on an edge or within 4096 ulps of one; distinct by "
        "(grid, mode, value)"
        " Call sites (harness/c02_calls.py): CSEPCatalog.get_mag_idx / magnitude_counts(mag_bins, tol, retbins), GriddedForecast.get_magnitude_index(mags, tol) "
        "for float64 / list / float32 / int64 magnitudes, create_space_magnitude_region, on the CSEP grid, magnitude_bins grids and random decimal grids with "
        "tol in {None, 1e-5, 1e-9, 0.0}, magnitudes on and around edges and 0.5 / 2.5 / 3 tolerances below them; judged by the exact oracle, not against bin1d_vec; sessions of 5-10 calls on ONE shared edge array "
        "(region magnitudes of two catalogs and a forecast) and one value array with in-place edits and re-binding of the edges by the caller, every result judged against the "
        "edges in force at that moment, inputs snapshotted; NaN / -inf observed; more than 2^16 events in one bin; more than 2^16 edges; "
        "cleaner_range / magnitude_bins: decimal arguments with 0-17 decimals (exact nearest-double oracle inside |S|+(n+1)D <= 2^50, else to rounding), "
        "steps that are not short decimals (1/3 ... 1/300, 0.1+0.2, float differences, 16-digit decimals, random floats) with starts that are multiples of "
        "the step / fine decimals / integers (grid to 1e-12, exact length), all through the model with no decimal input (c02_cleaner_auto, both paths); "
        "num_decimals itself on ~430 values per run (decimals, integers around 1e16, values below 1e-4, float noise, random bit patterns)")

EPS = {"f64": Fraction(1, 2 ** 52), "f32": Fraction(1, 2 ** 23), "i64": Fraction(0)}
NPDT = {"f64": numpy.float64, "f32": numpy.float32, "i64": numpy.int64}
OFFS = [0, 1, 2, 3, 4, 8, 16, 32, 64, 128, 256, 512, 1024, 2048, 4096]


def dt_of(a):
    a = numpy.asarray(a)
    if a.dtype == numpy.float64:
        return "f64"
    if a.dtype == numpy.float32:
        return "f32"
    if a.dtype.kind in "iu":
        return "i64"
    raise ValueError(f"unsupported dtype {a.dtype}")


def ulp_step(x, k):
    """k-ulp neighbours (k may be negative) of a float64/float32 array, crossing zero correctly"""
    x = numpy.ascontiguousarray(x)
    if x.dtype == numpy.float64:
        i = x.view(numpy.int64)
        lo = numpy.int64(-2 ** 63)
        o = numpy.where(i < 0, lo - i, i) + numpy.int64(k)      # monotone integer order of the floats
        return numpy.where(o < 0, lo - o, o).astype(numpy.int64).view(numpy.float64)
    i = x.view(numpy.int32).astype(numpy.int64)
    o = numpy.where(i < 0, -2 ** 31 - i, i) + k
    return numpy.where(o < 0, -2 ** 31 - o, o).astype(numpy.int32).view(numpy.float32)


# ----------------------------------------------------------------------------- exact oracle
class Grid:
    """edge array + exact data the oracle needs; `spec` rebuilds it (replay)"""

    def __init__(self, bins, spec):
        self.bins = numpy.asarray(bins)
        self.spec = spec
        self.bd = dt_of(self.bins)
        self.n = int(self.bins.size)
        self.e64 = self.bins.astype(numpy.float64)
        self._F = None
        if self.n > 1:
            h = self.bins[1] - self.bins[0]            # the step the property's grid has, in the edges' dtype
            top = self.bins[-1] + h
        else:
            h, top = 1.0, None
        self.hF = Fraction(int(h)) if self.bd == "i64" else Fraction(float(h))
        self.topF = None if top is None else (Fraction(int(top)) if self.bd == "i64" else Fraction(float(top)))
        self.a0F = self._fr(self.bins[0])

    def _fr(self, x):
        return Fraction(int(x)) if self.bd == "i64" else Fraction(float(x))

    @property
    def F(self):
        if self._F is None:
            self._F = [self._fr(x) for x in self.bins]
        return self._F

    def premise(self, pd="f64", tol=None):
        """the property's premise: increasing, equally spaced up to rounding, and the documented band of the
        widest case stays below h/8 (the grid resolves its own step for this dtype)"""
        if self.n == 1:
            # a single edge: the code takes the arbitrary step h = 1, so the same resolution premise applies with
            # h = 1 (a float32 edge of 1.5e7 has |a0|*eps32 = 1.8 > 1: the grid does not resolve the code's own step;
            # bin1d_vec then rejects the edge value itself — observed, outside the premise like [2**52, 2**52+1])
            a0 = abs(float(self.a0F))
            ptol = abs(tol) if tol else a0 * float(EPS[pd])
            return 3 * a0 * float(EPS[self.bd]) + ptol < 1.0 / 8
        if self.hF <= 0:
            return False
        e = self.e64
        if not numpy.all(numpy.diff(e) > 0):
            return False
        j = numpy.arange(self.n, dtype=numpy.float64)
        a0, h = float(self.a0F), float(self.hF)
        irr = numpy.abs(e - (a0 + j * h))
        eb = float(EPS[self.bd])
        cap = j * eb * (abs(a0) + abs(e[1])) + (eb + 4 * 2.0 ** -52) * numpy.abs(e)
        if numpy.any(irr > cap):
            return False
        vmax = max(abs(e[0]), abs(e[-1]) + h)
        ptol = abs(tol) if tol else vmax * float(EPS[pd])
        u = 2.0 ** -24 if "f32" in (pd, self.bd) else 2.0 ** -53
        w = float(irr.max()) + (self.n + 2) * abs(a0) * eb + ptol + 10 * u * self.n * h
        return w < h / 8


def ptol_exact(pd, tol, v):
    if tol:
        return abs(Fraction(tol))
    return abs(v) * EPS[pd]


def band_width(g, pd, tol, j, ej, v):
    """documented band below edge j (notes/C02.md), exact"""
    u = Fraction(1, 2 ** 24) if (pd == "f32" or g.bd == "f32") else Fraction(1, 2 ** 53)
    tiny = Fraction(1, 2 ** 126) if (pd == "f32" or g.bd == "f32") else Fraction(1, 2 ** 1022)   # quotient underflow
    irr = ej - (g.a0F + j * g.hF)
    return (max(Fraction(0), irr) + (1 + Fraction(1, 2 ** 20)) * ((j + 1) * abs(g.a0F) * EPS[g.bd] + ptol_exact(pd, tol, v))
            + 10 * u * j * g.hF + tiny * g.hF)


def band_width_float(g, pd, tol, j, ej, v):
    """vectorised float evaluation of band_width (relative error ~1e-15; only used with a 1% guard)"""
    u = 2.0 ** -24 if (pd == "f32" or g.bd == "f32") else 2.0 ** -53
    a0, h = float(g.a0F), float(g.hF)
    irr = ej - (a0 + j * h)
    ptol = abs(float(tol)) if tol else numpy.abs(v) * float(EPS[pd])
    return numpy.maximum(0.0, irr) + (j + 1) * abs(a0) * float(EPS[g.bd]) + ptol + 10 * u * j * h


def allowed_exact(g, pd, tol, rc, v):
    """set of indices the property allows for the exact value v (Fraction)"""
    n, F = g.n, g.F
    k = bisect.bisect_right(F, v) - 1
    rc = rc or n == 1
    if k + 1 < n:
        ej = F[k + 1]
        return {k, k + 1} if ej - v <= band_width(g, pd, tol, k + 1, ej, v) else {k}
    if rc:
        return {k}
    if v >= g.topF:
        return {-1}
    return {k, -1} if g.topF - v <= band_width(g, pd, tol, n, g.topF, v) else {k}


def to_frac(pd, x):
    return Fraction(int(x)) if pd == "i64" else Fraction(float(x))


def allowed_val(g, pd, tol, rc, x):
    """allowed_exact for a value as the implementation sees it; +inf is 'at or above the last edge' (last bin when
    open-ended, out of range in closed mode), -inf is below the first edge (NaN is outside the property and never generated)"""
    if pd != "i64" and not numpy.isfinite(float(x)):
        if float(x) > 0:
            return {g.n - 1} if (rc or g.n == 1) else {-1}
        return {-1}
    return allowed_exact(g, pd, tol, rc, to_frac(pd, x))


def in_model_domain(g, pd, x):
    """Soft64 has no overflow / infinities: the model is asked only for finite values whose quotient (p-a0+tol)/(h-tol)
    stays far below the float64 maximum; larger values (1e300 on a fine grid, the float maximum, +inf) go through the
    oracle only"""
    if pd == "i64":
        return True
    x = float(x)
    return bool(numpy.isfinite(x)) and abs(x) < 1e290 * min(1.0, float(g.hF))


def val_repr(pd, x):
    return str(int(x)) if pd == "i64" else repr(float(x))


_BIN1D_CALLS = [0]


def impl_bin1d(p, bins, tol, rc):
    """every third call runs under numpy.errstate(divide='raise', invalid='raise') (round 7, class k: probed — the unchanged tree
    answers every value class, the huge ones and +inf included, without tripping it)"""
    from csep.utils.calc import bin1d_vec
    _BIN1D_CALLS[0] += 1
    if _BIN1D_CALLS[0] % 3 == 0:
        with numpy.errstate(divide="raise", invalid="raise"):
            return bin1d_vec(p, bins, tol=tol, right_continuous=rc)
    return bin1d_vec(p, bins, tol=tol, right_continuous=rc)


class Ctx:
    def __init__(self, run, rng, tier):
        self.run, self.rng, self.tier = run, rng, tier
        self.drv = Driver()
        self.pending = []
        self.bitexact = 0
        self.bit_total = 0
        self.bit_diff = []
        self.model_values = 0
        self.fail_per_grid = 3
        self.gid = 0
        self.hyp_total = 0          # float64 default-tolerance model values
        self.hyp_covered = 0        # ... on which the hypotheses of the float theorems hold (driver op c02_hyp)
        self.hyp_grids_irregular = 0
        self.disc_calls = 0


def check_values(ctx, g, values, tol, rc, tag, n_model):
    """oracle on every value (vectorised, exact on the suspicious ones), model on a directed subsample"""
    run, rng = ctx.run, ctx.rng
    values = numpy.asarray(values)
    pd = dt_of(values)
    flat = values.ravel()
    case0 = dict(kind="bin1d", grid=g.spec, pd=pd, tol=tol, rc=bool(rc), tag=tag)
    try:
        out = impl_bin1d(values, g.bins, tol, rc)
    except Exception as e:
        run.oracle_failure(dict(case0, p=[val_repr(pd, x) for x in flat[:8]]),
                           f"exception {type(e).__name__}: {e} on an increasing equally spaced grid")
        return
    out = numpy.asarray(out)
    if out.shape != values.shape or out.dtype.kind not in "iu":      # an integer index per value (int64 today; the width is not the property's)
        run.oracle_failure(dict(case0, p=[val_repr(pd, x) for x in flat[:8]]),
                           f"result shape/dtype {out.shape}/{out.dtype} for input shape {values.shape}")
        return
    out = out.ravel()
    v64 = flat.astype(numpy.float64)
    n = g.n
    ideal = numpy.searchsorted(g.e64, v64, side="right") - 1
    exp = ideal.copy()
    rcm = rc or n == 1
    near_top = numpy.zeros(len(v64), dtype=bool)
    if not rcm:
        top = float(g.topF)
        exp = numpy.where(v64 >= top, -1, exp)
        near_top = numpy.abs(v64 - top) <= 1e-6 * float(g.hF) + 1e-9 * abs(top)
    susm = (out != exp) | near_top
    # vectorised acceptance of the clear in-band cases: result = ideal+1, value well inside the band below that edge
    up = (out == ideal + 1) & (ideal + 1 < n) & susm & ~near_top
    if up.any():
        jj = numpy.clip(ideal + 1, 0, n - 1)
        ej = g.e64[jj]
        d = ej - v64
        w = band_width_float(g, pd, tol, jj.astype(numpy.float64), ej, v64)
        clear = up & (d > 0) & (d <= 0.99 * w) & (w < 0.2 * float(g.hF))
        run.count("in_band_upper_bin", int(clear.sum()))
        susm = susm & ~clear
    sus = numpy.nonzero(susm)[0]
    nfail = 0
    for i in sus:
        al = allowed_val(g, pd, tol, rc, flat[i])
        if int(out[i]) not in al:
            if nfail < ctx.fail_per_grid:
                k = int(ideal[i])
                run.oracle_failure(dict(case0, p=[val_repr(pd, flat[i])]),
                                   f"bin1d_vec returned {int(out[i])}, the property allows {sorted(al)} "
                                   f"(largest edge <= v has index {k}, n={n}, v={val_repr(pd, flat[i])})")
            nfail += 1
        elif int(out[i]) != int(exp[i]):
            run.count("in_band_upper_bin")
    # accounting
    ctx.gid += 1
    run.case(dict(case0, p=[val_repr(pd, x) for x in flat[:4]], n_values=len(flat)), None)
    run.evaluations += len(flat) - 1
    on_edge = g.e64[numpy.clip(ideal, 0, n - 1)] == v64
    with numpy.errstate(invalid="ignore", over="ignore"):
        huge = ~numpy.isfinite(v64) | (numpy.abs(v64 - float(g.a0F)) >= 2.0 ** 62 * float(g.hF))
    if huge.any():
        run.count("huge_or_infinite_values", int(huge.sum()))
        run.count("plus_infinity_values", int(numpy.isposinf(v64).sum()))
        ctx.run.nontrivial.update(("huge", ctx.gid, float(x)) for x in v64[huge & (v64 > 0)][:8])
    # open-ended mode: the answers are monotone in v over the whole value set (including the huge values); in closed
    # mode up to the first out-of-range value at the top
    # (checked on the non-negative values, where every float operation of the formula is monotone in v for every dtype /
    # tol configuration — `bin1dF_mono_nonneg`; for negative v the point tolerance |v|*eps shrinks as v grows)
    order = numpy.argsort(v64, kind="stable")
    order = order[v64[order] >= 0]
    if not rcm:    # closed mode: below the band under `top` (inside it -1 is an allowed answer)
        with numpy.errstate(invalid="ignore", over="ignore"):
            wtop = band_width_float(g, pd, tol, float(n), float(g.topF), v64[order])
            order = order[v64[order] < float(g.topF) - 1.01 * wtop - 1e-9 * float(g.hF)]
    so = out[order]
    run.count("monotonicity_checked_values", len(so))
    dec = numpy.nonzero(numpy.diff(so) < 0)[0]
    if len(dec) and nfail == 0:
        run.count("monotonicity_breaks")
        vs = v64[order]
        i = int(dec[0])
        run.oracle_failure(dict(case0, p=[val_repr(pd, flat[order[i]]), val_repr(pd, flat[order[i + 1]])]),
                           f"bin assignment is not monotone: v={vs[i]!r} -> {int(so[i])}, larger v={vs[i + 1]!r} -> {int(so[i + 1])}")
    run.count("value_on_edge", int(on_edge.sum()))
    run.count("below_first", int((ideal < 0).sum()))
    run.count("values_" + pd, len(flat))
    run.count("grid_" + g.spec.get("kind", "?") + "_" + g.bd)
    run.count("mode_open" if rcm else "mode_closed", len(flat))
    key = (json.dumps(g.spec, sort_keys=True, default=str), bool(rc), tol)
    kh = hash(key)
    lo = g.e64[numpy.clip(ideal, 0, n - 1)]
    hi = g.e64[numpy.clip(ideal + 1, 0, n - 1)]
    with numpy.errstate(invalid="ignore", over="ignore"):
        dist = numpy.minimum(numpy.abs(v64 - lo), numpy.abs(hi - v64))
        if not rcm:
            dist = numpy.minimum(dist, numpy.abs(v64 - float(g.topF)))
        sp = numpy.spacing(numpy.abs(v64)) if pd != "f32" else numpy.spacing(numpy.abs(flat)).astype(numpy.float64)
        near = dist <= 4097 * sp
    run.count("near_edge_values", int(near.sum()))
    run.nontrivial.update(zip(itertools.repeat(kh), v64[near].tolist()))
    # model subsample: suspicious first, then on-edge, then random
    if n_model <= 0:
        return
    pick = list(sus[:n_model // 2])
    rest = n_model - len(pick)
    if rest > 0:
        cand = numpy.arange(len(flat))
        if len(cand) > rest:
            cand = numpy.array(sorted(rng.sample(range(len(flat)), rest)))
        pick += list(cand)
    pick = sorted(set(int(i) for i in pick if in_model_domain(g, pd, flat[i])))
    if not pick:
        return
    ps = [flat[i] for i in pick]
    tol_s = "none" if tol is None else frac(tol)
    bins_s = ",".join(frac(int(x) if g.bd == "i64" else float(x)) for x in g.bins)
    p_s = ",".join(frac(int(x) if pd == "i64" else float(x)) for x in ps)
    qi = ctx.drv.ask(f"c02_bin1d {pd} {g.bd} {tol_s} {1 if rc else 0} {bins_s} {p_s}")
    ctx.pending.append(("bin1d", qi, case0, g, pd, tol, rc, ps, [int(out[i]) for i in pick]))
    ctx.model_values += len(ps)
    if pd == "f64" and g.bd == "f64" and tol is None and n > 1:
        # are the hypotheses of the float theorems (RegularF64Grid, PointOK) met by this grid and these values?
        qh = ctx.drv.ask(f"c02_hyp {bins_s} {p_s}")
        ctx.pending.append(("hyp", qh, case0, len(ps)))
    if len(ctx.pending) >= 40:
        flush(ctx)


def flush(ctx):
    run = ctx.run
    if not ctx.pending:
        return
    outs = ctx.drv.run()
    for item in ctx.pending:
        if item[0] == "bin1d":
            _, qi, case0, g, pd, tol, rc, ps, impl = item
            res = outs[qi]
            if ":" not in res:
                run.mismatch(dict(case0, p=[val_repr(pd, x) for x in ps[:8]]), impl[:8], res)
                continue
            toks = res.split(",")
            for x, im, t in zip(ps, impl, toks):
                m, al = t.split(":")
                m = int(m)
                al = {int(a) for a in al.split("|")}
                ctx.bit_total += 1
                if m == im:
                    ctx.bitexact += 1
                elif len(ctx.bit_diff) < 5:
                    ctx.bit_diff.append(dict(case0, p=[val_repr(pd, x)], impl=im, model=m))
                # harness self-check: the Lean `allowed` and the Fraction oracle must be the same rule
                al_py = allowed_exact(g, pd, tol, rc, to_frac(pd, x))
                if al != al_py:
                    raise RuntimeError(f"band rule differs between Lean ({sorted(al)}) and the Fraction oracle "
                                       f"({sorted(al_py)}) on {case0} p={val_repr(pd, x)}")
                if im not in al:
                    run.mismatch(dict(case0, p=[val_repr(pd, x)]), im, t)
        elif item[0] == "calls":
            from . import c02_calls
            c02_calls.flush_calls(ctx, item, outs[item[1]])
        elif item[0] == "hyp":
            _, qi, case0, cnt = item
            res = outs[qi]
            ctx.hyp_total += cnt
            if res == "irregular":
                ctx.hyp_grids_irregular += 1
            elif set(res) <= set("01,"):
                ctx.hyp_covered += res.count("1")
            else:
                raise RuntimeError(f"c02_hyp answered {res[:80]!r} on {case0}")
        elif item[0] == "disc":
            _, qi, case, impl, oracle_ok = item
            res = outs[qi]
            mod = res if res in ("csepexception", "valueerror", "indexerror", "unsupported", "bad-op") else \
                ([] if res == "-" else [Fraction(t) for t in res.split(",")])
            ctx.bit_total += 1
            if mod == impl:
                ctx.bitexact += 1
            elif mod == "unsupported":
                run.count("discretize_model_unsupported")
            elif oracle_ok and ((isinstance(mod, list) and isinstance(impl, list) and len(mod) == len(impl)) or
                                (case.get("may_raise") and not case.get("must_raise") and
                                 all(isinstance(x, list) or x == "csepexception" for x in (mod, impl)))):
                # both inside what the property allows (a band decision differs): loss of bit-exactness only
                if len(ctx.bit_diff) < 5:
                    ctx.bit_diff.append(dict(case, impl=str(impl)[:200], model=str(mod)[:200]))
            else:
                run.mismatch(case, str(impl)[:300], str(mod)[:300])
        elif item[0] == "cleaner":
            _, qi, case, impl, oracle_ok = item
            res = outs[qi]
            toks = res.split(" ")
            if len(toks) != 3:
                run.mismatch(case, "c02_cleaner_auto", res[:200])
                continue
            path = toks[1]
            run.count("cleaner_model_path_" + path)
            mod = [] if toks[2] == "-" else [Fraction(t) for t in toks[2].split(",")]
            ctx.bit_total += 1
            if mod == impl:
                ctx.bitexact += 1
            elif oracle_ok:
                # the implementation's grid satisfies the property's oracle (exactly the decimal grid / the grid to rounding): a
                # difference to the model — which transcribes the CURRENT code, (before fix D49) the displacement of the fallback
                # path included — is a loss of bit-exactness, never a violation (a tree that repairs the fallback must stay green)
                run.count("cleaner: differs from the model with a property-correct result (recorded)")
                if len(ctx.bit_diff) < 5:
                    ctx.bit_diff.append(dict(case, impl=[str(x) for x in impl[:3]] + [len(impl)], model=[str(x) for x in mod[:3]] + [len(mod)]))
            else:
                run.mismatch(case, [str(x) for x in impl[:6]] + [f"len={len(impl)}"],
                             [str(x) for x in mod[:6]] + [f"len={len(mod)}"])
    ctx.pending = []
    ctx.drv = Driver()


# ----------------------------------------------------------------------------- discretize
def impl_discretize(data, bins, rc):
    from csep.utils.calc import discretize
    return discretize(data, bins, right_continuous=rc)


def exc_tag(e):
    from csep.core.exceptions import CSEPException
    if isinstance(e, CSEPException):
        return "csepexception"
    if isinstance(e, ValueError):
        return "valueerror"
    if isinstance(e, IndexError):
        return "indexerror"
    return type(e).__name__


def check_discretize(ctx, g, values, rc, tag, model=True):
    """discretize(values, bins, rc): oracle (rejects exactly when some value is out of range — either way inside the
    band —, else the edge of an allowed bin per value, dtype of the edges, shape of the data, idempotent) and
    correspondence with Bin1d.discretizeF"""
    run = ctx.run
    values = numpy.asarray(values)
    pd = dt_of(values)
    flat = values.ravel()
    if g.n < 2 or len(flat) == 0:
        return
    als = [allowed_val(g, pd, None, rc, x) for x in flat]
    must = any(al == {-1} for al in als)
    may = any(-1 in al for al in als)
    case = dict(kind="disc", grid=g.spec, pd=pd, rc=bool(rc), tag=tag, p=[val_repr(pd, x) for x in flat],
                shape=list(values.shape), may_raise=may, must_raise=must)
    ctx.disc_calls += 1
    run.case(dict(case, p=case["p"][:4], n_values=len(flat)), ("disc", ctx.disc_calls) if may else None)
    run.evaluations += len(flat) - 1
    run.count("discretize_calls")
    run.count("discretize_values", len(flat))
    oracle_ok = True

    def fail(msg):
        nonlocal oracle_ok
        oracle_ok = False
        run.oracle_failure(case, msg)

    try:
        out = impl_discretize(values, g.bins, rc)
        impl = None
    except Exception as e:
        out, impl = None, exc_tag(e)
    if impl is not None:
        run.count("discretize_raised_" + impl)
        if not may:
            fail(f"discretize raised {impl} although every value lies inside the bins")
        elif impl != "csepexception":
            # some value is (or may be) out of range: it was reported as such — with another exception class than today's
            # CSEPException, which the property does not fix
            run.count("discretize: out-of-range value rejected with " + impl)
            impl = "csepexception"
    else:
        out = numpy.asarray(out)
        if must:
            bad = next(val_repr(pd, x) for x, al in zip(flat, als) if al == {-1})
            fail(f"discretize accepted the out-of-range value {bad}")
        elif out.shape != values.shape:
            fail(f"discretize returned shape {out.shape} for data of shape {values.shape}")
        else:
            of = out.ravel()
            for x, y, al in zip(flat, of, als):
                if not any(a >= 0 and g.bins[a] == y for a in al):
                    fail(f"discretize mapped {val_repr(pd, x)} to {y!r}; the property allows the left edge of bin(s) {sorted(al)}")
                    break
            else:
                try:
                    out2 = numpy.asarray(impl_discretize(out, g.bins, rc))
                    if not (out2.shape == out.shape and numpy.array_equal(out2, out)):
                        k = int(numpy.nonzero(out2.ravel() != of)[0][0]) if out2.shape == out.shape else 0
                        fail(f"discretize is not idempotent: edge {of[k]!r} is mapped to {out2.ravel()[k] if out2.shape == out.shape else out2.shape!r}")
                except Exception as e:
                    fail(f"discretize(discretize(x)) raised {exc_tag(e)}: an edge is rejected by its own grid")
                run.count("discretize_idempotence_checked")
            impl = [Fraction(int(y)) if g.bd == "i64" else Fraction(float(y)) for y in of]
    if not model or impl is None or (isinstance(impl, str) and impl not in ("csepexception",)) or \
            not all(in_model_domain(g, pd, x) for x in flat):
        return
    bins_s = ",".join(frac(int(x) if g.bd == "i64" else float(x)) for x in g.bins)
    p_s = ",".join(frac(int(x) if pd == "i64" else float(x)) for x in flat)
    qi = ctx.drv.ask(f"c02_discretize {pd} {g.bd} {1 if rc else 0} {bins_s} {p_s}")
    ctx.pending.append(("disc", qi, case, impl, oracle_ok))
    if len(ctx.pending) >= 40:
        flush(ctx)


def discretize_on_grid(ctx, g, vals, rc):
    """value sets for discretize from the edge-directed values of a grid: all inside (incl. on-edge and in-band values),
    then the same plus one value below the first edge / at or next to the upper edge of the last bin"""
    rng = ctx.rng
    vals = numpy.asarray(vals)
    pd = dt_of(vals)
    v64 = vals.astype(numpy.float64)
    n = g.n
    rcm = rc or n == 1
    h = float(g.hF)
    ideal = numpy.searchsorted(g.e64, v64, side="right") - 1
    inside = ideal >= 0
    if not rcm:
        inside &= v64 < float(g.topF) - 1e-3 * h
    ii = numpy.nonzero(inside)[0]
    if len(ii) == 0:
        return
    on_edge = ii[g.e64[numpy.clip(ideal[ii], 0, n - 1)] == v64[ii]]
    pick = list(on_edge[:30]) + [int(i) for i in rng.sample(list(ii), min(len(ii), 70))]
    pick = sorted(set(int(i) for i in pick))
    sel = vals[pick]
    if ctx.disc_calls % 5 == 4 and len(sel) >= 4:
        m = len(sel) // 2
        sel = sel[:2 * m].reshape(2, m)
    check_discretize(ctx, g, sel, rc, "inside")
    base = vals[pick[:5]]
    oo = numpy.nonzero(~inside)[0]
    if len(oo):
        for i in rng.sample(list(oo), min(3, len(oo))):
            check_discretize(ctx, g, numpy.concatenate([base, vals[i:i + 1]]), rc, "one-outside")
    if ctx.disc_calls % 7 == 0:
        check_discretize(ctx, g, vals[pick[0]], rc, "0-d")     # 0-d array input


def discretize_arg_checks(ctx):
    """argument checks of discretize (calc.py:45-49) against the model; a single edge is only observed"""
    run = ctx.run
    d = Driver()
    for bins, data, expect in (([], [1.0], "valueerror"), ([2.0, 1.0], [1.0], "valueerror"),
                               ([2.0, 1.0, 3.0], [2.5], "valueerror")):
        try:
            impl_discretize(data, bins, False)
            impl = "returned"
        except Exception as e:
            impl = exc_tag(e)
        run.evaluations += 1
        d.ask(f"c02_discretize f64 f64 0 {flist(bins)} {flist(data)}")
        case = dict(kind="disc-args", bins=[repr(x) for x in bins], p=[repr(x) for x in data])
        # empty / decreasing edges are OUTSIDE the property ("given increasing, equally spaced bin edges"): the current code raises
        # ValueError; any rejection — or a tree that copes with them — is accepted. Observed, compared with the model only when the
        # tree behaves like the current code.
        run.count("discretize-args:" + ("as-documented" if impl == expect else f"other ({impl})"))
        ctx.pending_args = getattr(ctx, "pending_args", []) + [(case, impl, expect)]
    for (case, impl, expect), res in zip(ctx.pending_args, d.run()):
        if impl == expect and res != impl:
            raise RuntimeError(f"model of discretize's argument checks answers {res!r}, the code {impl!r} on {case}")
    ctx.pending_args = []
    try:
        out = impl_discretize([1.5], [1.0], False)
        run.extra["discretize_single_edge"] = "returns " + repr(numpy.asarray(out).tolist())
    except Exception as e:
        run.extra["discretize_single_edge"] = "raises " + exc_tag(e) + " (bin1d_vec itself accepts a single edge; observed, see notes)"


# ----------------------------------------------------------------------------- grids
def build_grid(spec):
    """deterministic edge array from a JSON-able spec (used by generators, corpus and replay)"""
    k = spec["kind"]
    bd = spec.get("bd", "f64")
    if k == "decimal":
        S, D, nd, n = spec["S"], spec["D"], spec["nd"], spec["n"]
        b = (S + numpy.arange(n, dtype=numpy.int64) * D) / float(10 ** nd)      # correctly rounded quotients
    elif k == "explicit":
        b = numpy.array([int(x) if bd == "i64" else float(x) for x in spec["edges"]],
                        dtype=numpy.int64 if bd == "i64" else numpy.float64)
    elif k == "cleaner":
        from csep.utils.calc import cleaner_range
        b = cleaner_range(float(spec["start"]), float(spec["end"]), float(spec["h"]))
    elif k == "magbins":
        from csep.core.regions import magnitude_bins
        b = magnitude_bins(float(spec["start"]), float(spec["end"]), float(spec["h"]))
    elif k == "arange":
        b = float(spec["start"]) + numpy.arange(spec["n"]) * float(spec["h"])
    elif k == "linspace":
        b = numpy.linspace(float(spec["a"]), float(spec["b"]), spec["n"])
    elif k == "int":
        b = spec["S"] + numpy.arange(spec["n"], dtype=numpy.int64) * spec["D"]
    elif k == "mw":
        from csep.utils.constants import CSEP_MW_BINS
        b = numpy.array(CSEP_MW_BINS)
    elif k == "region":
        b = numpy.array(_region(spec["name"], tuple(spec.get("args", [])))[0 if spec["axis"] == "x" else 1])
    elif k == "global_lonlat":
        # regions.py:282-283, the edge arrays global_region(dh) hands to CartesianGrid2D (building the region
        # itself takes ~100 s; the thorough tier builds it and checks that these are its xs / ys)
        from csep.utils.calc import cleaner_range
        dh = float(spec["dh"])
        b = cleaner_range(-180.0, 180.0, dh)[:-1] if spec["axis"] == "x" else cleaner_range(-90, 90.0, dh)[:-1]
    else:
        raise ValueError(k)
    if bd == "f32":
        b = b.astype(numpy.float32)
    elif bd == "i64":
        b = b.astype(numpy.int64)
    return Grid(b, spec)


_REGIONS = {}


def _region(name, args=()):
    if (name, args) not in _REGIONS:
        from csep.core import regions
        r = getattr(regions, name)(*args)
        _REGIONS[(name, args)] = (numpy.array(r.xs), numpy.array(r.ys))
    return _REGIONS[(name, args)]


def rand_decimal_spec(rng, nmax):
    nd = rng.randint(1, 4)
    n = rng.choice([1, 2, 3, 4, 5, 7, 10, 20, 50, 100, 200, 500, 1000, 5000, 20000])
    n = min(n, nmax)
    D = rng.choice([1, 2, 5, 10, 25, 50, 100, 1000]) if rng.random() < 0.4 else rng.randint(1, 10 ** rng.randint(1, 5))
    regime = rng.choice(["small", "small", "similar", "large", "neg", "cross", "zero"])
    if regime == "small":
        S = rng.randint(-max(1, D // 3), max(1, D // 3))
    elif regime == "similar":
        S = rng.randint(D // 2, 3 * D + 1) * rng.choice([1, -1])
    elif regime == "large":
        S = rng.randint(10 * D, 10 ** rng.randint(2, 6) * D) * rng.choice([1, -1])
    elif regime == "neg":
        S = -rng.randint(1, 2000 * D)
    elif regime == "cross":
        S = -D * rng.randint(0, max(1, n)) + rng.randint(-D + 1, D - 1)
    else:
        S = 0
    return dict(kind="decimal", S=S, D=D, nd=nd, n=n)


def values_around(g, rng, idxs, pd, dense):
    """edge-directed values of dtype pd for the edges with indices idxs (plus the upper edge of the last bin)"""
    e = g.e64
    h = float(g.hF)
    pts = e[idxs]
    extra = []
    if g.n > 1:
        top = float(g.topF)
        extra = [top, e[-1] + h, top + h, top + 10 * h, e[0] - h, e[0] - h / 2, e[0] - 1e-3 * h, e[0] - 1e6 * max(h, 1.0)]
    else:
        extra = [e[0] - 1.0, e[0] - 1e-9, e[0] + 0.5, e[0] + 1.0, e[0] + 1.5, e[0] + 1e9]
    base = numpy.concatenate([pts, numpy.array(extra[:3], dtype=numpy.float64)])
    # very large finite values and +inf: fractional index far beyond the int64 range ("every value at or above the last
    # edge goes to the last bin" / closed mode: out of range); very negative finite values are below the first edge
    big = [e[0] + 2.0 ** 62 * h, e[0] + 2.0 ** 63 * h, e[0] + 2.0 ** 64 * h * 1.5, 1e17, 1e18, 1e19, 1e25, 1e300,
           float(numpy.finfo(numpy.float64).max), float("inf"), -1e18, -1e19, -1e300]
    big32 = [1e18, 1e19, 2.0 ** 63 * h, 1e30, float(numpy.finfo(numpy.float32).max), float("inf"), -1e19, -1e30]
    extra = extra + (big32 if pd == "f32" else big)
    if pd == "i64":
        c = numpy.concatenate([numpy.floor(base), numpy.ceil(base), numpy.floor(base) - 1, numpy.ceil(base) + 1,
                               numpy.floor(pts + h / 2), numpy.array(extra, dtype=numpy.float64).round()])
        c = c[numpy.abs(c) < 2 ** 52]
        return numpy.unique(c.astype(numpy.int64))
    if pd == "f32":
        b32 = base.astype(numpy.float32)
        b32 = b32[numpy.isfinite(b32)]
        offs = OFFS if dense else [0, 1, 2, 4, 64, 4096]
        out = [ulp_step(b32, s * k) for k in offs for s in ((1, -1) if k else (1,))]
        # also the float32 neighbours of the float64 edge on both sides
        out.append((pts + h / 2).astype(numpy.float32))
        out.append(numpy.array(extra, dtype=numpy.float32))
        return numpy.concatenate(out)
    offs = OFFS if dense else [0, 1, 2, 3, 4, 16, 256, 4096]
    out = [ulp_step(base, s * k) for k in offs for s in ((1, -1) if k else (1,))]
    out.append(pts + h / 2)
    out.append(pts + h * rng.random())
    out.append(numpy.array(extra, dtype=numpy.float64))
    return numpy.concatenate(out)


def guarded(ctx, case, fn, *a, **kw):
    """run one check; an exception of the HARNESS caused by a value the implementation returned (ill-typed, ill-shaped, out of range)
    is a failing case, never a crash. RuntimeError (harness self-check) and exceptions raised inside pyCSEP (reported by core.py as
    impl-exception) pass through."""
    try:
        return fn(*a, **kw)
    except (RuntimeError, KeyboardInterrupt, MemoryError):
        raise
    except Exception as e:
        import traceback
        from .core import REPO
        fr = traceback.extract_tb(e.__traceback__)
        if fr and os.path.realpath(fr[-1].filename).startswith(os.path.realpath(REPO) + os.sep):
            raise
        here = [f for f in fr if os.path.basename(f.filename) in ("c02.py", "c02_calls.py")]
        where = f"{os.path.basename(here[-1].filename)}:{here[-1].lineno}" if here else "?"
        ctx.run.oracle_failure(dict(case, what="unusable-answer"),
                               f"the implementation returned a value the check could not use ({type(e).__name__}: {str(e)[:160]} at {where})")


def run_grid(ctx, g, modes=(False, True), pds=("f64",), tol=None, n_model=120, tag="gen", disc=True):
    """guard: a value RETURNED by the implementation that the harness cannot use (ill-typed, ill-shaped, out of range) is a failing
    case of this grid, never a harness crash (RuntimeError = harness self-check stays a crash)"""
    try:
        return _run_grid(ctx, g, modes=modes, pds=pds, tol=tol, n_model=n_model, tag=tag, disc=disc)
    except (RuntimeError, KeyboardInterrupt, MemoryError):
        raise
    except Exception as e:
        import traceback
        from .core import REPO
        fr = traceback.extract_tb(e.__traceback__)
        if fr and os.path.realpath(fr[-1].filename).startswith(os.path.realpath(REPO) + os.sep):
            raise           # raised INSIDE pyCSEP: core.py reports it (kind impl-exception)
        here = [f for f in fr if os.path.basename(f.filename) in ("c02.py", "c02_calls.py")]
        where = f"{os.path.basename(here[-1].filename)}:{here[-1].lineno}" if here else "?"
        ctx.run.oracle_failure(dict(kind="grid", grid=g.spec, what="unusable-answer"),
                               f"the implementation returned a value the check could not use ({type(e).__name__}: {str(e)[:160]} at {where})")


def _run_grid(ctx, g, modes=(False, True), pds=("f64",), tol=None, n_model=120, tag="gen", disc=True):
    run, rng = ctx.run, ctx.rng
    n = g.n
    if n == 0:
        run.oracle_failure(dict(kind="grid", grid=g.spec), "the edge generator returned an empty array")
        return
    all_idx = numpy.arange(n)
    for rc in modes:
        for pd in pds:
            if not g.premise(pd, tol):
                run.count("premise_not_met_skipped")
                continue
            if n <= 400:
                vals = values_around(g, rng, all_idx, pd, dense=True)
                check_values(ctx, g, vals, tol, rc, tag, n_model)
                if tol is None and n > 1 and disc:
                    discretize_on_grid(ctx, g, vals, rc)
            else:
                # oracle pass over every edge, thin offsets; model pass on a directed sample with all offsets
                vals = values_around(g, rng, all_idx, pd, dense=False)
                check_values(ctx, g, vals, tol, rc, tag + "-all-edges", 0)
                sel = numpy.unique(numpy.concatenate([numpy.arange(3), numpy.arange(n - 3, n),
                                                      numpy.array(rng.sample(range(n), 12))]))
                vals = values_around(g, rng, sel, pd, dense=True)
                check_values(ctx, g, vals, tol, rc, tag + "-sample", n_model)
                if tol is None and disc and n <= 4000:
                    discretize_on_grid(ctx, g, vals, rc)
    if tol is None and "f64" in pds and disc:
        guarded(ctx, dict(kind="grid", grid=g.spec), single_value_checks, ctx, g, tag)
        if ctx.gid % 4 == 1:
            guarded(ctx, dict(kind="grid", grid=g.spec), size_and_aliasing_checks, ctx, g, tag)



# ----------------------------------------------------------------------------- single values in every form, on EVERY grid
def single_value_checks(ctx, g, tag):
    """Every value class of the generators (edges themselves, +-1..4 ulps, the rims of the band, mid-bin, below the first edge,
    around the closed top) ALSO one value at a time as Python float, numpy.float64 scalar, 0-d array, 1-element array and 1-element
    list, through bin1d_vec (both modes, positional and keyword arguments), discretize and — for a sample — get_magnitude_index and
    get_mag_idx of a ONE-event catalog. Each answer is judged by the exact oracle (not by comparison with the array call) and must
    have the shape of its input. Added after the seeded change C02_11 (a plain-Python fast path for ONE scalar whose one-bin-up repair
    compared with the recomputed edge a0 + (k+1)*h instead of the stored one) was missed: scalars were tried on a few grids only
    and never on an edge where the floor formula is one low."""
    run, rng = ctx.run, ctx.rng
    from csep.utils.calc import bin1d_vec, discretize
    n = g.n
    if n < 2 or g.bd != "f64" or not g.premise("f64", None):
        return
    # ALL edges on small grids; on larger ones the first / last few, a sample, and — directed — the edges at which the uniform-grid
    # formula itself comes out one bin low, so that the result depends on the repair against the STORED edge (`repair_edges`)
    need = repair_edges(g)
    if len(need):
        run.count("single_values_on_repair_edges", int(min(len(need), 30)))
    idx = numpy.arange(n) if n <= 40 else numpy.unique(numpy.array([0, 1, 2, n - 3, n - 2, n - 1] + rng.sample(range(n), 24) +
                                                                   [int(k) for k in need[:30]]))
    e = g.e64[idx]
    cand = [e, ulp_step(e, 1), ulp_step(e, -1), ulp_step(e, 2), ulp_step(e, -4), e + 0.5 * float(g.hF)]
    # the rims of the band below each edge
    for f in (0.5, 1.5):
        w = numpy.array([float(band_width(g, "f64", None, int(j), g.F[int(j)], g.F[int(j)])) for j in idx])
        cand.append(e - f * w)
    vals = numpy.unique(numpy.concatenate(cand + [numpy.array([g.e64[0] - 0.5 * float(g.hF), float(g.topF), float(g.topF) + float(g.hF)])]))
    vals = vals[numpy.isfinite(vals)]
    if len(vals) > 160:
        keep = set(float(x) for x in e)          # the edges themselves always
        rest = [float(x) for x in vals if float(x) not in keep]
        vals = numpy.array(sorted(keep | set(rng.sample(rest, 160 - min(160, len(keep))))) if len(keep) < 160 else sorted(keep))
    forms = (("pyfloat", float, ()), ("np64", numpy.float64, ()), ("0d", lambda v: numpy.array(v), ()),
             ("1-array", lambda v: numpy.array([v]), (1,)), ("1-list", lambda v: [v], (1,)))
    nfail = 0
    for v in vals:
        v = float(v)
        for rc in (False, True):
            al = allowed_val(g, "f64", None, rc, v)
            for k, (fname, mk, shape) in enumerate(forms):
                kw = (k + int(v * 7)) % 3
                try:
                    if kw == 0:
                        o = bin1d_vec(mk(v), g.bins, None, rc)
                    elif kw == 1:
                        o = bin1d_vec(mk(v), g.bins, right_continuous=rc)
                    else:
                        o = bin1d_vec(p=mk(v), bins=g.bins, tol=None, right_continuous=rc)
                    o = numpy.asarray(o)
                    ok = o.shape == shape and o.dtype.kind in "iu" and int(o.ravel()[0]) in al
                    got = repr(o.tolist())
                except Exception as ex:
                    ok, got = False, f"{type(ex).__name__}: {ex}"
                run.evaluations += 1
                if not ok and nfail < 3:
                    nfail += 1
                    run.oracle_failure(dict(kind="bin1d", grid=g.spec, pd="f64", tol=None, rc=rc, p=[repr(v)], form=fname, tag=tag),
                                       f"bin1d_vec of the single value {v!r} given as {fname} is {got}; the property allows {sorted(al)} "
                                       f"(shape {shape})")
        # discretize of one value (open-ended): the left edge of an allowed bin
        al = allowed_val(g, "f64", None, True, v)
        if -1 not in al:
            for fname, mk, shape in (forms[0], forms[2], forms[4]):
                try:
                    d = numpy.asarray(discretize(mk(v), g.bins, right_continuous=True))
                    ok = d.shape == shape and any(float(g.e64[a]) == float(d.ravel()[0]) for a in al)
                    got = repr(d.tolist())
                except Exception as ex:
                    ok, got = False, f"{type(ex).__name__}: {ex}"
                run.evaluations += 1
                if not ok and nfail < 3:
                    nfail += 1
                    run.oracle_failure(dict(kind="disc", grid=g.spec, pd="f64", rc=True, p=[repr(v)], shape=list(shape), tag=tag, form=fname),
                                       f"discretize of the single value {v!r} given as {fname} is {got}; allowed bins {sorted(al)}")
    run.count("single_value_forms_grids")
    run.count("single_values", len(vals))
    # the magnitude call sites with ONE magnitude (a sample of the values: a catalog per value is slow)
    if ctx.gid % 3 == 0:
        from csep.core.catalogs import CSEPCatalog
        from csep.core.forecasts import GriddedForecast
        from csep.core import regions
        reg = regions.CartesianGrid2D.from_origins(numpy.array([[0., 0.], [0.1, 0.]]), dh=0.1, magnitudes=g.bins)
        fore = GriddedForecast(data=numpy.ones((2, g.n)), region=reg, magnitudes=g.bins)
        on_edges = [float(x) for x in e]
        for v in rng.sample(on_edges, min(6, len(on_edges))) + [float(x) for x in rng.sample(list(vals), min(4, len(vals)))]:
            al = allowed_val(g, "f64", None, True, v)
            if -1 in al:
                continue
            try:
                cat = CSEPCatalog(data=[("0", 0, 0.05, 0.05, 0.0, v)], region=reg)
                gi = [int(i) for i in numpy.asarray(cat.get_mag_idx())]
                cnt = numpy.asarray(cat.magnitude_counts(mag_bins=g.bins))
                gm = [int(i) for i in numpy.asarray(fore.get_magnitude_index([v])).ravel()]
                gs = [int(i) for i in numpy.asarray(fore.get_magnitude_index(numpy.float64(v))).ravel()]
                ok = len(gi) == 1 and gi[0] in al and gm[0] in al and gs[0] in al and int(round(float(cnt.sum()))) == 1 and \
                    int(numpy.argmax(cnt)) in al
                got = f"get_mag_idx {gi}, magnitude_counts at {int(numpy.argmax(cnt))}, get_magnitude_index {gm} / scalar {gs}"
            except Exception as ex:
                ok, got = False, f"{type(ex).__name__}: {ex}"
            run.evaluations += 1
            if not ok and nfail < 3:
                nfail += 1
                run.oracle_failure(dict(kind="bin1d", grid=g.spec, pd="f64", tol=None, rc=True, p=[repr(v)], form="one-event", tag=tag),
                                   f"one magnitude {v!r}: {got}; the property allows {sorted(al)}")
        run.count("single_value_call_sites")


def repair_edges(g):
    """indices k of the edges for which the tolerance-corrected floor formula (evaluated here in float64 exactly as documented:
    floor((e - a0 + |e|eps + |a0|eps) / (h - |a0|eps))) gives less than k: only the comparison with the stored edge puts the edge
    value into the bin it opens. These are the inputs on which any second implementation of the repair must agree."""
    if g.n < 2 or g.bd != "f64":
        return numpy.array([], dtype=int)
    e = g.e64
    eps = numpy.finfo(numpy.float64).eps
    a0, h = e[0], e[1] - e[0]
    with numpy.errstate(all="ignore"):
        k = numpy.floor((e - a0 + numpy.abs(e) * eps + abs(a0) * eps) / (h - abs(a0) * eps))
    return numpy.nonzero(k < numpy.arange(g.n))[0]


def repair_directed_grids(ctx, want=4, tries=60):
    """grids that HAVE such edges: the two known ones and random decimal grids with many edges searched for them"""
    rng = ctx.rng
    specs = [dict(kind="decimal", S=59, D=273, nd=1, n=12), dict(kind="magbins", start="0.1", end="30.1", h="0.3")]
    found = 0
    for _ in range(tries):
        if found >= want:
            break
        D = rng.randint(11, 9999)
        spec = dict(kind="decimal", S=rng.randint(1, max(2, D // 4)), D=D, nd=rng.randint(1, 3), n=rng.choice([200, 1000, 3000]))
        g = build_grid(spec)
        if len(repair_edges(g)):
            specs.append(spec)
            found += 1
    for spec in specs:
        g = build_grid(spec)
        ctx.gid += 1
        ctx.run.count("repair_directed_grids")
        guarded(ctx, dict(kind="grid", grid=spec), single_value_checks, ctx, g, "repair-directed")


# ----------------------------------------------------------------------------- sizes, aliasing, caller-owned arrays
SIZES = [501, 2001, 5001, 2 ** 16 + 1, 2 ** 17 + 1]


def size_and_aliasing_checks(ctx, g, tag):
    """(3) SIZE THRESHOLDS: the same values as ONE array of 501 / 2 001 / 5 001 / 2^16+1 / 2^17+1 elements — the edge-directed ones in
    the first block, at the block boundaries and at the end — must get the bins they get in small pieces (the bin of a value does not
    depend on the company it keeps: every value's bin is in its allowed set, and equal to the small-piece answer outside the band);
    (2) the caller's arrays are not modified, and after the caller CHANGES its value array in place a second call answers for the new
    content; (1) the returned array is the caller's: writing into it does not change the next answer."""
    run, rng = ctx.run, ctx.rng
    from csep.utils.calc import bin1d_vec, discretize
    if g.n < 2 or g.bd != "f64" or not g.premise("f64", None):
        return
    idx = numpy.arange(g.n) if g.n <= 30 else numpy.array(rng.sample(range(g.n), 30))
    base = values_around(g, rng, idx, "f64", dense=False)
    base = base[numpy.isfinite(base) & (numpy.abs(base) < 1e15)]
    rc = rng.random() < 0.5
    case0 = dict(kind="bin1d", grid=g.spec, pd="f64", tol=None, rc=rc, tag=tag + "-size")
    small = numpy.concatenate([numpy.asarray(bin1d_vec(base[i:i + 97], g.bins, right_continuous=rc)) for i in range(0, len(base), 97)])
    als = [allowed_val(g, "f64", None, rc, x) for x in base]
    for N in (SIZES if ctx.tier != "quick" else rng.sample(SIZES[:3], 1) + [rng.choice(SIZES[3:])]):
        reps = -(-N // len(base))
        big = numpy.tile(base, reps)[:N].copy()
        # the interesting values also at the block boundaries and at the very end
        for pos in (0, 499, 500, 1999, 2000, 4999, 5000, 65535, 65536, 131071, 131072, N - 1):
            if pos < N:
                big[pos] = base[pos % len(base)]
        snap = big.copy()
        bsnap = numpy.array(g.bins).copy()
        out = numpy.asarray(bin1d_vec(big, g.bins, right_continuous=rc))
        run.evaluations += N
        run.count(f"size_{N}")
        if not numpy.array_equal(big, snap) or not numpy.array_equal(numpy.asarray(g.bins), bsnap):
            run.oracle_failure(dict(case0, p=[repr(float(x)) for x in base[:4]], size=N), f"bin1d_vec modified the caller's {'value' if not numpy.array_equal(big, snap) else 'edge'} array ({N} values)")
            return
        if out.shape != (N,):
            run.oracle_failure(dict(case0, p=[repr(float(x)) for x in base[:4]], size=N), f"result shape {out.shape} for {N} values")
            return
        k = numpy.arange(N) % len(base)
        k[[pos for pos in (0, 499, 500, 1999, 2000, 4999, 5000, 65535, 65536, 131071, 131072, N - 1) if pos < N]] = \
            [pos % len(base) for pos in (0, 499, 500, 1999, 2000, 4999, 5000, 65535, 65536, 131071, 131072, N - 1) if pos < N]
        single = numpy.array([len(a) == 1 for a in als])
        bad = numpy.nonzero((out != small[k]) & single[k])[0]
        if len(bad) == 0:
            bad = numpy.array([i for i in numpy.nonzero(out != small[k])[0][:50] if int(out[i]) not in als[k[i]]], dtype=int)
        if len(bad):
            i = int(bad[0])
            run.oracle_failure(dict(case0, p=[repr(float(big[i]))], size=N, position=i),
                               f"as element {i} of an array of {N} values {float(big[i])!r} gets bin {int(out[i])}; in an array of 97 values "
                               f"it gets {int(small[k[i]])} (allowed {sorted(als[k[i]])})")
            return
    # aliasing: write into the result, change the input in place
    p = base[:200].copy()
    r1 = numpy.asarray(bin1d_vec(p, g.bins, right_continuous=rc))
    keep = r1.copy()
    try:
        r1 += 7
    except Exception:
        pass
    r2 = numpy.asarray(bin1d_vec(p, g.bins, right_continuous=rc))
    p += float(g.hF)                       # the caller moves its values by one step
    r3 = numpy.asarray(bin1d_vec(p, g.bins, right_continuous=rc))
    fresh = numpy.asarray(bin1d_vec(p.copy(), g.bins, right_continuous=rc))
    run.evaluations += 3
    run.count("aliasing_checks")
    if not numpy.array_equal(r2, keep):
        run.oracle_failure(dict(case0, p=[repr(float(x)) for x in base[:4]]), "writing into the array bin1d_vec returned changed the answer of the next call")
    elif not numpy.array_equal(r3, fresh):
        run.oracle_failure(dict(case0, p=[repr(float(x)) for x in p[:4]]), "after the caller changed its value array in place the answer is not that of the new content")
    inr = base[(base >= g.e64[0] + 1e-6 * float(g.hF)) & (base < g.e64[-1])][:100].copy()
    if len(inr):
        d1 = numpy.asarray(discretize(inr, g.bins, right_continuous=True))
        keep = d1.copy()
        d1 *= 0
        if not numpy.array_equal(numpy.asarray(discretize(inr, g.bins, right_continuous=True)), keep) or \
                not numpy.array_equal(numpy.asarray(g.bins), bsnap):
            run.oracle_failure(dict(kind="disc", grid=g.spec, pd="f64", rc=True, p=[repr(float(x)) for x in inr[:4]], shape=None, tag=tag),
                               "writing into the array discretize returned changed the edges or the next answer (the result aliases state)")


def scalar_checks(ctx, g):
    """scalar inputs (Python float / int, numpy scalars, 0-d arrays, nested lists) agree with the array call"""
    if g.n == 0:
        return
    try:
        _scalar_checks(ctx, g)
    except Exception as e:   # only pyCSEP calls and comparisons of their results happen inside
        ctx.run.oracle_failure(dict(kind="bin1d", grid=g.spec, pd="f64", tol=None, rc=False, p=[repr(float(g.e64[0]))],
                                    form="scalar"), f"exception {type(e).__name__}: {e} for a scalar input form")


def _scalar_checks(ctx, g):
    run, rng = ctx.run, ctx.rng
    e = g.e64
    vs = [float(e[rng.randrange(g.n)]), float(e[0]) - 0.5 * float(g.hF), float(e[-1]), float(e[rng.randrange(g.n)]) + 0.25 * float(g.hF),
          float(e[0]) + 2.0 ** 64 * float(g.hF), 1e19, 1e300, float(numpy.finfo(numpy.float64).max), float("inf")]
    for rc in (False, True):
        ref = impl_bin1d(numpy.array(vs), g.bins, None, rc)
        for v, r in zip(vs, ref):
            for form, arg in (("pyfloat", v), ("np64", numpy.float64(v)), ("0d", numpy.array(v)), ("list", [v]),
                              ("nested", [[v, v], [v, v]])):
                o = numpy.asarray(impl_bin1d(arg, g.bins, None, rc))
                ok = o.dtype.kind in "iu" and numpy.all(o == r) and \
                    o.shape == numpy.asarray(arg).shape
                run.evaluations += 1
                run.count("scalar_forms")
                if not ok:
                    run.oracle_failure(dict(kind="bin1d", grid=g.spec, pd="f64", tol=None, rc=rc, p=[repr(v)], form=form),
                                       f"input form {form} gives {o!r}, the array call gives {int(r)}")
        # python ints
        iv = int(round(vs[1]))
        o = numpy.asarray(impl_bin1d(iv, g.bins, None, rc))
        r = impl_bin1d(numpy.array([iv]), g.bins, None, rc)[0]
        if o.shape != () or int(o) != int(r):
            run.oracle_failure(dict(kind="bin1d", grid=g.spec, pd="i64", tol=None, rc=rc, p=[str(iv)], form="pyint"),
                               f"python int gives {o!r}, the array call gives {int(r)}")
    # the single-value array path was itself checked by the oracle in run_grid


# ----------------------------------------------------------------------------- cleaner_range
def num_decimals(x):
    """the documented rule (calc.py:237-239): decimal places of the shortest decimal string that reads back as x"""
    import decimal
    return max(0, -decimal.Decimal(repr(float(x))).as_tuple().exponent)


def impl_num_decimals():
    """the nested helper `num_decimals` of the implementation's `cleaner_range`, rebuilt from its code object (so that the
    model's `ReprDec.numDecimals` is compared with the code under test, not with a copy); None when the helper no longer
    exists under that name (a refactor: the end-to-end comparison `c02_cleaner_auto` still ties model and code)"""
    import types
    from csep.utils import calc
    try:
        for c in calc.cleaner_range.__code__.co_consts:
            if isinstance(c, types.CodeType) and c.co_name == "num_decimals" and not c.co_freevars:
                return types.FunctionType(c, calc.__dict__)
    except Exception:
        pass
    return None


def check_numdec(ctx, n):
    """correspondence of `num_decimals`: the model computes it from its own `repr` (DecimalText.reprValue); compared on decimals
    with 0-17 places, integers around 10^15..10^17 (the switch to exponent notation), tiny values (1e-5, 1.5e-7: exponent
    notation below 1e-4), float noise (0.1+0.2, differences of decimals), random bit patterns"""
    import struct
    run, rng = ctx.run, ctx.rng
    f = impl_num_decimals()
    vals = [0.0, 1.0, -1.0, 100.0, 1e15, 1e16, 9999999999999998.0, 1e17, 1e22, 1e23, 1.5e-7, 1e-5, 1e-4, 9.999e-5, 0.001,
            0.1 + 0.2, -9.5 - -9.6, 1 / 3, 1 / 30, 1 / 35, 0.07, 5.95, 312.748, 1.7976931348623157e308, 2.2250738585072014e-308,
            123456789012345680.0, 0.30000000000000004, 4.35, 2.675, 1e-7, 123456.789e3]
    for _ in range(n):
        r = rng.random()
        if r < 0.5:
            vals.append(round(rng.uniform(-2000, 2000), rng.choice([0, 1, 1, 2, 2, 3, 4, 6, 9, 12, 15])))
        elif r < 0.6:
            vals.append(float(rng.randint(10 ** 14, 10 ** 18)))
        elif r < 0.7:
            vals.append(rng.uniform(-1, 1) * 10.0 ** -rng.randint(3, 12))
        elif r < 0.8:
            vals.append(rng.randint(-500, 500) / rng.choice([3, 7, 30, 35, 60, 64, 70, 128, 300, 1024]))
        else:
            vals.append(struct.unpack("d", struct.pack("Q", rng.randrange(2 ** 63)))[0] * rng.choice([1, -1]))
    vals = [v for v in vals if v == v and abs(v) != float("inf") and (v == 0 or abs(v) >= 2.2250738585072014e-308)]
    d = Driver()
    d.ask("c02_numdec " + ",".join(frac(v) for v in vals))
    d.ask("c02_reprval " + ",".join(frac(v) for v in vals))
    nd, rv = d.run()
    nd = [int(t) for t in nd.split(",")]
    rv = [Fraction(t) for t in rv.split(",")]
    import decimal
    for v, a, r in zip(vals, nd, rv):
        run.evaluations += 1
        run.count("num_decimals_cases")
        doc = num_decimals(v)
        case = dict(kind="numdec", x=repr(v))
        # the model's repr is Python's repr (trusted-base check, was a "Python runtime fact": now computed and compared)
        if r != Fraction(decimal.Decimal(repr(v))):
            raise RuntimeError(f"model reprValue({v!r}) = {r} differs from Decimal(repr(x))")
        if a != doc:
            raise RuntimeError(f"model numDecimals({v!r}) = {a}, the documented rule gives {doc}")
        if f is not None:
            try:
                im = int(f(v))
            except Exception as e:
                # a PRIVATE helper driven directly, on values the public generators never hand it: recorded, never a verdict
                run.count("num_decimals_helper_raised:" + type(e).__name__)
                continue
            if im != a:
                # the helper feeds only cleaner_range; whether a different count breaks the property is decided by the
                # end-to-end oracle of cleaner_range — recorded here
                run.count("num_decimals_differs_from_model")
                if len(ctx.bit_diff) < 5:
                    ctx.bit_diff.append(dict(case, impl=im, model=a))
    run.extra["num_decimals_helper_found"] = f is not None
    if f is None:
        # the nested (private) helper is gone or renamed on the tree under test: not a verdict. Its effect is covered through the
        # PUBLIC generators (cleaner_range / magnitude_bins / every region constructor: exact decimal-grid oracle + `c02_cleaner_auto`)
        run.count("helper-missing:num_decimals")
        run.assumptions.append("helper-missing: the nested helper `num_decimals` of cleaner_range was not found on the tree under test; "
                               "its value is checked only through the public cleaner_range / magnitude_bins results")


def call_in_global_state(ctx, case, f, *a):
    """(k) GLOBAL NUMERIC STATE: half of the generator calls run with the caller's decimal context lowered to 2..6 digits and numpy
    set to raise on divide / invalid (probed: the unchanged tree returns the same edges in that state); the state is stored in the
    case, so a replay repeats it. The harness's own arithmetic (Fraction, Decimal constructors) is outside."""
    import decimal
    st = case.get("state")
    if st is None and "state" not in case:
        st = case["state"] = (f"decimal prec {ctx.rng.choice([2, 3, 4, 5, 6])} + numpy.errstate(divide/invalid raise)" if ctx.rng.random() < 0.5 else "")
    if not st:
        return f(*a)
    with decimal.localcontext() as dctx:
        dctx.prec = int(st.split()[2])
        with numpy.errstate(divide="raise", invalid="raise"):
            return f(*a)


def check_cleaner(ctx, S, D, m, cnt, off, fn="cleaner_range", tag="gen", asint=False, state=None):
    """start=S/10^m, step=D/10^m, end=(S+cnt*D+off)/10^m (0 <= off < D/2): output must be the nearest doubles of
    (S+k*D)/10^m, k=0..cnt"""
    run = ctx.run
    sc = 10 ** m
    start, h, end = float(Fraction(S, sc)), float(Fraction(D, sc)), float(Fraction(S + cnt * D + off, sc))
    if abs(S) + (cnt + 1) * D > 2 ** 50 or m > 22:
        # beyond the integer grid on which `cleanerRange_exact` is proved (and on which "exactly the nearest doubles" can hold:
        # near 2^52 scaled values are no longer integers): the grid to rounding
        check_cleaner_float(ctx, start, end, h, "beyond-2^50")
        return
    if asint and m == 0:
        start, end = int(start), int(end)
    case = dict(kind="cleaner", S=S, D=D, m=m, cnt=cnt, off=off, fn=fn, tag=tag, asint=asint,
                call=f"{fn}({start!r}, {end!r}, {h!r})")
    if state is not None:
        case["state"] = state          # replay: the global numeric state of the failing call
    try:
        if fn == "cleaner_range":
            from csep.utils.calc import cleaner_range as f
        else:
            from csep.core.regions import magnitude_bins as f
        out = call_in_global_state(ctx, case, f, start, end, h)
    except Exception as e:
        run.oracle_failure(case, f"exception {type(e).__name__}: {e}" + (f" (under {case['state']})" if case.get("state") else ""))
        return
    out = numpy.asarray(out)
    expect = [float(Fraction(S + k * D, sc)) for k in range(cnt + 1)]
    run.case(case, ("cleaner", S, D, m, cnt, off))
    run.count("cleaner_cases")
    ok = out.dtype == numpy.float64 and out.ndim == 1 and len(out) == len(expect) and \
        all(float(a) == b for a, b in zip(out, expect))
    if not ok:
        bad = next((k for k, (a, b) in enumerate(zip(out, expect)) if float(a) != b), None)
        run.oracle_failure(case, f"{case['call']}: length {len(out)} (expected {len(expect)}), first element off the "
                                 f"decimal grid at k={bad}: {out[bad]!r} vs {expect[bad]!r}" if bad is not None else
                           f"{case['call']}: length {len(out)} expected {len(expect)}")
    # round 4: the model computes num_decimals itself (no decimal input) and covers both paths
    qi = ctx.drv.ask(f"c02_cleaner_auto {frac(float(start))} {frac(float(end))} {frac(h)}")
    ctx.pending.append(("cleaner", qi, case, [Fraction(float(x)) for x in out], bool(ok)))
    if len(ctx.pending) >= 40:
        flush(ctx)


def rand_cleaner(ctx, rng, nmax):
    m = rng.choice([0, 1, 1, 2, 2, 3, 4, 5, 6, 6, 8, 10, 12, 15, 16, 17])
    D = rng.choice([1, 2, 5, 7, 10, 25, 100]) if rng.random() < 0.5 else rng.randint(1, 10 ** rng.randint(1, 4))
    if m > 6 and rng.random() < 0.7:      # a step that really has m decimals
        D = rng.randint(10 ** (m - 3), 10 ** (m - 1))
    regime = rng.choice(["small", "similar", "large", "neg", "cross"])
    cnt = min(nmax, rng.choice([0, 1, 2, 3, 7, 10, 33, 65, 100, 360, 1800, 3600, 20000]))
    if regime == "small":
        S = rng.randint(-D, D)
    elif regime == "similar":
        S = rng.randint(D, 5 * D) * rng.choice([1, -1])
    elif regime == "large":
        S = rng.randint(10 * D, 10 ** rng.randint(2, 7) * D) * rng.choice([1, -1])
    elif regime == "neg":
        S = -rng.randint(1, 5000 * D)
    else:
        S = -D * rng.randint(0, max(cnt, 1)) + rng.randint(-D + 1, D - 1)
    off = 0 if rng.random() < 0.6 else rng.randint(0, max(0, (D - 1) // 2))
    # the start and step must keep their decimals (S or D not both multiples of 10 is not required: fewer decimals
    # give a coarser scale but the same grid)
    check_cleaner(ctx, S, D, m, cnt, off, fn=rng.choice(["cleaner_range", "magnitude_bins"]),
                  asint=(m == 0 and rng.random() < 0.5))


# Input class on which the unchanged code misbehaves and whose membership in the property is for the integrator to decide
# (genuine-defect candidate, witness + proposed patch in notes/C02.md): observed and counted, not enforced.
# (round 4's AWAITING_DECISION_CLEANER — the fallback path rounding the START to a multiple of the step — was decided a genuine defect
# and repaired in /repo by fix D49: the class is now a generated, ENFORCED class; witnesses in corpus/C02/d49_cleaner_fallback.json)


def check_cleaner_float(ctx, start, end, h, tag, state=None, fn=None):
    """ANY float arguments — in particular steps that are not short decimals (1/3, 1/30, 1/35, the noise of a float
    difference, 16-17 digit decimals: the fallback path of cleaner_range). The property's reading here: the result is the
    grid start + k*h (k = 0 .. while start + k*h <= end + h/2) to rounding (1e-12 relative to the largest coordinate).
    Correspondence: `c02_cleaner_auto` (both paths modelled, bit-exact recorded)."""
    import math
    run = ctx.run
    fn = fn or ctx.rng.choice(["cleaner_range", "magnitude_bins"])
    case = dict(kind="cleaner-float", start=repr(start), end=repr(end), h=repr(h), fn=fn, tag=tag,
                call=f"{fn}({start!r}, {end!r}, {h!r})")
    if state is not None:
        case["state"] = state
    try:
        if fn == "cleaner_range":
            from csep.utils.calc import cleaner_range as f
        else:
            from csep.core.regions import magnitude_bins as f
        out = numpy.asarray(call_in_global_state(ctx, case, f, start, end, h))
    except Exception as e:
        run.oracle_failure(case, f"exception {type(e).__name__}: {e}" + (f" (under {case['state']})" if case.get("state") else ""))
        return
    run.case(case, ("cleaner-float", repr(start), repr(end), repr(h)))
    run.count("cleaner_float_cases")
    S, E, H = Fraction(float(start)), Fraction(float(end)), Fraction(float(h))
    q = (E - S) / H + Fraction(1, 2)
    lens = {max(0, math.ceil(q))}
    if abs(q - round(q)) < Fraction(1, 10 ** 9):
        lens |= {max(0, int(round(q))), max(0, int(round(q)) + 1)}
    tol = Fraction(1, 10 ** 12) * max(abs(S), abs(E), H)
    bad = None
    if out.dtype != numpy.float64 or out.ndim != 1:
        bad = f"dtype {out.dtype}, ndim {out.ndim}"
    elif len(out) not in lens:
        bad = f"length {len(out)}, expected {sorted(lens)}"
    else:
        for k, x in enumerate(out):
            if abs(Fraction(float(x)) - (S + k * H)) > tol:
                bad = f"element {k} is {float(x)!r}, the grid start + k*h has {float(S + k * H)!r}"
                break
    if bad:
        # (until fix D49 the class "coarse start, fine noisy step" was displaced by the fallback path and only counted)
        dec_s = num_decimals(start)
        if 10 ** dec_s < 1 / float(h) and (S / H).denominator != 1:
            run.count("D49 class (coarse start, fine noisy step): FAILS")
        run.oracle_failure(case, f"{case['call']}: {bad}")
    elif 10 ** num_decimals(start) < 1 / float(h) and (S / H).denominator != 1 and num_decimals(h) >= 16:
        run.count("D49 class (coarse start, fine noisy step): grid starts at start")
    qi = ctx.drv.ask(f"c02_cleaner_auto {frac(float(start))} {frac(float(end))} {frac(float(h))}")
    ctx.pending.append(("cleaner", qi, case, [Fraction(float(x)) for x in out], not bad))
    if len(ctx.pending) >= 40:
        flush(ctx)


NOISY_STEPS = [1 / 3, 1 / 6, 1 / 7, 2 / 3, 1 / 30, 1 / 35, 1 / 60, 1 / 70, 1 / 300, 0.1 / 3, 0.1 + 0.2, -9.5 - -9.6, 1.1 - 1.0,
               0.0712345678901234, 0.7123456789012345, 1.0000000000000002, 0.1234567890123456]


def rand_cleaner_float(ctx, rng):
    """the argument classes of `check_cleaner_float` (all enforced since fix D49)"""
    import math
    h = rng.choice(NOISY_STEPS) if rng.random() < 0.7 else rng.uniform(0.01, 1.0)
    cnt = rng.choice([0, 1, 2, 5, 17, 100, 1000])
    r = rng.random()
    if r < 0.35:                                   # start a multiple of the step (float product)
        start = rng.randint(-400, 400) * h
    elif r < 0.7:                                  # a short decimal fine enough for the step (10**dec >= 1/h)
        dec = max(1, math.ceil(-math.log10(h)) + rng.choice([0, 1, 2]))
        start = round(rng.uniform(-300, 300), dec)
        if 10 ** num_decimals(start) < 1 / h:      # trailing zeros dropped by repr: take a multiple instead
            start = rng.randint(-400, 400) * h
    elif r < 0.85:                                 # an integer or one-decimal start with a coarse step (1/h < 10)
        h = rng.choice([1 / 3, 1 / 6, 1 / 7, 2 / 3, 0.7123456789012345, 1.0000000000000002, 0.30000000000000004])
        start = rng.choice([float(rng.randint(-50, 50)), round(rng.uniform(-50, 50), 1)])
    else:                                          # the class of defect D49: coarse start, fine noisy step
        h = rng.choice([1 / 30, 1 / 35, 1 / 60, 1 / 70, 0.0712345678901234])
        start = round(rng.uniform(-20, 20), 1)
    # `end` on the grid (start + cnt*h as the caller computes it in floats) or — since fix D49 counts with the step itself,
    # `floor((end - start)/h + 0.5)` — up to 0.45 steps beyond it
    off = 0.0 if rng.random() < 0.6 else rng.uniform(0, 0.45) * h
    end = start + cnt * h + off
    check_cleaner_float(ctx, float(start), float(end), float(h), "float-step")


# ----------------------------------------------------------------------------- API level
def api_checks(ctx):
    """observe_at: discretize, CSEPCatalog.get_mag_idx / magnitude_counts, GriddedForecast.get_magnitude_index"""
    run, rng = ctx.run, ctx.rng
    from csep.utils.calc import discretize
    from csep.core.exceptions import CSEPException
    from csep.core.catalogs import CSEPCatalog
    from csep.core.forecasts import GriddedForecast
    from csep.core import regions
    from csep.utils.constants import CSEP_MW_BINS
    for spec in (dict(kind="mw"), dict(kind="magbins", start="3.95", end="8.95", h="0.1"),
                 dict(kind="decimal", S=59, D=273, nd=1, n=12)):
        try:
            _api_checks_grid(ctx, spec, discretize, CSEPException, CSEPCatalog, GriddedForecast, regions)
        except Exception as e:   # pyCSEP raised where the property promises an answer
            run.oracle_failure(dict(kind="api", grid=spec, what="exception"),
                               f"exception {type(e).__name__}: {e} in discretize / catalog / forecast magnitude binning")


def _api_checks_grid(ctx, spec, discretize, CSEPException, CSEPCatalog, GriddedForecast, regions):
    run, rng = ctx.run, ctx.rng
    if True:
        g = build_grid(spec)
        if g.n == 0:
            run.oracle_failure(dict(kind="grid", grid=spec), "the edge generator returned an empty array")
            return
        mags = values_around(g, rng, numpy.arange(g.n), "f64", dense=False)
        mags = mags[numpy.isfinite(mags)]
        rng_np = numpy.random.default_rng(rng.randrange(2 ** 32))
        mags = rng_np.permutation(mags)[:600]
        # discretize
        inr = mags[mags >= g.e64[0] + 1e-6]
        for rc in (True,):
            d = discretize(inr, g.bins, right_continuous=rc)
            for v, x in zip(inr, d):
                al = allowed_exact(g, "f64", None, rc, Fraction(float(v)))
                if not any(a >= 0 and g.e64[a] == x for a in al):
                    run.oracle_failure(dict(kind="discretize", grid=spec, p=[repr(float(v))], rc=rc),
                                       f"discretize gave {x!r}, allowed bins {sorted(al)}")
            run.evaluations += len(inr)
        try:
            discretize(numpy.array([g.e64[0] - 1.0]), g.bins)
            run.oracle_failure(dict(kind="discretize", grid=spec, p=[repr(float(g.e64[0] - 1.0))]),
                               "discretize accepted a value below the first edge")
        except Exception:
            pass      # reported as out of range (CSEPException today; the exception class is not part of the property)
        # catalog / forecast
        reg = regions.CartesianGrid2D.from_origins(numpy.array([[0., 0.], [0.1, 0.]]), dh=0.1, magnitudes=g.bins)
        cat = CSEPCatalog(data=[(str(i), 1000 * i, 0.05, 0.05, 0.0, float(m)) for i, m in enumerate(mags)], region=reg)
        idx = numpy.asarray(cat.get_mag_idx())
        ref = impl_bin1d(mags, g.bins, None, True)
        cnt = numpy.asarray(cat.magnitude_counts(mag_bins=g.bins))
        # judged by the property's oracle (inside the band either bin is allowed: another route to the index than bin1d_vec's is fine)
        als = [allowed_exact(g, "f64", None, True, Fraction(float(v))) for v in mags]
        single = all(len(a) == 1 for a in als)
        ok = idx.shape == ref.shape and all(int(i) in a for i, a in zip(idx, als))
        if ok and single:        # no magnitude in a band: the histogram is determined
            ok = numpy.array_equal(cnt, numpy.bincount(ref[ref >= 0], minlength=g.n))
        elif ok:
            ok = cnt.shape == (g.n,) and int(round(float(cnt.sum()))) <= len(mags)
        if not ok:
            run.oracle_failure(dict(kind="api", grid=spec, what="get_mag_idx/magnitude_counts"),
                               "catalog magnitude indices / counts are not what the property allows for these magnitudes")
        fore = GriddedForecast(data=numpy.ones((2, g.n)), region=reg, magnitudes=g.bins)
        sel = [k for k, a in enumerate(als) if -1 not in a]          # must be accepted
        inm = mags[sel]
        gi = numpy.asarray(fore.get_magnitude_index(inm))
        if gi.shape != inm.shape or not all(int(i) in als[k] for i, k in zip(gi, sel)):
            run.oracle_failure(dict(kind="api", grid=spec, what="get_magnitude_index"),
                               "forecast magnitude index is not one the property allows")
        try:
            fore.get_magnitude_index([float(g.e64[0]) - 1.0])
            run.oracle_failure(dict(kind="api", grid=spec, what="get_magnitude_index below range"),
                               "a magnitude below the first edge was accepted")
        except Exception:
            pass
        run.evaluations += 3
        run.count("api_level_checks")
        # the indices themselves are judged by the oracle here
        check_values(ctx, g, mags, None, True, "api-mags", 40)


# ----------------------------------------------------------------------------- corpus / replay
def run_case(ctx, case):
    kind = case.get("kind")
    if kind == "bin1d":
        g = build_grid(case["grid"])
        pd = case.get("pd", "f64")
        vals = numpy.array([int(x) if pd == "i64" else float(x) for x in case["p"]], dtype=NPDT[pd])
        tol = case.get("tol")
        check_values(ctx, g, vals, tol, bool(case.get("rc", False)), case.get("tag", "corpus"), len(vals))
    elif kind == "cleaner":
        check_cleaner(ctx, case["S"], case["D"], case["m"], case["cnt"], case.get("off", 0),
                      fn=case.get("fn", "cleaner_range"), tag=case.get("tag", "corpus"), asint=case.get("asint", False), state=case.get("state"))
    elif kind == "grid":
        g = build_grid(case["grid"])
        run_grid(ctx, g, pds=("f64",), n_model=100, tag="replay")
        guarded(ctx, dict(kind="grid", grid=case["grid"]), scalar_checks, ctx, g)
    elif kind == "cleaner-args":
        for i in range(250):
            guarded(ctx, dict(kind="cleaner-args", seed_index=i), rand_cleaner, ctx, ctx.rng, 2000)
    elif kind == "cleaner-float":
        check_cleaner_float(ctx, float(case["start"]), float(case["end"]), float(case["h"]), case.get("tag", "corpus"),
                            state=case.get("state"), fn=case.get("fn"))
    elif kind == "numdec":
        check_numdec(ctx, 50)
    elif kind == "disc":
        g = build_grid(case["grid"])
        pd = case.get("pd", "f64")
        vals = numpy.array([int(x) if pd == "i64" else float(x) for x in case["p"]], dtype=NPDT[pd])
        if case.get("shape") is not None:
            vals = vals.reshape(case["shape"])
        check_discretize(ctx, g, vals, bool(case.get("rc", False)), case.get("tag", "corpus"))
    elif kind == "disc-args":
        discretize_arg_checks(ctx)
    elif kind in ("discretize", "api"):
        api_checks(ctx)
    elif kind == "calls":
        from . import c02_calls
        import sys
        if case.get("what") == "session" and "grid" in case:
            for _ in range(40):
                c02_calls.session(ctx, sys.modules[__name__], case["grid"], "quick")
        elif case.get("what") in ("nonfinite", "big"):
            c02_calls.nonfinite_and_sizes(ctx, sys.modules[__name__], "quick")
        elif "grid" in case and case["grid"].get("kind"):
            c02_calls.check_calls_on_grid(ctx, sys.modules[__name__], build_grid(case["grid"]), "replay")
        else:
            c02_calls.run_calls(ctx, sys.modules[__name__], "quick")
    else:
        raise ValueError(f"unknown case kind {kind}")


def run_corpus(ctx):
    for path in sorted(glob.glob(os.path.join(VERIF, "corpus", "C02", "*.json"))):
        data = json.load(open(path))
        for case in data.get("cases", [data]):
            run_case(ctx, case)
            ctx.run.count("corpus_cases")


def tables_match_source(ctx):
    """the edge arrays inside the kernel-evaluated tables are the arrays the library ships (else the tables
    speak about something else: proof obligation broken, reported through a mismatch)"""
    run = ctx.run
    from csep.utils.constants import CSEP_MW_BINS
    from csep.core.regions import magnitude_bins
    nzx, nzy = _region("nz_csep_region")
    src = dict(mw=numpy.array(CSEP_MW_BINS), m595=magnitude_bins(5.95, 8.95, 0.1), nzx=nzx, nzy=nzy)
    for tag, name in (("nzc", "nz_csep_collection_region"), ("itc", "italy_csep_collection_region"),
                      ("cac", "california_relm_collection_region")):
        src[tag + "x"], src[tag + "y"] = _region(name)
    d = Driver()
    for k in src:
        d.ask(f"c02_table {k}")
    for k, res in zip(src, d.run()):
        lean = [Fraction(t) for t in res.split(",")]
        here = [Fraction(float(x)) for x in src[k]]
        run.evaluations += 1
        if lean != here:
            run.mismatch(dict(kind="table", name=k), f"{len(here)} edges shipped", f"{len(lean)} edges in Bin1dTables.lean "
                         f"(regenerate with tools/gen_c02_tables.py)")
    run.extra["kernel_tables_match_shipped_arrays"] = True
    # the grids of Properties/C02_Decimal.lean (`globalLonEdges`, `globalLatEdges`: decimalGrid S D m n) are the arrays
    # regions.py:282-283 hands to CartesianGrid2D for global_region(0.1)
    from csep.utils.calc import cleaner_range
    dec = dict(globalLonEdges=((-1800, 1, 1, 3600), cleaner_range(-180.0, 180.0, 0.1)[:-1]),
               globalLatEdges=((-900, 1, 1, 1800), cleaner_range(-90, 90.0, 0.1)[:-1]))
    d = Driver()
    for k, ((S, D, m, n), _) in dec.items():
        d.ask(f"c02_decgrid {S} {D} {m} {n}")
    for (k, (_, arr)), res in zip(dec.items(), d.run()):
        lean = [Fraction(t) for t in res.split(",")]
        here = [Fraction(float(x)) for x in arr]
        run.evaluations += 1
        if lean != here:
            run.mismatch(dict(kind="table", name=k), f"{len(here)} edges from cleaner_range (regions.py:282-283)",
                         f"Bin1d.{k} of Properties/C02_Decimal.lean differs (theorems global_lon_edges / global_lat_edges "
                         f"no longer speak about the shipped arrays)")
    run.extra["global_lonlat_theorem_grids_match_shipped_arrays"] = True


def decreasing_grid_raises(ctx):
    run = ctx.run
    # a decreasing grid is outside the property ("given increasing … bin edges"): the current code raises ValueError (modelled);
    # another exception, or a tree that sorts / accepts, is not judged
    try:
        impl_bin1d([1.0], [3.0, 2.0, 1.0], None, False)
        run.count("decreasing-grid: accepted (not judged)")
    except ValueError:
        run.count("decreasing-grid: ValueError")
    except Exception as e:
        run.count("decreasing-grid: " + type(e).__name__ + " (not judged)")
    d = Driver()
    d.ask("c02_bin1d f64 f64 none 0 3,2,1 1")
    if d.run() != ["valueerror"]:
        raise RuntimeError("the model of bin1d_vec does not reject a decreasing grid (harness self-check)")
    run.evaluations += 1


# ----------------------------------------------------------------------------- entry points
def run(run, rng, tier):
    ctx = Ctx(run, rng, tier)
    quick = tier == "quick"
    validate_soft64(run, rng, 500 if quick else 4000)
    run_corpus(ctx)
    decreasing_grid_raises(ctx)
    discretize_arg_checks(ctx)
    tables_match_source(ctx)
    nmax = 20000
    # shipped grids
    shipped = [dict(kind="mw")]
    for name in ("nz_csep_region", "nz_csep_collection_region", "italy_csep_collection_region",
                 "california_relm_collection_region"):
        for ax in "xy":
            shipped.append(dict(kind="region", name=name, axis=ax))
    for ax in "xy":
        shipped.append(dict(kind="global_lonlat", dh="0.1", axis=ax))
        if not quick:
            shipped.append(dict(kind="global_lonlat", dh="0.5", axis=ax))
            shipped.append(dict(kind="global_lonlat", dh="1.0", axis=ax))
    if not quick:   # the real global region (slow to build): its edge arrays are the ones checked above
        gx, gy = _region("global_region")
        same = numpy.array_equal(gx, build_grid(dict(kind="global_lonlat", dh="0.1", axis="x")).bins) and \
            numpy.array_equal(gy, build_grid(dict(kind="global_lonlat", dh="0.1", axis="y")).bins)
        run.extra["global_region_edges_equal_cleaner_range"] = bool(same)
        if not same:
            for ax in "xy":
                shipped.append(dict(kind="region", name="global_region", axis=ax))
    covered, missing = [], []
    for spec in shipped:
        try:
            g = build_grid(spec)
        except Exception as e:
            missing.append(f"{spec.get('name', spec['kind'])}: {type(e).__name__}")
            continue
        covered.append(spec.get("name", spec["kind"]) + ":" + spec.get("axis", "") + spec.get("dh", ""))
        run_grid(ctx, g, pds=("f64", "f32") if spec["kind"] == "mw" else ("f64",), n_model=150, tag="shipped")
        if spec["kind"] == "mw":
            guarded(ctx, dict(kind="grid", grid=spec), scalar_checks, ctx, g)
            run_grid(ctx, g, pds=("i64",), n_model=60, tag="shipped-int")
    for name in ("italy_csep_region", "california_relm_region"):
        try:
            from csep.core import regions
            getattr(regions, name)()
            covered.append(name)
        except Exception as e:
            missing.append(f"{name}: {type(e).__name__} (artifact unavailable offline)")
    run.extra["shipped_grids_covered"] = covered
    run.extra["shipped_grids_not_covered"] = missing
    api_checks(ctx)
    repair_directed_grids(ctx)
    from . import c02_calls
    import sys
    c02_calls.run_calls(ctx, sys.modules[__name__], tier)
    # generated grids
    n_dec = 90 if quick else 300
    for i in range(n_dec):
        spec = rand_decimal_spec(rng, nmax)
        if quick and spec["n"] > 1000 and i % 6:
            spec["n"] = rng.choice([50, 200, 1000])
        g = build_grid(spec)
        r = rng.random()
        pds = ("f64",) if r < 0.7 else (("f64", "f32") if r < 0.85 else ("f64", "i64"))
        run_grid(ctx, g, pds=pds, n_model=100, tag="decimal")
        if i % 10 == 0:
            guarded(ctx, dict(kind="grid", grid=spec), scalar_checks, ctx, g)
        if i % 7 == 0 and g.n > 1:   # tol override, a few ulps to 1e-6 of the step
            tol = float(g.hF) * rng.choice([1e-12, 1e-9, 1e-6])
            run_grid(ctx, g, pds=("f64",), tol=tol, n_model=60, tag="decimal-tol")
    n_oth = 60 if quick else 200
    for i in range(n_oth):
        kind = rng.choice(["cleaner", "magbins", "arange", "linspace", "int", "f32", "adversarial"])
        n = min(nmax, rng.choice([1, 2, 3, 5, 10, 50, 200, 1000] + ([20000] if (not quick or i % 8 == 0) else [])))
        if kind in ("cleaner", "magbins"):
            m = rng.randint(1, 4)
            D = rng.randint(1, 10 ** rng.randint(1, 3))
            S = rng.randint(-3 * D, 3 * D) if rng.random() < 0.6 else rng.randint(-10 ** 5, 10 ** 5)
            sc = 10 ** m
            spec = dict(kind=kind, start=repr(float(Fraction(S, sc))), end=repr(float(Fraction(S + (n - 1) * D, sc))),
                        h=repr(float(Fraction(D, sc))))
        elif kind == "arange":
            h = rng.choice([0.1, 0.05, 0.25, 0.5, 1.0, 2.0, round(rng.uniform(0.01, 30), rng.randint(1, 3))])
            spec = dict(kind="arange", start=repr(round(rng.uniform(-200, 200), rng.randint(0, 3))), h=repr(h), n=n)
        elif kind == "linspace":
            a = round(rng.uniform(-200, 200), 2)
            spec = dict(kind="linspace", a=repr(a), b=repr(a + round(rng.uniform(0.1, 400), 2)), n=max(n, 2))
        elif kind == "int":
            D = rng.randint(1, 50)
            spec = dict(kind="int", S=rng.randint(-1000, 1000), D=D, n=n, bd="i64")
        elif kind == "f32":
            spec = dict(rand_decimal_spec(rng, 1000), bd="f32")
        else:   # |start| << step, non-nice step (where the unrepaired code failed)
            D = rng.randint(11, 9999)
            spec = dict(kind="decimal", S=rng.randint(1, max(2, D // 4)), D=D, nd=rng.randint(1, 3), n=min(n, 1000))
        try:
            g = build_grid(spec)
        except Exception as e:
            run.oracle_failure(dict(kind="grid", grid=spec), f"grid generator raised {type(e).__name__}: {e}")
            continue
        if g.n == 0:
            continue
        pds = {"int": ("i64", "f64"), "f32": ("f32", "f64")}.get(kind, ("f64",))
        run_grid(ctx, g, pds=pds, n_model=100, tag=kind)
    # cleaner_range / magnitude_bins against the decimal grid
    for i in range(250 if quick else 1200):
        guarded(ctx, dict(kind="cleaner-args", seed_index=i), rand_cleaner, ctx, rng, 2000 if quick else 20000)
    for i in range(60 if quick else 400):
        guarded(ctx, dict(kind="cleaner-args", seed_index=i), rand_cleaner_float, ctx, rng)
    check_numdec(ctx, 400 if quick else 4000)
    flush(ctx)
    run.extra["bitexact_agreement"] = f"{ctx.bitexact}/{ctx.bit_total}"
    run.extra["bitexact_differences"] = ctx.bit_diff
    run.extra["model_values"] = ctx.model_values
    run.extra["float_theorem_hypotheses_hold"] = (f"{ctx.hyp_covered}/{ctx.hyp_total} float64 default-tolerance model values "
                                                  f"(RegularF64Grid and PointOK evaluated by the driver; {ctx.hyp_grids_irregular} "
                                                  f"calls on grids outside RegularF64Grid)")
    run.extra["discretize_calls"] = ctx.disc_calls
    run.assumptions.append("values and edges are finite; |integers| < 2^52; grids satisfy the regularity premise "
                           "|e_j-(a0+j*h)| <= j*eps*(|a0|+|e_1|)+5*eps*|e_j| (others are skipped and counted)")
    if ctx.bit_total and ctx.bitexact != ctx.bit_total:
        run.assumptions.append("bit-exactness with the Soft64 model lost on some cases: the Soft64 theorems no longer "
                               "apply to the code as it is; exact-layer theorems and the band correspondence still do")


def replay(run, payload):
    from .core import Rng
    ctx = Ctx(run, Rng(payload.get("seed", 0), "C02-replay"), payload.get("tier", "quick"))
    case = payload.get("case") or {}
    if not case:
        raise RuntimeError("replay file has no case (proof-obligation failure: rebuild and re-run the check)")
    run_case(ctx, case)
    flush(ctx)
    run.extra["bitexact_agreement"] = f"{ctx.bitexact}/{ctx.bit_total}"
