"""C05 — Poisson L / CL / S / M statistics: correspondence of csep.core.poisson_evaluations with Model/PoissonLL.lean
(Float instance) + direct oracle (sum of scipy.stats.poisson.logpmf over ALL bins, math.fsum)."""
import contextlib
import io
import math
import random
import struct

import numpy

from .core import Driver

LEVEL_TEXT = ("Proof over the reals, every shape, no size bound (induction over lists): the code-shaped statistic (sum over target "
              "bins of w*log(rate) minus log w!, minus the expected count) equals the sum over ALL bins of log Poisson-pmf(count | "
              "rate), unscaled for L / CL and with the marginal rates scaled by N_obs/N_fore for S / M; it is -inf exactly when an "
              "event lies in a zero-rate bin; marginals sum to the total. The WHOLE of _poisson_likelihood_test is one Lean function "
              "(log-rates prepared once from the observed catalog, simulation loop on C06's sampler with the count assertion, "
              "statistic of every simulated array, quantile) under the four public wrappers on C03's gridding model: every simulated "
              "entry equals the same sum of log pmf of ITS simulated catalog (the hypothesis 'N_obs events' is discharged by count "
              "conservation), is never -inf, totality for valid inputs; histories on shared objects (evaluations never change a "
              "later statistic; region binding D40). Round 4: num_simulations as an argument of its own (the first num_simulations "
              "rows of random_numbers are read, surplus rows never, too few raise; the distribution has exactly that many entries) "
              "and the DEFAULT random path (random_numbers=None: the global generator's uniform stream cut into consecutive, "
              "disjoint blocks, N_obs numbers per simulation for CL / S / M, the Poisson draws for L) are inside the model; every "
              "entry on that path is the sum of log pmf of the catalog placed from its own block; totality on that path; the "
              "per-event view: for every rectangular rate table and every catalog inside region and magnitude range the L / CL "
              "statistic is sum over EVENTS of log(rate of the event's own bin) - sum log w! - N_fore, with those rates being "
              "what forecast.target_event_rates / get_rates returns (no bin mis-indexed, every event counted once). Tied to "
              "the code by numerical correspondence of the Float instance with the four public tests and the array-level driver "
              "(observed entry, every simulated entry, simulated catalogs exactly, quantile) on injected, surplus-row, seeded and "
              "stream inputs, by a direct scipy logpmf oracle, and - for poisson_joint_log_likelihood_ndarray and the statistic "
              "slice - by definitions regenerated from the Python source and proved equal to the model (source tie).")
LEVEL_NOTE = ("Rounding: the ARITHMETIC of the float statistic is modelled in the Soft64 layer (one rounded product per target bin, "
              "two float sums in any bracketing, two rounded subtractions) and bounded for every input: |float - exact combination of "
              "the float terms| <= ((1+2^-53)^(D+1) - 1) * (sum|l*w| + sum|g| + |expected|) (statF_err; <= 2(D+1)*2^-53 of the "
              "cancelling magnitude), bit-exact with numpy's result on every CL case of every run; what stays trusted is the accuracy of "
              "the library values numpy.log / scipy loggamma themselves (hypothesis of statF_vs_real). The Float instance is compared "
              "to 1e-9 relative plus 1e-13 of the cancelling magnitude - far above the proved bound. A catalog that carries a region "
              "DIFFERENT from the forecast's (other cells / cell order used by the S-test, a differing space-magnitude region kept by L / "
              "CL) is a caller configuration outside the property (the documented workflow binds the forecast's region): those calls "
              "are generated but not judged (AWAITING_DECISION names, kept as documentation). "
              "Placement of simulated events is C06's Soft64 model composed into the chain (simulated catalogs compared exactly, "
              "against the arrays the code built). Inputs of the model, not derived: the Poisson draws of the L-test, the uniform "
              "stream of numpy's legacy generator (re-created by the harness from the seed; if the code consumes the stream in "
              "another order its entries are still judged by the oracle, the stream model is then not applied), the (cell, "
              "magnitude-bin) lookup of every event (C01-C03). poisson_spatial_likelihood (anchor, not in the statement) is "
              "compared with the faithful Float model everywhere, nan for nan outside its domain (a repaired 0 is accepted too).")
DESIGN_REF = "DESIGN.md §4 C05"
TECHNIQUE = "Lean 4 theorems over Mathlib reals (generic RealOps model) + differential testing of the Float instance + scipy oracle"

THEOREMS = ["PoissonLL.stat_eq_sum_logpmf", "PoissonLL.jointLL_eq_sum_logpmf", "PoissonLL.stat_norm_eq_sum_logpmf",
            "PoissonLL.stat_negInf_iff", "PoissonLL.marginals_sum_to_total", "PoissonLL.stat_L_eq",
            "PoissonLL.stat_CL_eq", "PoissonLL.stat_S_eq", "PoissonLL.stat_M_eq", "PoissonLL.sim_entry_is_stat",
            "PoissonLL.scaled_rates_sum_to_nobs", "PoissonLL.logPmf_eq_cell", "PoissonLL.stat_nonpos",
            "PoissonLL.stat_norm_scale_invariant", "PoissonLL.poissonPmf_le_one", "PoissonLL.poissonCell_eq_logpmf",
            "PoissonLL.spatialMap_sum_eq_stat_S",
            # round 4 (Properties/C05_Chain.lean): the whole test as one function, catalog -> counts -> simulation -> statistic
            "PoissonTest.run_spec", "PoissonTest.run_total", "PoissonTest.sim_entries_eq_sum_logpmf",
            "PoissonTest.sim_entries_eq_sum_logpmf_norm", "PoissonTest.sim_entries_finite",
            "PoissonTest.observed_arrays_of_one_matrix", "PoissonTest.public_observed_eq_testStat",
            "PoissonTest.stat_unnorm_scaling", "PoissonTest.stat_S_depends_only_on_spatial_sums",
            "PoissonTest.stat_M_depends_only_on_magnitude_sums", "PoissonTest.poissonLogLikelihood_eq_logPmf",
            "PoissonTest.stat_eq_sum_poissonLogLikelihood",
            # round 5 (Properties/C05_Session.lean): histories on shared objects
            "PoissonSession.eval_preserves_observables", "PoissonSession.evaluations_irrelevant",
            "PoissonSession.scale_absolute", "PoissonSession.data_after_scale", "PoissonSession.new_forecast_rebinds",
            "PoissonSession.test_binds_region", "PoissonSession.runOps_test_head",
            # round 4 of the owners (Properties/C05_Stream.lean): num_simulations, default random path
            "PoissonTest.takeRows_eq_some", "PoissonTest.runN_reads_first_rows", "PoissonTest.runN_too_few_rows",
            "PoissonTest.runN_spec", "PoissonTest.chunks_spec", "PoissonTest.chunks_isSome_iff", "PoissonTest.chunk_getElem",
            "PoissonTest.runStream_eq_run", "PoissonTest.stream_entries_eq_sum_logpmf",
            "PoissonTest.stream_entries_eq_sum_logpmf_norm", "PoissonTest.runStream_total",
            # Properties/C05_Events.lean: the per-event view (target_event_rates)
            "PoissonTest.stat_unnorm_closed", "PoissonTest.stat_L_eq_sum_over_events",
            "PoissonTest.targetEventRates_table", "PoissonTest.stat_L_eq_sum_log_target_event_rates",
            "PoissonTest.public_S_M_ignore_other_coordinate", "PoissonTest.public_M_never_rejects",
            # array-valued scale factors in the session model (Model/PoissonSession.lean `Factor`)
            "PoissonSession.scaleBy_absolute", "PoissonSession.data_after_scaleBy",
            # round 6 (Properties/C05_Rounding.lean): explicit rounding-error bound of the float statistic
            "PoissonRound.statF_err_terms", "PoissonRound.statF_err", "PoissonRound.statF_err_explicit",
            "PoissonRound.statF_vs_real"]
TRUSTED = ["Lean 4.33 kernel", "axioms: propext, Classical.choice, Quot.sound at most",
           "Real.log / Real.exp / Nat.factorial stand for numpy.log, scipy.special.loggamma(n+1) (RealOps); rounding of "
           "these functions and of float sums is not modelled, the Float instance is compared numerically on every run",
           "Soft64 = IEEE binary64 for cumsum / division of the sampling weights (C06; simulated catalogs compared exactly)",
           "numpy.random legacy generator: the Poisson draws and the uniform stream are inputs of the model (re-created "
           "from the seed by the harness); that k calls of rand(n) yield consecutive blocks of one stream is checked on every run",
           "the (cell, magnitude bin) lookup of an event by CSEPCatalog / CartesianGrid2D (C01-C03; events generated outside "
           "the binning routine's round-off band)",
           "harness/c05.py, c05_session.py generators, oracle and comparison; driver parsing (Proto.lean, Drive/C05.lean)"]
RULE = ("random gridded forecasts of shape (1..40)x(1..8), rates 10^U(-12,3) (classes: wide, tiny, huge, near-1) with 0-20% exact "
        "zeros, sometimes a whole zero row/column (zero marginal); catalogs of 0..300 events at interior points of cells and "
        "magnitude bins, clustered on few bins (several per bin) or spread, N_obs classes 0, 1, ~N_fore, up to 50*N_fore, 300; "
        "with or without events in zero-rate bins; CL/S/M with injected random_numbers, L with injected numbers "
        "(one simulation, width = the seeded Poisson draw) and with a seed (stream replicated); 37% of forecasts hold data/c and are "
        "scaled by c (GriddedDataSet.scale), 15% of catalogs put last-bin events far above the last magnitude edge; 45% of the rate arrays "
        "are not C-contiguous (Fortran order, transposed view, strided slices of larger arrays, negative strides); in 60% of the "
        "catalogs a share of the events lies 1e-8..1e-4 below an upper magnitude / cell edge or exactly on a lower magnitude edge "
        "(counted in the half-open bin that contains them); round 4: catalogs bound to no region (M-test) or to a region "
        "without magnitudes (S, M), exact duplicate events, integer-valued rates in an int64 array, verbose runs of 100-130 "
        "simulations, a second scale() of the same forecast object followed by more tests; every injected call is also run "
        "through the chained Lean model (events -> gridding -> counts; float weights -> placement -> simulated catalogs -> "
        "statistics -> quantile) and the simulated catalogs are compared exactly; round 4 (owners): one injected call in eight "
        "passes 1-2 rows more than num_simulations (the first num_simulations rows count), the array-level driver 0-2; every "
        "seed-only call (CL / S / M, and L with its Poisson draws) is replayed by the stream model from the re-created uniform "
        "stream; the per-cell map is compared with the Float model in every case (nan for nan); forecast.target_event_rates is "
        "called on every case: bit-identical to the forecast's entries at the events' bins in catalog order (oracle and "
        "model), and the per-event form of the L statistic is checked against the definition; 40% of the float64 forecasts are "
        "scaled by a factor of any kind scale() documents (python / numpy scalars, 0-d, (1,1), per-cell (n,1), per-magnitude "
        "(m,) and (1,m), per-bin (n,m) arrays, scale_to_test_date) after 0-2 earlier factors, 25% are re-scaled by another such "
        "factor between the tests; the rates under test are stored x last factor computed by the harness (forecast.data must "
        "agree), totals and per-event rates are read before and after every re-scaling; round 5 (owners): magnitude grids with "
        "starts and steps of every decimal length (0.125, 0.05, 0.025, 2^-k, 1/3, 0.15, negative starts), forecast.magnitudes / "
        "region.magnitudes equal to the supplied edges bit for bit; observed catalogs in every region state (none, same object, "
        "equal copy, magnitude-less with the same cells / the cells in another order / more cells, a space-magnitude region with "
        "other edges): the forecast's region decides, the region bound by L / CL must have the forecast's cells in its order and "
        "its edges; calls on which unchanged pyCSEP departs are named in AWAITING_DECISION; round 6 (owners): every public "
        "argument passed positionally / by keyword / all by keyword (conv), seed next to injected numbers, verbose with few "
        "simulations, the package-level alias csep.poisson_evaluations, UCERF3Catalog (big-endian structured events) as the observed "
        "catalog in 12% of the cases, zero rates written -0.0, subnormal rates in empty bins, more than 2^16 target bins in one fixed "
        "case, the caller's arrays (constructor array, event array, injected numbers) byte-identical after every call, numpy told to "
        "raise on divide / invalid for clean inputs (all rates positive and normal, non-empty catalog); round 7: observed catalogs of a "
        "user subclass overriding the BASIC DATA ACCESSORS get_longitudes / get_latitudes / get_magnitudes consistently (14%; overrides of "
        "derived methods such as spatial_counts() are outside the property), copy / deepcopy / pickle images of forecast and catalog "
        "before use, a rejected call (random_numbers one column too wide) on the same objects first, a small decimal context around "
        "the calls. A case is non-trivial when "
        "some bin holds >= 2 events and N_obs != N_fore; distinct by (rate bits, counts).")

MODES = ("L", "CL", "S", "M")
# input classes on which the unchanged code misbehaves and whose treatment is undecided: none at present (the region
# fallback of the L / CL tests was repaired in /repo, D40, and is part of the generators now)
# round 5 (owners), two genuine-defect candidates on unchanged /repo (witnesses + proposed patch in notes/C05.md); the call classes
# are generated but those calls are not executed, everything else on the same catalogs is:
#   s-test-on-catalog-own-spatial-region          spatial_test grids the catalog on the catalog's OWN region without checking that it is
#                                                 the forecast's: other cell order -> silently permuted counts, other cell set -> IndexError
#   catalog-own-space-magnitude-region-differs    likelihood_test / conditional_likelihood_test trust a space-magnitude region the catalog
#                                                 already carries even if its cells / magnitude edges are not the forecast's
AWAITING_DECISION = ["s-test-on-catalog-own-spatial-region", "catalog-own-space-magnitude-region-differs"]
# budget of the chained Lean op (Soft64 weights + placement are exact rational arithmetic): bins * events * simulations
CHAIN_BUDGET = 12000
# memory layouts of the forecast's 2-D rate array (same values, same shape): C-contiguous, Fortran-ordered, the transposed
# view of a (mag, cell) table, non-contiguous slices of larger arrays (the surrounding memory holds other numbers),
# reversed (negative strides) views
LAYOUTS = ["F", "F", "T", "T", "slice-cols", "slice-rows", "slice-F", "rev", "rev-rows"]
# distances below an upper bin / cell edge: outside the binning routine's round-off band, inside any "practically on the
# edge" absolute tolerance someone might introduce
EDGE_DELTAS = [1e-6, 1e-6, 4e-6, 5e-6, 9e-6, 2e-6, 1e-5, 3e-5, 1e-4, 1e-7, 1e-8]
_FILL = 12345.678


def _with_layout(data, layout):
    """a new array equal to `data` element by element, with the requested memory layout"""
    data = numpy.asarray(data, dtype=float)
    ns, nm = data.shape
    if layout == "C":
        a = data.copy()
    elif layout == "F":
        a = numpy.asfortranarray(data.copy())
    elif layout == "T":
        a = numpy.ascontiguousarray(data.T).T
    elif layout == "slice-cols":
        big = numpy.full((ns, 2 * nm + 1), _FILL)
        big[:, 1::2] = data
        a = big[:, 1::2]
    elif layout == "slice-rows":
        big = numpy.full((2 * ns + 1, nm + 1), _FILL)
        big[1::2, :nm] = data
        a = big[1::2, :nm]
    elif layout == "slice-F":
        big = numpy.full((ns + 2, nm + 3), _FILL, order="F")
        big[1:ns + 1, 2:nm + 2] = data
        a = big[1:ns + 1, 2:nm + 2]
    elif layout == "rev":
        a = data[::-1, ::-1].copy()[::-1, ::-1]
    elif layout == "rev-rows":
        a = data[::-1, :].copy()[::-1, :]
    else:
        raise ValueError(layout)
    assert a.shape == data.shape and numpy.array_equal(a, data)
    return a


# ----------------------------------------------------------------------------- helpers
_DEV = {"oracle": 0.0, "model": 0.0}


def _track(kind, a, b):
    if a != b and math.isfinite(a) and math.isfinite(b):
        _DEV[kind] = max(_DEV[kind], abs(a - b) / max(abs(a), abs(b), 1e-300))


def _bits(x):
    return str(struct.unpack("<Q", struct.pack("<d", float(x)))[0])


def _unbits(s):
    return struct.unpack("<d", struct.pack("<Q", int(s)))[0]


def _rows(a, f):
    return ";".join(",".join(f(x) for x in row) for row in a)


def _close(a, b, scale):
    """1e-9 relative (+ 1e-13 of the magnitude of the terms that cancel in the code's formula); -inf exactly"""
    if a == b:
        return True
    if math.isinf(a) or math.isinf(b) or math.isnan(a) or math.isnan(b):
        return False
    return abs(a - b) <= 1e-9 * max(abs(a), abs(b)) + 1e-13 * scale + 1e-300


def _oracle(rates, counts, normalise):
    """Sum over ALL bins of log pmf(count | rate [* N_obs/N_fore]); returns (value, scale of cancelling terms, has_zero_hit)"""
    from scipy.stats import poisson
    rates = [float(r) for r in rates]
    counts = [int(c) for c in counts]
    n_fore = math.fsum(rates)
    n_obs = sum(counts)
    s = (n_obs / n_fore) if normalise else 1.0
    lam = numpy.array([r * s for r in rates]) if normalise else numpy.array(rates)
    w = numpy.array(counts)
    zero_hit = bool(numpy.any((w > 0) & (numpy.array(rates) == 0.0)))
    with numpy.errstate(all="ignore"):
        lp = poisson.logpmf(w, lam)
    # the pmf at rate 0 is the point mass at 0
    lp = numpy.where(lam == 0.0, numpy.where(w == 0, 0.0, -numpy.inf), lp)
    if numpy.any(numpy.isneginf(lp)):
        val = -math.inf
    else:
        val = math.fsum(lp.tolist())
    with numpy.errstate(all="ignore"):
        tl = numpy.where(w > 0, w * numpy.abs(numpy.log(numpy.where(lam > 0, lam, 1.0))), 0.0)
    scale = float(tl.sum()) + math.fsum(math.lgamma(c + 1) for c in counts) + (n_obs if normalise else n_fore)
    return val, scale, zero_hit


# ----------------------------------------------------------------------------- case generation
def _gen_spec(rng, tier):
    ns = rng.choice([1, 1, 2, 3, 5, 8, 13, 20, 40, rng.randint(1, 40), rng.randint(1, 40)])
    nm = rng.choice([1, 1, 2, 3, 8, rng.randint(1, 8)])
    cls = rng.choice(["wide", "wide", "wide", "tiny", "huge", "near1", "mixed-extremes", "subeps"])
    zfrac = rng.choice([0.0, 0.0, rng.uniform(0, 0.2), 0.2])
    g = numpy.random.default_rng(rng.randrange(2 ** 32))
    if cls == "wide":
        data = 10.0 ** g.uniform(-12, 3, size=(ns, nm))
    elif cls == "tiny":
        data = 10.0 ** g.uniform(-12, -8, size=(ns, nm))
    elif cls == "huge":
        data = 10.0 ** g.uniform(1, 3, size=(ns, nm))
    elif cls == "near1":
        data = 10.0 ** g.uniform(-1, 1, size=(ns, nm))
    elif cls == "subeps":
        # positive rates far below machine epsilon (1e-300 .. 1e-8) next to ordinary rates
        data = numpy.where(g.random((ns, nm)) < 0.4, 10.0 ** g.uniform(-300, -8, size=(ns, nm)), 10.0 ** g.uniform(-1, 1, size=(ns, nm)))
    else:
        data = numpy.where(g.random((ns, nm)) < 0.5, 1e-12, 1e3) * g.choice([1.0, 1.0, 0.999999], size=(ns, nm))
    data = numpy.where(g.random((ns, nm)) < zfrac, 0.0, data)
    # integer-valued rates held in an int64 array (counts-like forecasts): same numbers, another dtype
    dtype = "int64" if (cls in ("huge", "near1") and rng.random() < 0.25) else "float64"
    if dtype == "int64":
        data = numpy.rint(data)
    elif cls in ("huge", "near1") and rng.random() < 0.2:
        # round 6: single-precision forecasts (read from binary / HDF5 files; GriddedDataSet keeps the dtype) through every path. The
        # present code forms log, sums and weights in float32 for them (about 1e-7 relative): judged to float32 accuracy
        dtype = "float32"
    k = rng.random()
    if k < 0.12 and ns > 1:
        data[rng.randrange(ns), :] = 0.0          # a cell with zero spatial marginal
    elif k < 0.24 and nm > 1:
        data[:, rng.randrange(nm)] = 0.0          # a magnitude bin with zero marginal
    if not (data > 0).any():
        data[rng.randrange(ns), rng.randrange(nm)] = 10.0 ** rng.uniform(-12, 3) if dtype == "float64" else float(rng.randint(1, 9))
    n_fore = float(data.sum())
    # number of observed events
    ncls = rng.choice(["zero", "one", "near-fore", "far-above", "max", "small", "any"])
    if ncls == "zero":
        n = 0
    elif ncls == "one":
        n = 1
    elif ncls == "near-fore":
        n = min(300, max(0, int(round(n_fore)) + rng.randint(-1, 1)))
    elif ncls == "far-above":
        n = min(300, max(1, int(math.ceil(n_fore * rng.uniform(5, 50)))))
    elif ncls == "max":
        n = 300
    elif ncls == "small":
        n = rng.randint(2, 12)
    else:
        n = rng.randint(0, 300)
    # which bins may hold events
    allow_zero = rng.random() < 0.3
    flat = [(i, j) for i in range(ns) for j in range(nm) if allow_zero or data[i, j] > 0]
    nbins = min(len(flat), rng.choice([1, 2, 3, len(flat), rng.randint(1, len(flat))]))
    chosen = rng.sample(flat, nbins)
    forced = None
    if rng.random() < 0.15 and ns * nm > 1 and n > 0:
        # force an event into a zero-rate bin (making one if the array has none): the statistic must be -inf
        zeros = [(i, j) for i in range(ns) for j in range(nm) if data[i, j] == 0.0]
        forced = rng.choice(zeros) if zeros else (rng.randrange(ns), rng.randrange(nm))
        data[forced] = 0.0
        if not (data > 0).any():
            q = rng.choice([q for q in range(ns * nm) if (q // nm, q % nm) != forced])
            data[q // nm, q % nm] = 10.0 ** rng.uniform(-12, 3) if dtype == "float64" else float(rng.randint(1, 9))
        chosen = [c for c in chosen if data[c] > 0 or allow_zero] + [forced]
    events = []
    # share of events placed a little BELOW the upper edge of their magnitude bin / cell (outside the round-off band of the
    # binning routine, which is ~1e-14 here, but within 1e-4 of the edge) or exactly ON the lower magnitude edge
    edge_share = rng.choice([0.0, 0.0, 0.1, 0.3, 1.0])
    # round 4: exact duplicates (same coordinates and magnitude, optionally the same origin time): each one is an event
    dup_share = rng.choice([0.0, 0.0, 0.0, 0.2, 0.6])
    for e in range(n):
        i, j = forced if (forced is not None and e == 0) else rng.choice(chosen)
        ev = [i, j, rng.uniform(0.2, 0.8), rng.uniform(0.2, 0.8), rng.uniform(0.2, 0.8)]
        if rng.random() < edge_share:
            ev.append(rng.choice(["m", "m", "m", "m", "x", "y", "xy", "xym", "mon"]) + ":" + repr(rng.choice(EDGE_DELTAS)))
        if events and rng.random() < dup_share and not (forced is not None and e == 0):
            ev = list(events[-1])          # an exact duplicate of the previous event (location, magnitude; see `dup_time`)
        events.append(ev)
    # round 6 (owners): numeric extremes that are still ordinary inputs - a zero rate written -0.0; positive SUBNORMAL rates
    # (5e-324 .. 2e-308) in bins that hold no event (log of them is finite, their products with a scale may underflow to 0, which
    # for an empty bin is exactly the definition's limit)
    if dtype == "float64" and rng.random() < 0.15:
        zpos = numpy.argwhere(data == 0.0)
        for i_, j_ in zpos[:max(1, len(zpos) // 2)]:
            data[i_, j_] = -0.0
    if dtype == "float64" and rng.random() < 0.1 and forced is None:
        occupied = {(e[0], e[1]) for e in events}
        # ... and only where the cell's and the magnitude bin's MARGINAL stays an ordinary number (another rate >= 1e-300 in the same
        # row and in the same column): a marginal that is itself subnormal underflows to 0 when scaled by N_obs/N_fore, and an
        # occupied marginal bin would then score -inf by float underflow alone (met in the thorough tier; outside double precision)
        for _ in range(rng.randint(1, 3)):
            free = [(i, j) for i in range(ns) for j in range(nm) if (i, j) not in occupied and data[i, j] >= 1e-300
                    and any(data[i, q] >= 1e-300 for q in range(nm) if q != j) and any(data[q, j] >= 1e-300 for q in range(ns) if q != i)]
            if not free:
                break
            i_, j_ = rng.choice(free)
            data[i_, j_] = rng.choice([5e-324, 1e-310, 2.2250738585072009e-308, 1e-320])
    nx = rng.randint(1, ns)
    spec = dict(
        ns=ns, nm=nm, cls=cls, ncls=ncls, data=[[float(x).hex() for x in row] for row in data],
        events=[[e[0], e[1], e[2].hex(), e[3].hex(), e[4].hex()] + e[5:] for e in events],
        layout=rng.choice(LAYOUTS) if rng.random() < 0.45 else "C",
        nx=nx, dh=rng.choice([0.1, 0.5, 1.0]), x0=float(rng.randint(-20, 20)), y0=float(rng.randint(-20, 20)),
        m0=rng.choice(MAG_STARTS), dm=rng.choice(MAG_STEPS),
        nsim=rng.choice([1, 2, 3]) if tier == "quick" else rng.choice([1, 2, 3, 5]),
        rn_seed=rng.randrange(2 ** 32), l_seed=rng.randrange(2 ** 31), same_region=rng.random() < 0.5,
        rn_edge=rng.random() < 0.2, fscale=rng.choice([None, None, None, 2.0, 0.5, 10.0, 3.0, 0.1]),
        open_mag=rng.random() < 0.15)
    # round 4: what region the catalog is bound to (None = the forecast's / an equal copy as before; "none" = no region at
    # all: only the M-test is defined for it; "spatial-only" = a region without magnitudes: S- and M-test), the array dtype,
    # and a rare long verbose run (>= 100 simulations, progress printing on)
    # round 5 (owners): every state an observed catalog can come in - besides the forecast's own region object / an equal copy:
    # no region, a spatial-only region with the SAME cells in the same order, with the same cells in ANOTHER order
    # (`spatial-perm`), with MORE cells than the forecast's covering the events (`spatial-superset`), and a space-magnitude region
    # of its own with OTHER magnitude edges (`sm-othermags`). The forecast's region decides what the observed counts are.
    # round 6: how the arguments are passed, which public catalog class carries the events
    spec["conv"] = rng.choice(CALL_CONVENTIONS)
    spec["cat_class"] = "ucerf3" if rng.random() < 0.12 else "csep"
    # round 7: (j) user subclasses of the catalog class, (h) copies / pickles of forecast and catalog before use, (i) a rejected call
    # on the same objects before the judged ones, (k) a small decimal context around the calls
    r7 = rng.random()
    if r7 < 0.14:
        spec["cat_class"] = "user-neg"
    spec["copies"] = [rng.choice(COPY_FORMS), rng.choice(COPY_FORMS)]
    spec["pre_reject"] = rng.random() < 0.25
    spec["decimal_prec"] = rng.choice([None, None, None, 2, 3, 6])
    spec["cat_region"] = rng.choice([None] * 10 + ["none", "none", "spatial-only", "spatial-only", "spatial-perm", "spatial-perm",
                                                   "spatial-superset", "sm-othermags"])
    spec["dtype"] = dtype
    if dtype != "float64":
        spec["fscale"] = None
    spec["long_run"] = rng.random() < (0.02 if tier == "quick" else 0.01)
    spec["dup_time"] = rng.random() < 0.5
    spec["open_far"] = rng.choice([4.0, 4.0, 60.0, 1000.0])       # how far above the last edge an open-bin event may lie (bin widths)
    # after the five calls: re-scale the SAME forecast object and test again (state kept on the forecast between calls)
    spec["rescale_after"] = rng.choice([None] * 6 + [0.5, 3.0, 7.0]) if dtype == "float64" else None
    # round 4 (owners): factors of every kind scale() documents (python / numpy scalars, 0-d, (1,1), per-cell (n,1),
    # per-magnitude (m,) and (1,m), per-bin (n,m) arrays, scale_to_test_date), 0-2 earlier factors set before the one that
    # counts, and array-valued re-scalings between the tests
    if dtype == "float64" and rng.random() < 0.4:
        spec["fscale"] = None
        spec["factor"] = dict(last=_gen_factor(rng), pre=[_gen_factor(rng, False) for _ in range(rng.choice([0, 0, 1, 2]))])
    if dtype == "float64" and rng.random() < 0.25:
        spec["rescale_after"] = _gen_factor(rng)
    return spec


# magnitude grids: starts and steps of every decimal length (one, two, THREE decimals, dyadic 2^-k, 1/3-style steps that no
# decimal writes, negative starts). The edges are the ones the USER hands to the forecast / region constructors: a space-magnitude
# region must bin on exactly those (after construction `forecast.magnitudes` / `region.magnitudes` equal them bit for bit).
MAG_STARTS = [2.5, 4.0, 4.95, 4.0, 4.125, 5.005, -1.0, -0.75, 0.0, 1.0 / 3.0, 3.3, 5.95]
MAG_STEPS = [0.1, 0.5, 1.0, 0.1, 0.125, 0.05, 0.025, 0.0625, 1.0 / 3.0, 0.2, 0.3, 0.15, 2.0 ** -7, 0.001 * 125]

_BUILD_INFO = {}
# what `GriddedDataSet.scale(val)` documents as legal: "int, float, or ndarray". Scalar-like kinds and arrays of every shape
# that numpy broadcasts against the (cells, magnitude bins) array; the factor is ABSOLUTE (`_scale = val`), so only the last one
# of a sequence counts.  `date` = `scale_to_test_date` (a scalar fraction of the forecast's duration).
FACTOR_KINDS = ["float", "int", "np64", "np32", "0d", "1x1", "col", "col", "row", "row", "row2d", "full", "full", "date"]
_SCALARS = [2.0, 0.5, 10.0, 3.0, 0.1, 0.25, 1.0]


def _gen_factor(rng, allow_date=True):
    kind = rng.choice(FACTOR_KINDS if allow_date else [k for k in FACTOR_KINDS if k != "date"])
    return [kind, rng.randrange(2 ** 31)]


def _factor(fk, ns, nm):
    """the value handed to `scale()` for a factor spec [kind, seed] (deterministic)"""
    kind, seed = fk
    g = numpy.random.default_rng(seed)

    def vals(shape):
        v = numpy.round(10.0 ** g.uniform(-1, 1, size=shape), 3)
        return numpy.where(g.random(shape) < 0.25, 1.0, v)
    c = _SCALARS[seed % len(_SCALARS)]
    if kind == "float":
        return c
    if kind == "int":
        return 2 + seed % 3
    if kind == "np64":
        return numpy.float64(c)
    if kind == "np32":
        return numpy.float32([2.0, 0.5, 0.25, 4.0][seed % 4])
    if kind == "0d":
        return numpy.array(c)
    if kind == "1x1":
        return numpy.array([[c]])
    if kind == "col":
        return vals((ns, 1))
    if kind == "row":
        return vals((nm,))
    if kind == "row2d":
        return vals((1, nm))
    if kind == "full":
        return vals((ns, nm))
    raise ValueError(kind)


def _apply_factor(fore, held, fk):
    """scale the forecast object as the spec says; returns the rate array the forecast now stands for, computed by the harness
    itself: stored rates x factor, elementwise with numpy's broadcasting (for `date`: the fraction pyCSEP's own decimal-year
    arithmetic gives, C15's subject)"""
    ns, nm = held.shape
    if fk[0] == "date":
        import datetime
        from csep.utils.time_utils import decimal_year
        start, days = datetime.datetime(2020, 1, 1), 100 + fk[1] % 600
        end = start + datetime.timedelta(days)
        test = start + datetime.timedelta(1 + fk[1] % (days - 2))
        fore.start_time, fore.end_time = start, end
        fore.scale_to_test_date(test)
        frac = (decimal_year(test + datetime.timedelta(1)) - decimal_year(start)) / (decimal_year(end) - decimal_year(start))
        return numpy.asarray(held * frac, dtype=float)
    w = _factor(fk, ns, nm)
    fore.scale(w)
    return numpy.asarray(held * w, dtype=float)


def _build(spec):
    from csep.core.catalogs import CSEPCatalog
    from csep.core.forecasts import GriddedForecast
    from csep.core.regions import CartesianGrid2D
    ns, nm, nx, dh = spec["ns"], spec["nm"], spec["nx"], spec["dh"]
    data = numpy.array([[float.fromhex(x) for x in row] for row in spec["data"]], dtype=float).reshape(ns, nm)
    origins = numpy.array([[spec["x0"] + dh * (k % nx), spec["y0"] + dh * (k // nx)] for k in range(ns)])
    mags = [spec["m0"] + spec["dm"] * k for k in range(nm)]
    region = CartesianGrid2D.from_origins(origins, dh=dh, magnitudes=mags)
    c = spec.get("fscale")
    layout = spec.get("layout", "C")
    _BUILD_INFO["held"] = None
    if spec.get("factor"):
        # the forecast holds `held`; earlier factors are set and replaced; the rates under test are held x LAST factor
        fa = spec["factor"]
        w0 = 1.0 if fa["last"][0] == "date" else _factor(fa["last"], ns, nm)
        held = _with_layout(numpy.asarray(data / w0, dtype=float), layout)
        fore = GriddedForecast(data=held, region=region, magnitudes=mags, name="forecast")
        _BUILD_INFO["given"] = held
        for fk in fa.get("pre", []):
            fore.scale(_factor(fk, ns, nm))
        _BUILD_INFO["held"] = numpy.array(held, dtype=float)
        data = _apply_factor(fore, _BUILD_INFO["held"], fa["last"])
    elif c:
        # the forecast holds data/c and is scaled by c (GriddedDataSet.scale): the rates under test are `fore.data`
        held = _with_layout(data / c, layout)
        fore = GriddedForecast(data=held, region=region, magnitudes=mags, name="forecast").scale(c)
        _BUILD_INFO["given"] = held
        _BUILD_INFO["held"] = numpy.array(held, dtype=float)
        data = numpy.asarray(_BUILD_INFO["held"] * c, dtype=float)
    else:
        # the forecast's array and the harness's array are two separate arrays with the same values and memory layout
        arr = _with_layout(data, layout)
        if spec.get("dtype") == "int64":
            arr = arr.astype(numpy.int64)
            assert numpy.array_equal(arr, data)
        elif spec.get("dtype") == "float32":
            arr = arr.astype(numpy.float32)
            data = numpy.asarray(arr, dtype=float)            # the single-precision values ARE the forecast
        fore = GriddedForecast(data=arr, region=region, magnitudes=mags, name="forecast")
        _BUILD_INFO["given"] = arr
        data = _with_layout(data, layout) if layout != "C" else data.copy()
        if spec.get("dtype") == "float64":
            _BUILD_INFO["held"] = numpy.array(data, dtype=float)
    cnt = numpy.zeros((ns, nm), dtype=int)
    ev = []
    ndup = 0
    for k, e in enumerate(spec["events"]):
        i, j = e[0], e[1]
        fx, fy, fm = float.fromhex(e[2]), float.fromhex(e[3]), float.fromhex(e[4])
        lon = origins[i, 0] + dh * fx
        lat = origins[i, 1] + dh * fy
        mag = mags[j] + spec["dm"] * fm
        if spec.get("open_mag") and j == nm - 1:
            mag = mags[j] + spec["dm"] * (1.0 + spec.get("open_far", 4.0) * fm)   # the last magnitude bin is open-ended
        if len(e) > 5:
            # an event a little below the upper edge of its magnitude bin / cell (or exactly on the lower magnitude edge):
            # by the half-open bins [m_k, m_k+1), [x, x + dh) it belongs to bin (i, j) in every test
            axes, d = e[5].split(":")
            d = float(d)
            if axes == "mon":
                mag = mags[j]
            elif "m" in axes:
                mag = (mags[j + 1] if j + 1 < nm else mags[j] + spec["dm"]) - d
            if "x" in axes:
                lon = (origins[i, 0] + dh) - d
            if "y" in axes:
                lat = (origins[i, 1] + dh) - d
            band = 1e-10   # far above the routine's round-off band (~1e-14 for these magnitudes / coordinates)
            assert mags[j] <= mag and (j + 1 >= nm or mag < mags[j + 1] - band), (mag, mags, j)
            assert origins[i, 0] + band < lon < origins[i, 0] + dh - band and \
                origins[i, 1] + band < lat < origins[i, 1] + dh - band, (lon, lat, origins[i], dh)
        t_k = 1000 * k
        if spec.get("dup_time") and k > 0 and e == spec["events"][k - 1]:
            t_k = ev[-1][1]
        ev.append((str(k), t_k, lat, lon, 10.0, mag))
        if k > 0 and e == spec["events"][k - 1]:
            ndup += 1
        cnt[i, j] += 1
    cat_region = fore.region if spec["same_region"] else CartesianGrid2D.from_origins(origins, dh=dh, magnitudes=mags)
    cr_ = spec.get("cat_region")
    if cr_ == "none":
        cat_region = None
    elif cr_ == "spatial-only":
        cat_region = CartesianGrid2D.from_origins(origins, dh=dh)
    elif cr_ == "spatial-perm":
        # the same cells in another order (reversed, or a seeded shuffle): cell k of this region is not cell k of the forecast
        perm = numpy.arange(ns)[::-1] if spec["rn_seed"] % 2 else numpy.random.default_rng(spec["rn_seed"]).permutation(ns)
        cat_region = CartesianGrid2D.from_origins(origins[perm].copy(), dh=dh)
    elif cr_ == "spatial-superset":
        # more cells than the forecast has (a further row of the same lattice below it, listed FIRST): indices are shifted
        extra = numpy.array([[spec["x0"] + dh * k, spec["y0"] - dh] for k in range(nx)])
        cat_region = CartesianGrid2D.from_origins(numpy.vstack([extra, origins]), dh=dh)
    elif cr_ == "sm-othermags":
        # a space-magnitude region of its own: same cells, other magnitude edges (shifted by half a bin, one edge more)
        cat_region = CartesianGrid2D.from_origins(origins, dh=dh, magnitudes=[spec["m0"] + spec["dm"] * (k - 0.5) for k in range(nm + 1)])
    cc_ = spec.get("cat_class")
    _BUILD_INFO["skip"] = []
    if cc_ == "ucerf3":
        cat = _ucerf3_catalog(ev, cat_region)
    elif cc_ == "user-neg":
        cat = _user_classes()["UserNegCatalog"](data=[(a, b, -c, -d, e, -f) for a, b, c, d, e, f in ev], region=cat_region, name="catalog")
    else:
        cat = CSEPCatalog(data=ev, region=cat_region, name="catalog")
    cf = spec.get("copies") or [None, None]
    if cf[0]:
        fore = _copy_form(fore, cf[0], what="forecast")
        if cf[0] != "copy":
            _BUILD_INFO["given"] = None
    if cf[1]:
        cat = _copy_form(cat, cf[1], what="catalog")
    _BUILD_INFO["duplicates"] = ndup
    return fore, cat, data, cnt


CALL_CONVENTIONS = ["kw", "kw", "pos", "allkw"]
UNIFORM_ENTRY_POINTS = ("uniform", "random", "random_sample", "ranf", "sample", "rand")


class Runaway(Exception):
    """the implementation asked the global generator for far more uniform draws than the sampling rule needs: it does not finish"""


@contextlib.contextmanager
def _capped_uniforms(cap):
    """every uniform entry point of numpy's legacy global generator passes through (the real generator answers, the stream is the
    real one) but CALLS are counted: beyond `cap` - a generous multiple of what the model says the correct code needs for this
    input (0 with injected numbers, one call per simulation on the Poisson default path, the replayed number of rejection-loop
    iterations on the binary default path) - the wrapper raises `Runaway`, which the caller reports as an oracle failure with the
    input as replay. Calls are counted, not seconds: machine load cannot trip it."""
    state = dict(calls=0)
    orig = {n: getattr(numpy.random, n) for n in UNIFORM_ENTRY_POINTS if hasattr(numpy.random, n)}

    def wrap(f):
        def g(*a, **k):
            state["calls"] += 1
            if state["calls"] > cap:
                raise Runaway(f"the implementation drew uniform numbers {state['calls']} times where the sampling rule needs at most "
                              f"{cap // 20} calls for this input (more than 20x): the simulation does not finish")
            return f(*a, **k)
        return g
    for n, f in orig.items():
        setattr(numpy.random, n, wrap(f))
    try:
        yield state
    finally:
        for n, f in orig.items():
            setattr(numpy.random, n, f)


def _public_call(fn, conv, fore, cat, num_simulations, seed=None, random_numbers=None, verbose=False):
    """one public test `fn(gridded_forecast, observed_catalog, num_simulations=1000, seed=None, random_numbers=None,
    verbose=False)` with every argument passed the way `conv` says: `kw` (forecast and catalog positional, the rest by keyword, only
    the ones that are not at their default), `pos` (all six positional, in the documented order), `allkw` (all six by keyword)"""
    if conv == "pos":
        return fn(fore, cat, num_simulations, seed, random_numbers, verbose)
    if conv == "allkw":
        return fn(gridded_forecast=fore, observed_catalog=cat, num_simulations=num_simulations, seed=seed,
                  random_numbers=random_numbers, verbose=verbose)
    kw = dict(num_simulations=num_simulations)
    if seed is not None:
        kw["seed"] = seed
    if random_numbers is not None:
        kw["random_numbers"] = random_numbers
    if verbose:
        kw["verbose"] = True
    return fn(fore, cat, **kw)


def _ucerf3_catalog(ev, region):
    """the same events as a UCERF3Catalog (another public catalog class: big-endian structured event array, other field names)"""
    from csep.core.catalogs import UCERF3Catalog
    d = UCERF3Catalog._get_catalog_dtype(3)
    arr = numpy.zeros(len(ev), dtype=d)
    if len(ev):
        arr["origin_time"] = [e[1] for e in ev]
        arr["latitude"] = [e[2] for e in ev]
        arr["longitude"] = [e[3] for e in ev]
        arr["depth"] = [e[4] for e in ev]
        arr["magnitude"] = [e[5] for e in ev]
        arr["rupture_id"] = numpy.arange(len(ev))
    return UCERF3Catalog(data=arr, region=region, name="catalog")


_USER = {}


def _user_classes():
    """round 7 (j): catalogs of a USER subclass that overrides the BASIC DATA ACCESSORS consistently - the accessor is the source of
    truth (the repo's own tests use such a MockCatalog; the library is documented to read event data through them). `UserNegCatalog`
    stores longitude, latitude and magnitude NEGATED and hands them out through get_longitudes / get_latitudes / get_magnitudes
    (exactly invertible, so edge events stay where they are). Module-level class (picklable). Overrides of DERIVED public methods
    (spatial_counts, spatial_event_probability, ...) are deliberately NOT a class: which derived method the library calls internally
    is not part of the property (coordinator's decision, round 7: seeded C16_15 / C16_H5)."""
    if not _USER:
        from csep.core.catalogs import CSEPCatalog

        class UserNegCatalog(CSEPCatalog):
            def get_magnitudes(self):
                return -self.catalog["magnitude"]

            def get_longitudes(self):
                return -self.catalog["longitude"]

            def get_latitudes(self):
                return -self.catalog["latitude"]

        for c in (UserNegCatalog,):
            c.__module__, c.__qualname__ = __name__, c.__name__
            globals()[c.__name__] = c
            _USER[c.__name__] = c
    return _USER


COPY_FORMS = [None, None, None, "copy", "deepcopy", "pickle"]
_COPY_UNSUPPORTED = set()


def _copy_form(obj, form, run=None, what=""):
    """round 7 (h): the object is replaced by a copy of itself BEFORE use; where the unchanged tree cannot copy that kind of object in
    that form the original is used and the form is counted as unsupported"""
    import copy
    import pickle
    if form is None:
        return obj
    try:
        if form == "copy":
            return copy.copy(obj)
        if form == "deepcopy":
            return copy.deepcopy(obj)
        return pickle.loads(pickle.dumps(obj))
    except Exception:
        _COPY_UNSUPPORTED.add(f"{what}:{type(obj).__name__}:{form}")
        return obj


class _Owned:
    """arrays the CALLER owns and hands to the library (the array given to the forecast's constructor, the catalog's event array,
    the injected random numbers): no evaluation documents an in-place change of them, so after every call they must hold the same
    bytes"""

    def __init__(self, **arrays):
        self.arrays = {k: v for k, v in arrays.items() if v is not None}
        self.before = {k: numpy.array(v, copy=True) for k, v in self.arrays.items()}

    def changed(self):
        out = []
        for k, v in self.arrays.items():
            b = self.before[k]
            try:
                same = v.shape == b.shape and v.dtype == b.dtype and numpy.ascontiguousarray(v).tobytes() == numpy.ascontiguousarray(b).tobytes()
            except Exception:
                same = False
            if not same:
                out.append(k)
        return out


def _same_cells(r1, r2):
    """two spatial regions with the same cells in the same order"""
    try:
        return numpy.array_equal(numpy.asarray(r1.origins(), dtype=float), numpy.asarray(r2.origins(), dtype=float))
    except Exception:
        return False


def _scribble(res, fore, cat):
    """overwrite, in place, what public calls RETURNED: the result's test distribution, the arrays the forecast's and the catalog's
    public getters hand out. None of them may be state the library keeps."""
    td = getattr(res, "test_distribution", None)
    if isinstance(td, list):
        for i in range(len(td)):
            td[i] = 12345.678
    elif isinstance(td, numpy.ndarray) and td.flags.writeable:
        td[...] = 12345.678
    getters = [lambda: fore.data, lambda: fore.spatial_counts(), lambda: fore.magnitude_counts(), lambda: fore.magnitudes,
               lambda: cat.spatial_counts(), lambda: cat.spatial_magnitude_counts(),
               lambda: cat.magnitude_counts(mag_bins=fore.magnitudes), lambda: cat.get_magnitudes()]
    for gtr in getters[:3] + getters[4:]:          # (the magnitude EDGES are the user's own object: not overwritten)
        try:
            with numpy.errstate(all="ignore"):
                a = gtr()
            if isinstance(a, numpy.ndarray) and a.flags.writeable and a.base is None and a.size:
                a[...] = a.dtype.type(0) if a.dtype.kind in "biu" else -7.0
        except Exception:
            pass


@contextlib.contextmanager
def _decimal_ctx(prec):
    """round 7 (k): the caller's decimal context has a small precision while the library runs (nothing the tests compute may depend on
    it)"""
    import decimal
    if not prec:
        yield
        return
    with decimal.localcontext() as ctx:
        ctx.prec = prec
        yield


def _given_array(fore):
    """the very array object the caller handed to the forecast's constructor (kept by the harness at construction)"""
    return _BUILD_INFO.get("given")


def _errstate(data, n):
    """round 6: on a CLEAN valid input - every rate positive and normal, a non-empty catalog - no arithmetic of the evaluation divides
    by zero or produces nan: numpy is told to raise there (an exception becomes an oracle failure). With zero / subnormal rates or an
    empty catalog the present code legitimately meets log(0) / 0*inf, so nothing is demanded."""
    clean = n > 0 and bool(numpy.all(data >= 2.3e-308))
    return dict(divide="raise", invalid="raise") if clean else dict(all="ignore")


def _same_rates(fore, data):
    """forecast.data against the harness's own stored x factor (same float operation, so normally bit-identical; 1e-12 allows
    a forecast class that forms the product in another association)"""
    with numpy.errstate(all="ignore"):
        fd = numpy.asarray(fore.data, dtype=float)
    return fd.shape == data.shape and bool(numpy.all(numpy.abs(fd - data) <= 1e-12 * numpy.abs(data)))


@contextlib.contextmanager
def _capture(pe):
    """record the array every call of poisson_evaluations._simulate_catalog returns (nothing in /repo is edited)"""
    rec = []
    orig = getattr(pe, "_simulate_catalog", None)
    if orig is None:
        yield rec
        return

    def wrap(*a, **k):
        out = orig(*a, **k)
        try:        # recording must never disturb the call: whatever the helper returns today is handed on untouched
            rec.append(numpy.asarray(out, dtype=float).astype(int).ravel().copy())
        except Exception:
            rec.append(numpy.zeros(0, dtype=int))            # unusable record: the harness's own placement stands in
        return out

    pe._simulate_catalog = wrap
    try:
        yield rec
    finally:
        pe._simulate_catalog = orig


def _sim_counts(rates1d, rn):
    """the simulated count array the code builds from the numbers `rn` (poisson_evaluations.py:_simulate_catalog)"""
    w = numpy.cumsum(rates1d)
    w = w / w[-1]
    idx = numpy.searchsorted(w, rn, side="right")
    return numpy.bincount(idx, minlength=len(rates1d)).astype(int)


def _arrays(mode, data, cnt):
    """(forecast array fed to the statistic, observed count array, normalise flag) for a mode — harness side"""
    if mode in ("L", "CL"):
        return data.ravel(), cnt.ravel(), False
    if mode == "S":
        return data.sum(axis=1), cnt.sum(axis=1), True
    return data.sum(axis=0), cnt.sum(axis=0), True


def _oracle_arrays(mode, data, cnt1d_or_2d, observed):
    """rates (exactly summed marginals) and counts for the direct oracle"""
    rows = data.tolist()
    if mode in ("L", "CL"):
        rates = [x for row in rows for x in row]
    elif mode == "S":
        rates = [math.fsum(row) for row in rows]
    else:
        rates = [math.fsum(col) for col in zip(*rows)]
    return rates


def _eval_case(run, drv, pending, spec, tag="gen"):
    from csep.core import poisson_evaluations as pe
    fore, cat, data, cnt = _build(spec)
    ns, nm, nsim, n = spec["ns"], spec["nm"], spec["nsim"], len(spec["events"])
    g = numpy.random.default_rng(spec["rn_seed"])
    case = dict(spec=spec, tag=tag)
    short = dict(shape=[ns, nm], cls=spec["cls"], ncls=spec["ncls"], n_obs=n, n_fore=float(data.sum()),
                 zeros=int((data == 0).sum()), tag=tag)
    nontriv = bool((cnt >= 2).any()) and abs(n - float(data.sum())) > 0.5
    key = (data.tobytes(), cnt.tobytes()) if nontriv else None
    run.case(short, key)
    run.count(f"rates-{spec['cls']}")
    run.count(f"nobs-{spec['ncls']}")
    run.count(f"shape-{'1' if ns == 1 else 'n'}x{'1' if nm == 1 else 'm'}")
    run.count(f"layout-{spec.get('layout', 'C')}")
    nedge = sum(1 for e in spec["events"] if len(e) > 5)
    if nedge:
        run.count("catalog-with-edge-events")
        for e in spec["events"]:
            if len(e) > 5:
                run.count("edge-event-" + e[5].split(":")[0])
    tests = {"L": pe.likelihood_test, "CL": pe.conditional_likelihood_test, "S": pe.spatial_test, "M": pe.magnitude_test}
    conv = spec.get("conv", "kw")
    wide = spec.get("dtype") == "float32"      # arithmetic legitimately carried out in single precision: float32 accuracy demanded
    run.count(f"call-convention-{conv}")
    run.count(f"catalog-class-{spec.get('cat_class', 'csep')}")
    if spec["rn_seed"] % 9 == 0:
        import csep as _csep                                  # the same functions through the package-level alias
        if getattr(_csep, "poisson_evaluations", None) is not None:
            tests = {k: getattr(_csep.poisson_evaluations, v.__name__, v) for k, v in tests.items()}
            run.count("entry-point-csep.poisson_evaluations")
    held = _BUILD_INFO.get("held")
    shared_rn, repeated = {}, []
    if spec.get("factor"):
        run.count(f"factor-{spec['factor']['last'][0]}")
        if spec["factor"].get("pre"):
            run.count("factor-sequence")
    if not _same_rates(fore, data):
        run.oracle_failure(case, "forecast.data is not the stored rates times the factor set last (elementwise)")
        return
    # the magnitude edges of the forecast and of its space-magnitude region are the ones the user supplied, bit for bit
    want_m = [spec["m0"] + spec["dm"] * k for k in range(nm)]
    for what, got in (("forecast.magnitudes", getattr(fore, "magnitudes", None)),
                      ("forecast.region.magnitudes", getattr(fore.region, "magnitudes", None))):
        got = None if got is None else [float(x) for x in numpy.ravel(got)]
        if got is None or len(got) != nm or any(_bits(a) != _bits(b) for a, b in zip(got, want_m)):
            run.oracle_failure(case, f"{what} = {None if got is None else got[:5]} is not the list of magnitude edges the forecast was "
                                     f"built with {want_m[:5]}")
            return
    run.count(f"mag-step-{spec['dm']!r}"[:28])
    calls = [("CL", "inject"), ("S", "inject"), ("M", "inject"), ("L", "inject1"), ("L", "seed")]
    creg = spec.get("cat_region")
    run.count(f"catalog-region-{creg or ('same' if spec['same_region'] else 'copy')}")
    run.count(f"dtype-{spec.get('dtype', 'float64')}")
    if creg == "none":
        # a catalog bound to no region: the M-test needs none; the L / CL tests bind the forecast's region to the catalog
        # (D40) — afterwards the S-test works on the same catalog object too
        first = [("CL", "inject"), ("L", "inject1")][::1 if spec["rn_seed"] % 2 else -1]
        calls = [("M", "inject")] + first + [("BOUND", None), ("S", "inject"), ("L", "seed")]
    elif creg == "spatial-only":
        # a region without magnitudes: S and M work as they are, L / CL replace it by the forecast's region (D40)
        first = [("CL", "inject"), ("L", "inject1")][::1 if spec["rn_seed"] % 2 else -1]
        calls = [("S", "inject"), ("M", "inject")] + first + [("BOUND", None), ("S", "inject"), ("L", "seed")]
    elif creg in ("spatial-perm", "spatial-superset"):
        # a magnitude-less region with other cells / another cell order: the M-test needs no region; L / CL grid the catalog on
        # the FORECAST's region (the catalog's own spatial region is replaced), after which the S-test works on the same object.
        # The S-test BEFORE such a binding is a genuine-defect candidate (AWAITING_DECISION, notes/C05.md): never executed.
        first = [("CL", "inject"), ("L", "inject1")][::1 if spec["rn_seed"] % 2 else -1]
        calls = [("M", "inject")] + first + [("BOUND", None), ("S", "inject"), ("CL", "inject"), ("L", "seed")]
        run.count("awaiting-decision-skipped:s-test-on-catalog-own-spatial-region")
    elif creg == "sm-othermags":
        # the catalog carries a space-magnitude region with other magnitude edges: the M-test bins on the forecast's edges, the
        # S-test on the (identical) cells; L / CL on such a catalog are a genuine-defect candidate (AWAITING_DECISION)
        calls = [("M", "inject"), ("S", "inject"), ("M", "seed")]
        run.count("awaiting-decision-skipped:catalog-own-space-magnitude-region-differs")
    if creg is None and spec["rn_seed"] % 3 == 0:
        calls.append((("CL", "S", "M")[spec["l_seed"] % 3], "seed"))
    if spec.get("long_run"):
        calls.append((("CL", "S", "M")[spec["rn_seed"] % 3] if creg is None else "M", "long"))
    if spec.get("rescale_after") and creg is None:
        # state kept on the forecast object between calls: re-scale the SAME object, then test again
        calls += [("RESCALE", spec["rescale_after"]), ("CL", "inject"), ("M", "inject"), ("S", "inject")]
    if _BUILD_INFO.get("duplicates"):
        run.count("catalog-with-duplicate-events")
        run.count("duplicate-events", _BUILD_INFO["duplicates"])
    evtxt = ",".join(f"{e[0]}:{e[1]}" for e in spec["events"]) if spec["events"] else "-"
    skip = _BUILD_INFO.get("skip") or []
    skipset = set(skip)
    cnt_target = cnt.copy()
    for k_ in skip:
        cnt_target[spec["events"][k_][0], spec["events"][k_][1]] -= 1
    run.count(f"copy-forecast-{(spec.get('copies') or [None, None])[0]}")
    run.count(f"copy-catalog-{(spec.get('copies') or [None, None])[1]}")
    if spec.get("decimal_prec"):
        run.count("decimal-context-small-precision")
    if spec.get("pre_reject") and len(spec["events"]) > 0 and spec.get("cat_region") in (None, "spatial-only") and not skip:
        # round 7 (i): a call the library REJECTS on the very same objects first (random_numbers one column too wide: the count
        # assertion), caught - the judged calls that follow must be what they are on fresh objects
        m0_ = ("CL", "S", "M")[spec["rn_seed"] % 3]
        try:
            with _capped_uniforms(2000), numpy.errstate(all="ignore"):
                tests[m0_](fore, cat, num_simulations=2, random_numbers=numpy.random.default_rng(spec["rn_seed"]).random((2, len(spec["events"]) + 1)))
            run.count("pre-reject-accepted")
        except Exception:
            run.count(f"pre-reject-raised-{m0_}")
    for mode, how in calls:
        if mode == "BOUND":
            # side effect of the L / CL tests on a catalog without a space-magnitude region: the forecast's region is bound
            reg = getattr(cat, "region", None)
            ok = reg is not None and getattr(reg, "magnitudes", None) is not None and \
                numpy.array_equal(numpy.asarray(reg.magnitudes, dtype=float), numpy.asarray(fore.magnitudes, dtype=float)) and \
                (reg is fore.region or _same_cells(reg, fore.region))
            if not ok:
                run.oracle_failure(case, "after likelihood_test / conditional_likelihood_test the observed catalog is not bound "
                                         "to the forecast's space-magnitude region")
            run.count("region-bound-by-test")
            continue
        if mode == "RESCALE":
            # GriddedDataSet.scale: data = _data * how from now on (a scalar or an array of any broadcastable shape)
            if held is None:
                continue
            # totals / per-event rates / the per-cell map are read BEFORE the re-scaling too (and again at the end): whatever
            # a forecast object remembers from these reads must not survive scale()
            if not skip:
                _cells_check(run, drv, pending, case, fore, cat, data, cnt)
                _per_event_check(run, drv, pending, case, spec, fore, cat, data, cnt)
            if isinstance(how, (list, tuple)):
                data = _apply_factor(fore, held, how)
                run.count(f"rescaled-after-tests-{how[0]}")
            else:
                fore.scale(how)
                data = numpy.asarray(held * how, dtype=float)
            run.count("rescaled-after-tests")
            if not _same_rates(fore, data):
                run.oracle_failure(case, "after scale(): forecast.data is not the stored rates times the factor set last")
                return
            continue
        rates1d, obs1d, norm = _arrays(mode, data, cnt)
        ev_txt_mode = evtxt
        if mode == "S" and skip:
            # the user's catalog class grids only its target events spatially (spatial_counts() overridden): that array is what
            # the S-test is about - the accessor is the source of truth
            obs1d = cnt_target.sum(axis=1)
            kept = [e for k_, e in enumerate(spec["events"]) if k_ not in skipset]
            ev_txt_mode = ",".join(f"{e[0]}:{e[1]}" for e in kept) if kept else "-"
        n = int(numpy.sum(obs1d))
        sims, rn, draws_txt, nsim_call, stream, owned = [], None, "-", nsim, None, None
        try:
            # round 6: no call can run away - with injected numbers the code draws nothing, on the default path one block per
            # simulation (cap = 20 x that + slack, in CALLS of the generator)
            with _capture(pe) as rec, _capped_uniforms(20 * (max(nsim, 2) + 135) + 200), _decimal_ctx(spec.get("decimal_prec")):
                if how == "inject":
                    # round 4: `num_simulations` is an argument of its own — in one call of eight the injected array has
                    # 1-2 rows MORE than simulations asked; the first `num_simulations` rows are the ones to be used
                    surplus = (1 + spec["rn_seed"] % 2) if (spec["rn_seed"] // 3) % 8 == 0 else 0
                    # round 6: ONE random_numbers array object serves every injected conditional test of the case (CL, S, M all take
                    # N_obs numbers per simulation): a test that leaves its numbers changed, or remembers them, shows in the next one
                    if shared_rn.get("a") is not None and shared_rn["a"].shape == (nsim + surplus, n):
                        rn = shared_rn["a"]
                        run.count("random-numbers-array-reused")
                    else:
                        rn = g.random((nsim + surplus, n))
                        if spec["rn_edge"] and n > 0:
                            rn[0, 0] = 0.0
                            rn[nsim - 1, -1] = math.nextafter(1.0, 0.0)
                        shared_rn["a"] = rn
                    if surplus:
                        run.count("injected-rows-exceed-num-simulations")
                    # round 6: a seed next to injected numbers (it must not matter), verbose with few simulations
                    sd_ = spec["l_seed"] if (spec["rn_seed"] // 11) % 4 == 0 else None
                    vb_ = (spec["rn_seed"] // 13) % 5 == 0
                    owned = _Owned(random_numbers=rn, events=getattr(cat, "catalog", None), given=_given_array(fore))
                    with contextlib.redirect_stdout(io.StringIO()), numpy.errstate(**_errstate(data, n)):
                        res = _public_call(tests[mode], conv, fore, cat, nsim, seed=sd_, random_numbers=rn, verbose=vb_)
                    sims = [_sim_counts(rates1d, rn[k, :]) for k in range(nsim)]
                elif how == "long":
                    # >= 100 simulations with the progress printing on (the `(idx + 1) % 100 == 0` branch)
                    nsim_call = 100 + spec["rn_seed"] % 31
                    rn = g.random((nsim_call, n))
                    with contextlib.redirect_stdout(io.StringIO()):
                        res = _public_call(tests[mode], conv, fore, cat, nsim_call, random_numbers=rn, verbose=True)
                    sims = [_sim_counts(rates1d, rn[k, :]) for k in range(nsim_call)]
                elif how == "inject1":
                    # one simulation: the number of events is the seeded Poisson draw; inject exactly that many numbers
                    numpy.random.seed(spec["l_seed"])
                    n1 = int(numpy.random.poisson(numpy.sum(numpy.asarray(fore.data)) if wide else numpy.sum(data)))
                    if n1 > 200000:
                        continue
                    rn = g.random((1, n1))
                    owned = _Owned(random_numbers=rn, events=getattr(cat, "catalog", None), given=_given_array(fore))
                    res = _public_call(tests[mode], conv, fore, cat, 1, seed=spec["l_seed"], random_numbers=rn)
                    sims = [_sim_counts(rates1d, rn[0, :])]
                    draws_txt, nsim_call = str(n1), 1
                else:
                    # default random path (no injected numbers): the legacy stream is re-created from the seed —
                    # L: poisson(N_fore) then rand(n) per simulation; conditional tests: rand(N_obs) per simulation
                    nsim_call = nsim if mode == "L" else max(nsim, 2)
                    if mode == "L" and float(data.sum()) * nsim_call > 400000:
                        continue
                    owned = _Owned(events=getattr(cat, "catalog", None), given=_given_array(fore))
                    res = _public_call(tests[mode], conv, fore, cat, nsim_call, seed=spec["l_seed"])
                    numpy.random.seed(spec["l_seed"])
                    l_draws, l_blocks = [], []
                    for _ in range(nsim_call):
                        nk = int(numpy.random.poisson(numpy.sum(numpy.asarray(fore.data)) if wide else numpy.sum(data))) if mode == "L" else n
                        blk = numpy.random.rand(nk)
                        l_draws.append(nk)
                        l_blocks.append(blk)
                        sims.append(_sim_counts(rates1d, blk))
                    if mode == "L":
                        # the L-test interleaves a Poisson draw before every block: the draws and the uniform numbers consumed
                        # (in order) go to the model, which cuts the stream into blocks of the drawn lengths (`chunks`)
                        stream = numpy.concatenate(l_blocks) if l_blocks else numpy.zeros(0)
                        draws_txt = ",".join(str(d) for d in l_draws)
                    else:
                        # round 4: the uniform stream itself (ONE draw of nsim * N_obs numbers after seeding) goes to the
                        # model, which cuts it into one block per simulation (Model/PoissonStream.lean `runStream`)
                        numpy.random.seed(spec["l_seed"])
                        stream = numpy.random.rand(nsim_call * n)
        except Exception as e:  # the property promises a value for every forecast/catalog in its domain
            run.oracle_failure(case, f"{mode}-test ({how}) raised {type(e).__name__}: {e}")
            continue
        run.count(f"call-{mode}-{how}")
        if owned is not None:
            ch = owned.changed()
            if ch:
                run.oracle_failure(case, f"{mode}-test ({how}) changed the caller's own array(s) {ch} in place (the forecast / catalog / "
                                         f"numbers the caller holds are no longer the ones evaluated)")
                return
        obs = float(res.observed_statistic)
        td = [float(x) for x in res.test_distribution]
        td_full = list(td)
        if len(td) != len(sims):
            run.oracle_failure(case, f"{mode}-test ({how}): test_distribution has {len(td)} entries, {len(sims)} simulations asked")
            continue
        # the simulated catalogs the code itself built (observed by wrapping `_simulate_catalog`); when the function is
        # not called once per simulation (a rewrite may inline it) the harness's own placement stands in
        observed_sims = len(rec) == len(sims) and all(len(r) == len(rates1d) for r in rec)
        if observed_sims:
            run.count("simulated-arrays-observed")
            if stream is not None and not all(numpy.array_equal(a, b) for a, b in zip(rec, sims)):
                # the code consumed the global generator's stream in another order than `rand(N_obs)` per simulation: its
                # entries are still judged by the oracle on the catalogs it built; the stream model does not apply
                run.count("stream-order-differs-from-legacy")
                stream = None
            sims = rec
        orates = _oracle_arrays(mode, data, None, True)
        # observed statistic
        entries = [("observed", obs1d, obs)] + [(f"simulated[{k}]", sims[k], td[k]) for k in range(len(sims))]
        impl_vals, scales = [], []
        if wide and not observed_sims:
            entries = entries[:1]            # float32 weights may place an event on the other side of a boundary: catalogs unknown
            td, sims = [], []
        for name, counts, val in entries:
            ref, scale, zero_hit = _oracle(orates, counts, norm)
            if wide:
                scale = 1e7 * (scale + abs(ref if math.isfinite(ref) else 0.0) + 1.0)     # 1e-13 * this = 1e-6 of the magnitude
            else:
                _track("oracle", val, ref)
            impl_vals.append(val)
            scales.append(scale)
            if (val == -math.inf) != zero_hit:
                run.oracle_failure(case, f"{mode}-test ({how}) {name}: value {val!r} but "
                                         f"{'an' if zero_hit else 'no'} event lies in a zero-rate bin")
            elif not _close(val, ref, scale):
                run.oracle_failure(case, f"{mode}-test ({how}) {name}: value {val!r} != sum of log pmf {ref!r}")
            if val == -math.inf:
                run.count("value-neginf")
            else:
                run.count("value-finite")
        # round 6: aliasing of RETURNED objects - everything the first injected CL / S / M call and the public getters hand out is
        # overwritten in place, then the very same call is repeated (same objects, same numbers): it must report the same values
        if how == "inject" and not repeated and mode in ("CL", "S", "M"):
            repeated.append(mode)
            _scribble(res, fore, cat)
            try:
                with contextlib.redirect_stdout(io.StringIO()), _capped_uniforms(2000):
                    res2 = _public_call(tests[mode], conv, fore, cat, nsim, random_numbers=rn)
                obs2, td2 = float(res2.observed_statistic), [float(x) for x in res2.test_distribution]
                same = (obs2 == obs or (math.isnan(obs2) and math.isnan(obs))) and len(td2) == len(td_full) and \
                    all(a == b or (math.isnan(a) and math.isnan(b)) for a, b in zip(td2, td_full))
                if not same:
                    run.oracle_failure(case, f"{mode}-test (inject) repeated after the objects it and the public getters RETURNED were "
                                             f"overwritten in place: {obs2!r}, {td2[:3]} instead of {obs!r}, {td_full[:3]} (a returned object "
                                             f"aliases state the library keeps)")
                    return
                run.count("repeat-after-overwriting-returned-objects")
            except Exception as e:
                run.oracle_failure(case, f"{mode}-test (inject) repeated after overwriting returned objects raised {type(e).__name__}: {e}")
                return
        # the reported quantile is the fraction of the RETURNED simulated statistics not exceeding the returned observed one
        if td and not (math.isnan(obs) or any(math.isnan(v) for v in td)):
            kq = sum(1 for v in td if v <= obs)
            if abs(float(res.quantile) - kq / len(td)) > 1e-12:
                run.oracle_failure(case, f"{mode}-test ({how}): quantile {float(res.quantile)!r} is not {kq}/{len(td)}")
        # correspondence with the Lean Float model
        simtxt = ";".join(",".join(str(int(c)) for c in s) for s in sims) if sims else "-"
        cnt_mode = cnt_target if (mode == "S" and skip) else cnt
        i = drv.ask(f"c05_mode {mode} {_rows(data, _bits)} {_rows(cnt_mode, lambda c: str(int(c)))} {simtxt}")
        pending.append((case, mode, how, i, impl_vals, scales, None))
        # round 6 (owners): the Soft64 layer of the statistic (Properties/C05_Rounding.lean bounds ITS distance from the real value):
        # one rounded product per target bin, numpy's pairwise sums, two rounded subtractions - from the library values
        # numpy.log / loggamma the code itself uses. Bit-exact agreement with the observed CL statistic is RECORDED
        # (`soft64-statistic-*`), never a verdict: another summation order is within the proved bound, not a violation.
        if mode == "CL" and how == "inject" and not wide and math.isfinite(obs) and 0 < int((obs1d > 0).sum()) <= 400:
            try:
                from scipy.special import loggamma
                fd = numpy.asarray(fore.data, dtype=float)
                tix = numpy.nonzero(numpy.asarray(obs1d).ravel())[0]
                with numpy.errstate(all="ignore"):
                    lvals = numpy.log(fd.ravel())[tix]
                wv = numpy.asarray(obs1d).ravel()[tix]
                if numpy.all(numpy.isfinite(lvals)):
                    i = drv.ask(f"c05_soft {','.join(_bits(x) for x in lvals)} {','.join(str(int(x)) for x in wv)} "
                                f"{','.join(_bits(x) for x in loggamma(wv + 1))} {_bits(numpy.sum(fd))}")
                    pending.append((case, mode, "soft64", i, [obs], [0.0], dict(soft=True)))
            except Exception:
                run.count("soft64-statistic-not-evaluated")
        # correspondence with the CHAINED model: events -> C03 gridding -> observed array; forecast array -> C06 float
        # weights + placement of the injected numbers -> simulated arrays; statistics; quantile
        if wide:
            continue                    # the chained / stream models place events with double-precision weights
        if rn is not None and how != "long":
            cost = len(rates1d) * max(1, rn.shape[1]) * rn.shape[0]
            if cost <= CHAIN_BUDGET or spec["rn_seed"] % 20 == 0:
                rowtxt = ";".join(",".join(_bits(x) for x in row) for row in rn) if rn.shape[1] else "-"
                i = drv.ask(f"c05_public {mode} {nm} {_rows(data, _bits)} {ev_txt_mode} {draws_txt} {nsim_call} {rowtxt}")
                gap = min([abs(v - obs) for v in td if not math.isinf(v - obs)] or [math.inf])
                pending.append((case, mode, how + "/chain", i, impl_vals, scales,
                                dict(sims=[[int(c) for c in s] for s in sims], quantile=float(res.quantile), nsim=len(td),
                                     near_tie=gap <= 1e-7 * max(scales + [1.0]))))
                run.count("chain-compared")
            else:
                run.count("chain-skipped-budget")
        if stream is not None and len(rates1d) * max(1, len(stream)) <= CHAIN_BUDGET:
            sttxt = ",".join(_bits(x) for x in stream) if len(stream) else "-"
            i = drv.ask(f"c05_stream {mode} {nm} {_rows(data, _bits)} {ev_txt_mode} {draws_txt if mode == 'L' else '-'} {nsim_call} {sttxt}")
            gap = min([abs(v - obs) for v in td if not math.isinf(v - obs)] or [math.inf])
            pending.append((case, mode, how + "/stream", i, impl_vals, scales,
                            dict(sims=[[int(c) for c in s] for s in sims], quantile=float(res.quantile), nsim=len(td),
                                 near_tie=gap <= 1e-7 * max(scales + [1.0]))))
            run.count("stream-compared")
    if creg is None and spec["rn_seed"] % 7 == 0 and data.size <= 400:
        _array_level(run, drv, pending, case, spec, data, cnt, g)
    if skip:
        return              # the per-event view and the per-cell map mix the user's two conventions by design of that class
    if getattr(cat, "region", None) is not None and getattr(cat.region, "magnitudes", None) is not None and len(spec["events"]) <= 5000:
        _per_event_check(run, drv, pending, case, spec, fore, cat, data, cnt)
    if creg != "none" or getattr(cat, "region", None) is not None:   # the per-cell map needs the catalog's spatial counts
        _cells_check(run, drv, pending, case, fore, cat, data, cnt)


def _private(run, module, name, params):
    """a PRIVATE helper of the tree under test, or None when it is gone / takes other arguments: its direct cases are then
    skipped (histogram `helper-missing:<name>`), the public tests reach the same mechanism"""
    import inspect
    fn = getattr(module, name, None)
    ok = callable(fn)
    if ok:
        try:
            have = inspect.signature(fn).parameters
            ok = all(p_ in have for p_ in params) or any(v.kind == v.VAR_KEYWORD for v in have.values())
        except (TypeError, ValueError):
            ok = True
    if not ok:
        run.count(f"helper-missing:{name}")
        note = (f"private helper {name} is absent or has another signature on the tree under test: its direct cases were skipped, "
                f"the public tests reach the same mechanism")
        if note not in run.assumptions:
            run.assumptions.append(note)
        return None
    return fn


def _array_level(run, drv, pending, case, spec, data, cnt, g):
    """`_poisson_likelihood_test` called directly with every combination of its two documented flags (the public tests use
    three of the four); the statistic is normalised exactly when BOTH are set"""
    from csep.core import poisson_evaluations as pe
    plt = _private(run, pe, "_poisson_likelihood_test", ("forecast_data", "observed_data", "num_simulations", "random_numbers",
                                                         "seed", "use_observed_counts", "verbose", "normalize_likelihood"))
    if plt is None:
        return
    n, rates, counts = int(cnt.sum()), data.ravel(), cnt.ravel()
    for u, nl in ((True, True), (False, True), (True, False), (False, False)):
        if u:
            nsim_call, draws, kw = spec["nsim"], "-", dict(seed=None)
            rn = g.random((nsim_call + (spec["rn_seed"] // 7) % 3, n))      # 0-2 rows more than simulations asked
        else:
            numpy.random.seed(spec["l_seed"])
            n1 = int(numpy.random.poisson(numpy.sum(data)))
            if n1 > 20000:
                continue
            nsim_call, draws, kw = 1, str(n1), dict(seed=spec["l_seed"])
            rn = g.random((1, n1))
        label = f"_poisson_likelihood_test(use_observed_counts={u}, normalize_likelihood={nl})"
        try:
            qs, obs, td = plt(data.copy(), cnt.astype(float), num_simulations=nsim_call, random_numbers=rn,
                                                      use_observed_counts=u, normalize_likelihood=nl, verbose=False, **kw)
            obs, td, qs = float(obs), [float(v) for v in td], float(qs)
        except Exception as e:
            run.oracle_failure(case, f"{label} raised {type(e).__name__}: {e}")
            continue
        run.count(f"array-level-u{int(u)}-n{int(nl)}")
        sims = [_sim_counts(rates, rn[k, :]) for k in range(nsim_call)]
        if len(td) != len(sims):
            run.oracle_failure(case, f"{label}: {len(td)} simulated entries for {len(sims)} simulations")
            continue
        impl_vals, scales = [], []
        for name, c1, val in [("observed", counts, obs)] + [(f"simulated[{k}]", sims[k], td[k]) for k in range(len(sims))]:
            ref, scale, zero_hit = _oracle(rates.tolist(), c1, u and nl)
            impl_vals.append(val)
            scales.append(scale)
            if (val == -math.inf) != zero_hit or (val != -math.inf and not _close(val, ref, scale)):
                run.oracle_failure(case, f"{label} {name}: value {val!r} != sum of log pmf {ref!r}")
        if len(rates) * max(1, rn.shape[1]) * rn.shape[0] <= CHAIN_BUDGET:
            rowtxt = ";".join(",".join(_bits(x) for x in row) for row in rn) if rn.shape[1] else "-"
            i = drv.ask(f"c05_run {int(u)} {int(nl)} {','.join(_bits(x) for x in rates)} {','.join(str(int(c)) for c in counts)} "
                        f"{draws} {nsim_call} {rowtxt}")
            gap = min([abs(v - obs) for v in td if not math.isinf(v - obs)] or [math.inf])
            pending.append((case, f"u{int(u)}n{int(nl)}", "array-level", i, impl_vals, scales,
                            dict(sims=[[int(c) for c in s1] for s1 in sims], quantile=qs, nsim=len(td),
                                 near_tie=gap <= 1e-7 * max(scales + [1.0]))))


def _per_event_check(run, drv, pending, case, spec, fore, cat, data, cnt):
    """round 4: the per-event view of the same statistic. `forecast.target_event_rates(catalog)` (forecasts.py:286-358) returns,
    event by event, the rate of the event's OWN (cell, magnitude bin); the L / CL statistic is
    sum(log(rates)) - sum(loggamma(w + 1)) - N_fore (PoissonTest.stat_L_eq_sum_log_target_event_rates).  Checked: the rates are
    exactly the forecast's entries at the events' bins, in catalog order (oracle + model `c05_ter`), and the identity holds
    against the definition's value."""
    try:
        with numpy.errstate(all="ignore"):
            rates, n_fore = fore.target_event_rates(cat, scale=False)
        rates = numpy.asarray(rates, dtype=float).ravel()
    except Exception as e:
        run.oracle_failure(case, f"target_event_rates raised {type(e).__name__}: {e}")
        return
    want = [float(data[e[0], e[1]]) for e in spec["events"]]
    run.count("per-event-view-checked")
    if len(rates) != len(want) or any(abs(a - b) > 1e-12 * abs(b) for a, b in zip(rates, want)):
        run.oracle_failure(case, f"target_event_rates: {rates.tolist()[:6]}... is not the list of the forecast's rates at the events' "
                                 f"own bins {want[:6]}...")
        return
    tot = math.fsum(data.ravel().tolist())
    wide = spec.get("dtype") == "float32"
    if not abs(float(n_fore) - tot) <= (1e-5 if wide else 1e-9) * tot:
        run.oracle_failure(case, f"target_event_rates: expected number {float(n_fore)!r} but the forecast's rates sum to {tot!r}")
        return
    ref, scale, zero_hit = _oracle(data.ravel().tolist(), cnt.ravel(), False)
    if wide:
        scale = 1e7 * (scale + abs(ref if math.isfinite(ref) else 0.0) + 1.0)
    if not zero_hit and len(want):
        val = math.fsum(math.log(r) for r in want) - math.fsum(math.lgamma(c + 1) for c in cnt.ravel().tolist()) - float(n_fore)
        if not _close(val, ref, scale):
            run.oracle_failure(case, f"per-event view: sum(log(target_event_rates)) - sum(loggamma(w+1)) - N_fore = {val!r} but the "
                                     f"sum of log pmf over all bins is {ref!r}")
    if len(want) <= 400:
        evtxt = ",".join(f"{e[0]}:{e[1]}" for e in spec["events"]) if spec["events"] else "-"
        i = drv.ask(f"c05_ter {_rows(data, _bits)} {evtxt}")
        pending.append((case, "ter", "target_event_rates", i, [float(r) for r in rates], [0.0] * len(rates), dict(ter=True)))


def _cells_check(run, drv, pending, case, fore, cat, data, cnt):
    """poisson_spatial_likelihood: per-cell log pmf(w | rate * N_obs/N_fore). Checked where the definition is finite in
    every cell (all spatial rates positive, catalog not empty); elsewhere only counted (0*log 0 = nan, see notes)."""
    from csep.core import poisson_evaluations as pe
    from scipy.stats import poisson
    n = int(cnt.sum())
    srates = [math.fsum(r) for r in data.tolist()]
    try:
        with numpy.errstate(all="ignore"):
            poll = numpy.asarray(pe.poisson_spatial_likelihood(fore, cat), dtype=float)
    except Exception as e:
        run.oracle_failure(case, f"poisson_spatial_likelihood raised {type(e).__name__}: {e}")
        return
    s = n / math.fsum(srates)
    w = cnt.sum(axis=1)
    lam = numpy.array([r * s for r in srates])
    scales = [float(l + c * abs(math.log(l)) + math.lgamma(c + 1)) if l > 0 else float(c + 1) for l, c in zip(lam, w)]
    if numpy.asarray(fore.data).dtype == numpy.float32:
        scales = [1e7 * (sc + 1.0) for sc in scales]                # single-precision forecast: float32 accuracy
    if poll.shape != lam.shape:
        run.oracle_failure(case, f"poisson_spatial_likelihood: shape {poll.shape} for {len(srates)} cells")
        return
    if n == 0 or min(srates) <= 0.0 or float(numpy.min(lam)) <= 0.0:
        # (also when a subnormal spatial rate times the scale underflows to 0: the float map then meets 0 * log 0 in that empty cell)
        # outside the domain of the definition-oracle (0 * log 0 = nan in the code, see notes): no oracle, but round 4
        # compares these maps too with the Float instance of the faithful model (nan for nan, -inf for -inf)
        run.count("cells-outside-domain")
        run.extra["cells_nan_outside_domain"] = run.extra.get("cells_nan_outside_domain", 0) + int(numpy.isnan(poll).sum())
    else:
        run.count("cells-checked")
        ref = poisson.logpmf(w, lam)
        bad = [k for k in range(len(ref)) if not _close(float(poll[k]), float(ref[k]), scales[k])]
        if bad:
            k = bad[0]
            run.oracle_failure(case, f"poisson_spatial_likelihood cell {k}: {float(poll[k])!r} != log pmf {float(ref[k])!r}")
    i = drv.ask(f"c05_cells {_rows(data, _bits)} {_rows(cnt, lambda c: str(int(c)))}")
    pending.append((case, "cells", "poisson_spatial_likelihood", i, [float(x) for x in poll], scales, None))


def _flush_chain(run, case, mode, how, line, impl_vals, scales, extra):
    """chained model: `stats|simulated arrays|k:n`; session model: one value per test step of the history"""
    if extra.get("soft"):
        import fractions
        try:
            same = float(fractions.Fraction(line)) == impl_vals[0]
        except Exception:
            same = False
        run.count("soft64-statistic-bitexact" if same else "soft64-statistic-differs-within-bound")
        run.extra["bitexact_agreement_soft64_statistic"] = run.extra.get("bitexact_agreement_soft64_statistic", 0) + int(same)
        return
    if extra.get("ter"):
        model = [] if line == "-" else [_unbits(t) if t.isdigit() else None for t in line.split(",")]
        if len(model) != len(impl_vals) or any(m is None or abs(v - m) > 1e-12 * abs(m) for v, m in zip(impl_vals, model)):
            run.mismatch(dict(case, mode=mode, how=how), [repr(v) for v in impl_vals], line[:300])
        return
    if "session_labels" in extra:
        toks = line.split(" ") if line != "-" else []
        model = [(-math.inf if t == "ninf" else _unbits(t)) if (t == "ninf" or t.isdigit()) else None for t in toks]
        if len(model) != len(impl_vals):
            run.mismatch(dict(case, mode=mode), dict(tests=len(impl_vals)), dict(tests=len(model), line=line[:200]))
            return
        run.count("session-history-compared-with-model")
        run.count("session-tests-compared-with-model", len(model))
        for lab, v, m, sc in zip(extra["session_labels"], impl_vals, model, scales):
            if m is None or not _close(v, m, sc):
                run.mismatch(dict(case, mode=mode, how=lab), repr(v), repr(m))
                return
        return
    parts = line.split("|")
    if len(parts) != 3:
        run.mismatch(dict(case, mode=mode, how=how), dict(values=[repr(v) for v in impl_vals]), line)
        return
    toks = parts[0].split(" ")
    model = [(-math.inf if t == "ninf" else _unbits(t)) if (t == "ninf" or t.isdigit()) else None for t in toks]
    arrs = [] if parts[1] == "-" else [[] if a == "-" else [int(x) for x in a.split(",")] for a in parts[1].split(";")]
    ok = len(model) == len(impl_vals) and all(m is not None and _close(v, m, s) for v, m, s in zip(impl_vals, model, scales))
    if not ok:
        run.mismatch(dict(case, mode=mode, how=how), [repr(v) for v in impl_vals], [repr(m) for m in model])
        return
    if arrs != extra["sims"]:
        run.mismatch(dict(case, mode=mode, how=how), dict(simulated_catalogs=extra["sims"]), dict(simulated_catalogs=arrs))
        return
    k, n = parts[2].split(":")
    if int(n) != extra["nsim"]:
        run.mismatch(dict(case, mode=mode, how=how), dict(nsim=extra["nsim"]), dict(nsim=int(n)))
    elif not extra["near_tie"] and abs(extra["quantile"] - int(k) / int(n)) > 1e-12:
        run.mismatch(dict(case, mode=mode, how=how), dict(quantile=extra["quantile"]), dict(quantile=parts[2]))
    for v, m in zip(impl_vals, model):
        _track("model", v, m)


def _flush(run, drv, pending):
    out = drv.run()
    for case, mode, how, i, impl_vals, scales, extra in pending:
        if extra is not None:
            try:
                _flush_chain(run, case, mode, how, out[i], impl_vals, scales, extra)
            except Exception as e:
                run.oracle_failure(case, f"{mode}/{how}: output could not be compared with the model ({type(e).__name__}: {e})")
            continue
        toks = out[i].replace(",", " ").split(" ")
        model = [(-math.inf if t == "ninf" else _unbits(t)) if (t == "ninf" or t.isdigit()) else None for t in toks]
        # per-cell map outside its domain: the faithful model says nan (0 * log 0); the code may say nan too or, should the
        # defect described in notes/C05.md be repaired (xlogy), the definition's value log pmf(0 | 0) = 0
        ok = len(model) == len(impl_vals) and all(m is not None and (_close(v, m, s) or (mode == "cells" and math.isnan(m)
                                                                                        and (math.isnan(v) or v == 0.0)))
                                                  for v, m, s in zip(impl_vals, model, scales))
        if not ok:
            run.mismatch(dict(case, mode=mode, how=how), [repr(v) for v in impl_vals], [repr(m) for m in model])
        else:
            for v, m in zip(impl_vals, model):
                _track("model", v, m)
    run.extra["max_rel_dev_impl_vs_oracle"] = _DEV["oracle"]
    run.extra["max_rel_dev_impl_vs_lean_float"] = _DEV["model"]
    pending.clear()


def _guarded_eval(run, drv, pending, spec, tag="gen"):
    """a harness crash is a missed detection: whatever goes wrong while implementation outputs are processed is reported as a
    deviation with the case as replay"""
    try:
        _eval_case(run, drv, pending, spec, tag=tag)
    except (KeyboardInterrupt, SystemExit):
        raise
    except Exception as e:
        run.oracle_failure(dict(spec=spec, tag=tag), f"output of the implementation could not be processed "
                                                     f"({type(e).__name__}: {str(e)[:200]})")


def run(run, rng, tier):
    drv, pending = Driver(), []
    n_cases = 900 if tier == "quick" else 12000
    # fixed boundary cases first
    for spec in _corpus_specs():
        _guarded_eval(run, drv, pending, spec, tag="corpus")
    for spec in _fixed_specs():
        _guarded_eval(run, drv, pending, spec, tag="fixed")
    for k in range(n_cases):
        _guarded_eval(run, drv, pending, _gen_spec(rng, tier))
        if len(pending) >= 400:
            _flush(run, drv, pending)
            drv = Driver()
    _flush(run, drv, pending)
    # histories on shared objects (harness/c05_session.py)
    from . import c05_session
    drv = Driver()
    for k in range(70 if tier == "quick" else 900):
        spec = c05_session.gen_session(rng, tier)
        try:
            c05_session.eval_session(run, drv, pending, spec)
        except Exception as e:   # a harness crash is a missed detection: report with the session as replay
            run.oracle_failure(dict(session=spec), f"session could not be evaluated ({type(e).__name__}: {str(e)[:200]})")
        if len(pending) >= 400:
            _flush(run, drv, pending)
            drv = Driver()
    _flush(run, drv, pending)
    run.assumptions.append("events lie at interior points of cells / magnitude bins, at 1e-8..1e-4 below an upper edge, or exactly on a "
                           "lower magnitude edge; never inside the binning routine's round-off band just below an edge (~1e-14 "
                           "here; which bin such a point gets is C01/C02's subject)")
    run.assumptions.append("injected random numbers lie in [0, 1)")
    run.extra["copy_forms_unsupported_by_the_tree_under_test"] = sorted(_COPY_UNSUPPORTED)


def _corpus_specs():
    """minimised past failures / permanent witnesses: corpus/C05/*.json, each {"spec": {...}} (same layout as a replay case)"""
    import glob
    import json
    import os
    d = os.path.join(os.path.dirname(os.path.dirname(os.path.abspath(__file__))), "corpus", "C05")
    return [json.load(open(f))["spec"] for f in sorted(glob.glob(os.path.join(d, "*.json")))]


def _fixed_specs():
    """hand-made boundary cases: the suite's 2x2 all-ones example, a single cell, an event in a zero-rate bin whose
    marginals are positive, every event in one bin"""
    def spec(data, events, **kw):
        d = dict(ns=len(data), nm=len(data[0]), cls="fixed", ncls="fixed",
                 data=[[float(x).hex() for x in row] for row in data],
                 events=[[i, j, (0.5).hex(), (0.5).hex(), (0.5).hex()] for i, j in events],
                 nx=1, dh=0.1, x0=0.0, y0=0.0, m0=4.95, dm=0.1, nsim=2, rn_seed=1, l_seed=7, same_region=True,
                 rn_edge=False)
        d.update(kw)
        return d
    return [
        spec([[1.0, 1.0], [1.0, 1.0]], [(0, 0), (0, 1), (1, 0), (1, 1)]),
        spec([[2.5]], [(0, 0)] * 5),
        spec([[0.0, 1.0], [2.0, 3.0]], [(0, 0), (1, 1), (1, 1)]),       # L, CL = -inf; S and M finite
        spec([[0.0, 0.0], [2.0, 3.0]], [(0, 1), (1, 1)]),               # zero spatial marginal holds an event
        spec([[1e-12, 1e3], [1e3, 1e-12]], [(0, 0)] * 40),
        spec([[0.3, 0.7, 0.0]], []),
        # sizes: more than 65535 events in ONE bin (and in the catalog); more than 65536 bins (not a multiple of 65536)
        spec([[1000.0, 3.0], [5.0, 70000.0]], [(1, 1)] * 70001 + [(0, 0)] * 3, nsim=1, rn_seed=3),
        spec([[0.5 if (k % 7 == 0 and j == 3) else 1e-3 for j in range(7)] for k in range(10001)],
             [(k * 13 % 10001, k % 7) for k in range(40)], nx=100, nsim=1, rn_seed=7),
        # round 6: more than 2^16 TARGET bins (66 000 events, each in a bin of its own; one event more makes a bin with two)
        spec([[0.5 if (k % 7 == 0 and j == 3) else 2e-3 for j in range(7)] for k in range(10001)],
             [(k % 10001, k // 10001) for k in range(66000)] + [(5, 0)], nx=100, nsim=1, rn_seed=8),
    ]


def replay(run, payload):
    case = payload["case"]
    drv, pending = Driver(), []
    if "session" in case:
        from . import c05_session
        c05_session.eval_session(run, drv, pending, case["session"], tag="replay")
        _flush(run, drv, pending)
        return
    spec = case["spec"] if "spec" in case else case
    _eval_case(run, drv, pending, spec, tag="replay")
    _flush(run, drv, pending)
