"""C05 — Poisson L / CL / S / M statistics: correspondence of csep.core.poisson_evaluations with Model/PoissonLL.lean
(Float instance) + direct oracle (sum of scipy.stats.poisson.logpmf over ALL bins, math.fsum)."""
import contextlib
import io
import math
import random
import struct

import numpy

from .core import Driver

LEVEL_TEXT = ("Proof over the reals: the code-shaped statistic (sum over target bins of w*log(rate) minus log w!, minus the "
              "expected count) equals the sum over ALL bins of log Poisson-pmf(count | rate) for every rate array and count "
              "array (any shape, kernel-checked by induction over lists), for the unscaled variant (L, CL) and for the "
              "variant scaled by N_obs/N_fore (S, M: spatial and magnitude marginals); the value is -inf exactly when an "
              "event lies in a zero-rate bin; marginals sum to the total. Tied to the code by a numerical correspondence of "
              "the same definition instantiated at Float with the four public tests (observed statistic and every simulated "
              "entry, random numbers injected) and by a direct scipy logpmf oracle.")
LEVEL_NOTE = ("Floating-point rounding of log / loggamma / sums is not modelled: theorems are about real numbers, the Float "
              "instance is compared with numpy/scipy to 1e-9 relative (plus 1e-13 of the magnitude of the cancelling terms). "
              "Which cell a simulated event falls into (cumsum + searchsorted) is C06's subject: the harness recomputes the "
              "simulated count arrays from the injected numbers with numpy.")
DESIGN_REF = "DESIGN.md §4 C05"
TECHNIQUE = "Lean 4 theorems over Mathlib reals (generic RealOps model) + differential testing of the Float instance + scipy oracle"

THEOREMS = ["PoissonLL.stat_eq_sum_logpmf", "PoissonLL.jointLL_eq_sum_logpmf", "PoissonLL.stat_norm_eq_sum_logpmf",
            "PoissonLL.stat_negInf_iff", "PoissonLL.marginals_sum_to_total", "PoissonLL.stat_L_eq",
            "PoissonLL.stat_CL_eq", "PoissonLL.stat_S_eq", "PoissonLL.stat_M_eq", "PoissonLL.sim_entry_is_stat",
            "PoissonLL.scaled_rates_sum_to_nobs", "PoissonLL.logPmf_eq_cell", "PoissonLL.stat_nonpos",
            "PoissonLL.stat_norm_scale_invariant", "PoissonLL.poissonPmf_le_one", "PoissonLL.poissonCell_eq_logpmf",
            "PoissonLL.spatialMap_sum_eq_stat_S",
            # round 4 (Properties/C05_Chain.lean): the whole test as one function, catalog -> counts -> simulation -> statistic
            "PoissonTest.run_spec", "PoissonTest.run_total", "PoissonTest.sim_entries_eq_sum_logpmf",
            "PoissonTest.sim_entries_eq_sum_logpmf_norm", "PoissonTest.sim_entries_finite",
            "PoissonTest.observed_arrays_of_one_matrix", "PoissonTest.public_observed_eq_testStat",
            "PoissonTest.stat_unnorm_scaling", "PoissonTest.stat_S_depends_only_on_spatial_sums",
            "PoissonTest.stat_M_depends_only_on_magnitude_sums", "PoissonTest.poissonLogLikelihood_eq_logPmf",
            "PoissonTest.stat_eq_sum_poissonLogLikelihood",
            # round 5 (Properties/C05_Session.lean): histories on shared objects
            "PoissonSession.eval_preserves_observables", "PoissonSession.evaluations_irrelevant",
            "PoissonSession.scale_absolute", "PoissonSession.data_after_scale", "PoissonSession.new_forecast_rebinds",
            "PoissonSession.test_binds_region", "PoissonSession.runOps_test_head"]
TRUSTED = ["Lean 4.33 kernel", "axioms: propext, Classical.choice, Quot.sound at most",
           "Real.log / Real.exp / Nat.factorial stand for numpy.log, scipy.special.loggamma(n+1) (RealOps); rounding of "
           "these functions and of float sums is not modelled, the Float instance is compared numerically on every run",
           "numpy.cumsum / numpy.searchsorted place simulated events (C06); the harness recomputes the simulated count "
           "arrays with the same numpy calls", "numpy.random legacy stream order (seed -> poisson -> rand) for the L-test "
           "without injection", "gridding of interior points by CSEPCatalog / CartesianGrid2D (C01-C03)",
           "harness/c05.py generators, oracle and comparison; driver parsing (Proto.lean, Drive/C05.lean)"]
RULE = ("random gridded forecasts of shape (1..40)x(1..8), rates 10^U(-12,3) (classes: wide, tiny, huge, near-1) with 0-20% exact "
        "zeros, sometimes a whole zero row/column (zero marginal); catalogs of 0..300 events at interior points of cells and "
        "magnitude bins, clustered on few bins (several per bin) or spread, N_obs classes 0, 1, ~N_fore, up to 50*N_fore, 300; "
        "with or without events in zero-rate bins; CL/S/M with injected random_numbers, L with injected numbers "
        "(one simulation, width = the seeded Poisson draw) and with a seed (stream replicated); 37% of forecasts hold data/c and are "
        "scaled by c (GriddedDataSet.scale), 15% of catalogs put last-bin events far above the last magnitude edge; 45% of the rate arrays "
        "are not C-contiguous (Fortran order, transposed view, strided slices of larger arrays, negative strides); in 60% of the "
        "catalogs a share of the events lies 1e-8..1e-4 below an upper magnitude / cell edge or exactly on a lower magnitude edge "
        "(counted in the half-open bin that contains them); round 4: catalogs bound to no region (M-test) or to a region "
        "without magnitudes (S, M), exact duplicate events, integer-valued rates in an int64 array, verbose runs of 100-130 "
        "simulations, a second scale() of the same forecast object followed by more tests; every injected call is also run "
        "through the chained Lean model (events -> gridding -> counts; float weights -> placement -> simulated catalogs -> "
        "statistics -> quantile) and the simulated catalogs are compared exactly. A case is non-trivial when "
        "some bin holds >= 2 events and N_obs != N_fore; distinct by (rate bits, counts).")

MODES = ("L", "CL", "S", "M")
# input classes on which the unchanged code misbehaves and whose treatment is undecided: none at present (the region
# fallback of the L / CL tests was repaired in /repo, D40, and is part of the generators now)
AWAITING_DECISION = []
# budget of the chained Lean op (Soft64 weights + placement are exact rational arithmetic): bins * events * simulations
CHAIN_BUDGET = 12000
# memory layouts of the forecast's 2-D rate array (same values, same shape): C-contiguous, Fortran-ordered, the transposed
# view of a (mag, cell) table, non-contiguous slices of larger arrays (the surrounding memory holds other numbers),
# reversed (negative strides) views
LAYOUTS = ["F", "F", "T", "T", "slice-cols", "slice-rows", "slice-F", "rev", "rev-rows"]
# distances below an upper bin / cell edge: outside the binning routine's round-off band, inside any "practically on the
# edge" absolute tolerance someone might introduce
EDGE_DELTAS = [1e-6, 1e-6, 4e-6, 5e-6, 9e-6, 2e-6, 1e-5, 3e-5, 1e-4, 1e-7, 1e-8]
_FILL = 12345.678


def _with_layout(data, layout):
    """a new array equal to `data` element by element, with the requested memory layout"""
    data = numpy.asarray(data, dtype=float)
    ns, nm = data.shape
    if layout == "C":
        a = data.copy()
    elif layout == "F":
        a = numpy.asfortranarray(data.copy())
    elif layout == "T":
        a = numpy.ascontiguousarray(data.T).T
    elif layout == "slice-cols":
        big = numpy.full((ns, 2 * nm + 1), _FILL)
        big[:, 1::2] = data
        a = big[:, 1::2]
    elif layout == "slice-rows":
        big = numpy.full((2 * ns + 1, nm + 1), _FILL)
        big[1::2, :nm] = data
        a = big[1::2, :nm]
    elif layout == "slice-F":
        big = numpy.full((ns + 2, nm + 3), _FILL, order="F")
        big[1:ns + 1, 2:nm + 2] = data
        a = big[1:ns + 1, 2:nm + 2]
    elif layout == "rev":
        a = data[::-1, ::-1].copy()[::-1, ::-1]
    elif layout == "rev-rows":
        a = data[::-1, :].copy()[::-1, :]
    else:
        raise ValueError(layout)
    assert a.shape == data.shape and numpy.array_equal(a, data)
    return a


# ----------------------------------------------------------------------------- helpers
_DEV = {"oracle": 0.0, "model": 0.0}


def _track(kind, a, b):
    if a != b and math.isfinite(a) and math.isfinite(b):
        _DEV[kind] = max(_DEV[kind], abs(a - b) / max(abs(a), abs(b), 1e-300))


def _bits(x):
    return str(struct.unpack("<Q", struct.pack("<d", float(x)))[0])


def _unbits(s):
    return struct.unpack("<d", struct.pack("<Q", int(s)))[0]


def _rows(a, f):
    return ";".join(",".join(f(x) for x in row) for row in a)


def _close(a, b, scale):
    """1e-9 relative (+ 1e-13 of the magnitude of the terms that cancel in the code's formula); -inf exactly"""
    if a == b:
        return True
    if math.isinf(a) or math.isinf(b) or math.isnan(a) or math.isnan(b):
        return False
    return abs(a - b) <= 1e-9 * max(abs(a), abs(b)) + 1e-13 * scale + 1e-300


def _oracle(rates, counts, normalise):
    """Sum over ALL bins of log pmf(count | rate [* N_obs/N_fore]); returns (value, scale of cancelling terms, has_zero_hit)"""
    from scipy.stats import poisson
    rates = [float(r) for r in rates]
    counts = [int(c) for c in counts]
    n_fore = math.fsum(rates)
    n_obs = sum(counts)
    s = (n_obs / n_fore) if normalise else 1.0
    lam = numpy.array([r * s for r in rates]) if normalise else numpy.array(rates)
    w = numpy.array(counts)
    zero_hit = bool(numpy.any((w > 0) & (numpy.array(rates) == 0.0)))
    with numpy.errstate(all="ignore"):
        lp = poisson.logpmf(w, lam)
    # the pmf at rate 0 is the point mass at 0
    lp = numpy.where(lam == 0.0, numpy.where(w == 0, 0.0, -numpy.inf), lp)
    if numpy.any(numpy.isneginf(lp)):
        val = -math.inf
    else:
        val = math.fsum(lp.tolist())
    with numpy.errstate(all="ignore"):
        tl = numpy.where(w > 0, w * numpy.abs(numpy.log(numpy.where(lam > 0, lam, 1.0))), 0.0)
    scale = float(tl.sum()) + math.fsum(math.lgamma(c + 1) for c in counts) + (n_obs if normalise else n_fore)
    return val, scale, zero_hit


# ----------------------------------------------------------------------------- case generation
def _gen_spec(rng, tier):
    ns = rng.choice([1, 1, 2, 3, 5, 8, 13, 20, 40, rng.randint(1, 40), rng.randint(1, 40)])
    nm = rng.choice([1, 1, 2, 3, 8, rng.randint(1, 8)])
    cls = rng.choice(["wide", "wide", "wide", "tiny", "huge", "near1", "mixed-extremes", "subeps"])
    zfrac = rng.choice([0.0, 0.0, rng.uniform(0, 0.2), 0.2])
    g = numpy.random.default_rng(rng.randrange(2 ** 32))
    if cls == "wide":
        data = 10.0 ** g.uniform(-12, 3, size=(ns, nm))
    elif cls == "tiny":
        data = 10.0 ** g.uniform(-12, -8, size=(ns, nm))
    elif cls == "huge":
        data = 10.0 ** g.uniform(1, 3, size=(ns, nm))
    elif cls == "near1":
        data = 10.0 ** g.uniform(-1, 1, size=(ns, nm))
    elif cls == "subeps":
        # positive rates far below machine epsilon (1e-300 .. 1e-8) next to ordinary rates
        data = numpy.where(g.random((ns, nm)) < 0.4, 10.0 ** g.uniform(-300, -8, size=(ns, nm)), 10.0 ** g.uniform(-1, 1, size=(ns, nm)))
    else:
        data = numpy.where(g.random((ns, nm)) < 0.5, 1e-12, 1e3) * g.choice([1.0, 1.0, 0.999999], size=(ns, nm))
    data = numpy.where(g.random((ns, nm)) < zfrac, 0.0, data)
    # integer-valued rates held in an int64 array (counts-like forecasts): same numbers, another dtype
    dtype = "int64" if (cls in ("huge", "near1") and rng.random() < 0.25) else "float64"
    if dtype == "int64":
        data = numpy.rint(data)
    k = rng.random()
    if k < 0.12 and ns > 1:
        data[rng.randrange(ns), :] = 0.0          # a cell with zero spatial marginal
    elif k < 0.24 and nm > 1:
        data[:, rng.randrange(nm)] = 0.0          # a magnitude bin with zero marginal
    if not (data > 0).any():
        data[rng.randrange(ns), rng.randrange(nm)] = 10.0 ** rng.uniform(-12, 3) if dtype == "float64" else float(rng.randint(1, 9))
    n_fore = float(data.sum())
    # number of observed events
    ncls = rng.choice(["zero", "one", "near-fore", "far-above", "max", "small", "any"])
    if ncls == "zero":
        n = 0
    elif ncls == "one":
        n = 1
    elif ncls == "near-fore":
        n = min(300, max(0, int(round(n_fore)) + rng.randint(-1, 1)))
    elif ncls == "far-above":
        n = min(300, max(1, int(math.ceil(n_fore * rng.uniform(5, 50)))))
    elif ncls == "max":
        n = 300
    elif ncls == "small":
        n = rng.randint(2, 12)
    else:
        n = rng.randint(0, 300)
    # which bins may hold events
    allow_zero = rng.random() < 0.3
    flat = [(i, j) for i in range(ns) for j in range(nm) if allow_zero or data[i, j] > 0]
    nbins = min(len(flat), rng.choice([1, 2, 3, len(flat), rng.randint(1, len(flat))]))
    chosen = rng.sample(flat, nbins)
    forced = None
    if rng.random() < 0.15 and ns * nm > 1 and n > 0:
        # force an event into a zero-rate bin (making one if the array has none): the statistic must be -inf
        zeros = [(i, j) for i in range(ns) for j in range(nm) if data[i, j] == 0.0]
        forced = rng.choice(zeros) if zeros else (rng.randrange(ns), rng.randrange(nm))
        data[forced] = 0.0
        if not (data > 0).any():
            q = rng.choice([q for q in range(ns * nm) if (q // nm, q % nm) != forced])
            data[q // nm, q % nm] = 10.0 ** rng.uniform(-12, 3) if dtype == "float64" else float(rng.randint(1, 9))
        chosen = [c for c in chosen if data[c] > 0 or allow_zero] + [forced]
    events = []
    # share of events placed a little BELOW the upper edge of their magnitude bin / cell (outside the round-off band of the
    # binning routine, which is ~1e-14 here, but within 1e-4 of the edge) or exactly ON the lower magnitude edge
    edge_share = rng.choice([0.0, 0.0, 0.1, 0.3, 1.0])
    # round 4: exact duplicates (same coordinates and magnitude, optionally the same origin time): each one is an event
    dup_share = rng.choice([0.0, 0.0, 0.0, 0.2, 0.6])
    for e in range(n):
        i, j = forced if (forced is not None and e == 0) else rng.choice(chosen)
        ev = [i, j, rng.uniform(0.2, 0.8), rng.uniform(0.2, 0.8), rng.uniform(0.2, 0.8)]
        if rng.random() < edge_share:
            ev.append(rng.choice(["m", "m", "m", "m", "x", "y", "xy", "xym", "mon"]) + ":" + repr(rng.choice(EDGE_DELTAS)))
        if events and rng.random() < dup_share and not (forced is not None and e == 0):
            ev = list(events[-1])          # an exact duplicate of the previous event (location, magnitude; see `dup_time`)
        events.append(ev)
    nx = rng.randint(1, ns)
    spec = dict(
        ns=ns, nm=nm, cls=cls, ncls=ncls, data=[[float(x).hex() for x in row] for row in data],
        events=[[e[0], e[1], e[2].hex(), e[3].hex(), e[4].hex()] + e[5:] for e in events],
        layout=rng.choice(LAYOUTS) if rng.random() < 0.45 else "C",
        nx=nx, dh=rng.choice([0.1, 0.5, 1.0]), x0=float(rng.randint(-20, 20)), y0=float(rng.randint(-20, 20)),
        m0=rng.choice([2.5, 4.0, 4.95]), dm=rng.choice([0.1, 0.5, 1.0]),
        nsim=rng.choice([1, 2, 3]) if tier == "quick" else rng.choice([1, 2, 3, 5]),
        rn_seed=rng.randrange(2 ** 32), l_seed=rng.randrange(2 ** 31), same_region=rng.random() < 0.5,
        rn_edge=rng.random() < 0.2, fscale=rng.choice([None, None, None, 2.0, 0.5, 10.0, 3.0, 0.1]),
        open_mag=rng.random() < 0.15)
    # round 4: what region the catalog is bound to (None = the forecast's / an equal copy as before; "none" = no region at
    # all: only the M-test is defined for it; "spatial-only" = a region without magnitudes: S- and M-test), the array dtype,
    # and a rare long verbose run (>= 100 simulations, progress printing on)
    spec["cat_region"] = rng.choice([None] * 8 + ["none", "spatial-only"])
    spec["dtype"] = dtype
    if dtype == "int64":
        spec["fscale"] = None
    spec["long_run"] = rng.random() < (0.02 if tier == "quick" else 0.01)
    spec["dup_time"] = rng.random() < 0.5
    spec["open_far"] = rng.choice([4.0, 4.0, 60.0, 1000.0])       # how far above the last edge an open-bin event may lie (bin widths)
    # after the five calls: re-scale the SAME forecast object and test again (state kept on the forecast between calls)
    spec["rescale_after"] = rng.choice([None] * 6 + [0.5, 3.0, 7.0]) if dtype == "float64" else None
    return spec


_BUILD_INFO = {}


def _build(spec):
    from csep.core.catalogs import CSEPCatalog
    from csep.core.forecasts import GriddedForecast
    from csep.core.regions import CartesianGrid2D
    ns, nm, nx, dh = spec["ns"], spec["nm"], spec["nx"], spec["dh"]
    data = numpy.array([[float.fromhex(x) for x in row] for row in spec["data"]], dtype=float).reshape(ns, nm)
    origins = numpy.array([[spec["x0"] + dh * (k % nx), spec["y0"] + dh * (k // nx)] for k in range(ns)])
    mags = [spec["m0"] + spec["dm"] * k for k in range(nm)]
    region = CartesianGrid2D.from_origins(origins, dh=dh, magnitudes=mags)
    c = spec.get("fscale")
    layout = spec.get("layout", "C")
    if c:
        # the forecast holds data/c and is scaled by c (GriddedDataSet.scale): the rates under test are `fore.data`
        fore = GriddedForecast(data=_with_layout(data / c, layout), region=region, magnitudes=mags, name="forecast").scale(c)
        data = numpy.array(fore.data, dtype=float)
    else:
        # the forecast's array and the harness's array are two separate arrays with the same values and memory layout
        arr = _with_layout(data, layout)
        if spec.get("dtype") == "int64":
            arr = arr.astype(numpy.int64)
            assert numpy.array_equal(arr, data)
        fore = GriddedForecast(data=arr, region=region, magnitudes=mags, name="forecast")
        data = _with_layout(data, layout) if layout != "C" else data.copy()
    cnt = numpy.zeros((ns, nm), dtype=int)
    ev = []
    ndup = 0
    for k, e in enumerate(spec["events"]):
        i, j = e[0], e[1]
        fx, fy, fm = float.fromhex(e[2]), float.fromhex(e[3]), float.fromhex(e[4])
        lon = origins[i, 0] + dh * fx
        lat = origins[i, 1] + dh * fy
        mag = mags[j] + spec["dm"] * fm
        if spec.get("open_mag") and j == nm - 1:
            mag = mags[j] + spec["dm"] * (1.0 + spec.get("open_far", 4.0) * fm)   # the last magnitude bin is open-ended
        if len(e) > 5:
            # an event a little below the upper edge of its magnitude bin / cell (or exactly on the lower magnitude edge):
            # by the half-open bins [m_k, m_k+1), [x, x + dh) it belongs to bin (i, j) in every test
            axes, d = e[5].split(":")
            d = float(d)
            if axes == "mon":
                mag = mags[j]
            elif "m" in axes:
                mag = (mags[j + 1] if j + 1 < nm else mags[j] + spec["dm"]) - d
            if "x" in axes:
                lon = (origins[i, 0] + dh) - d
            if "y" in axes:
                lat = (origins[i, 1] + dh) - d
            band = 1e-10   # far above the routine's round-off band (~1e-14 for these magnitudes / coordinates)
            assert mags[j] <= mag and (j + 1 >= nm or mag < mags[j + 1] - band), (mag, mags, j)
            assert origins[i, 0] + band < lon < origins[i, 0] + dh - band and \
                origins[i, 1] + band < lat < origins[i, 1] + dh - band, (lon, lat, origins[i], dh)
        t_k = 1000 * k
        if spec.get("dup_time") and k > 0 and e == spec["events"][k - 1]:
            t_k = ev[-1][1]
        ev.append((str(k), t_k, lat, lon, 10.0, mag))
        if k > 0 and e == spec["events"][k - 1]:
            ndup += 1
        cnt[i, j] += 1
    cat_region = fore.region if spec["same_region"] else CartesianGrid2D.from_origins(origins, dh=dh, magnitudes=mags)
    if spec.get("cat_region") == "none":
        cat_region = None
    elif spec.get("cat_region") == "spatial-only":
        cat_region = CartesianGrid2D.from_origins(origins, dh=dh)
    cat = CSEPCatalog(data=ev, region=cat_region, name="catalog")
    _BUILD_INFO["duplicates"] = ndup
    return fore, cat, data, cnt


@contextlib.contextmanager
def _capture(pe):
    """record the array every call of poisson_evaluations._simulate_catalog returns (nothing in /repo is edited)"""
    rec = []
    orig = getattr(pe, "_simulate_catalog", None)
    if orig is None:
        yield rec
        return

    def wrap(*a, **k):
        out = orig(*a, **k)
        rec.append(numpy.asarray(out).astype(int).ravel().copy())
        return out

    pe._simulate_catalog = wrap
    try:
        yield rec
    finally:
        pe._simulate_catalog = orig


def _sim_counts(rates1d, rn):
    """the simulated count array the code builds from the numbers `rn` (poisson_evaluations.py:_simulate_catalog)"""
    w = numpy.cumsum(rates1d)
    w = w / w[-1]
    idx = numpy.searchsorted(w, rn, side="right")
    return numpy.bincount(idx, minlength=len(rates1d)).astype(int)


def _arrays(mode, data, cnt):
    """(forecast array fed to the statistic, observed count array, normalise flag) for a mode — harness side"""
    if mode in ("L", "CL"):
        return data.ravel(), cnt.ravel(), False
    if mode == "S":
        return data.sum(axis=1), cnt.sum(axis=1), True
    return data.sum(axis=0), cnt.sum(axis=0), True


def _oracle_arrays(mode, data, cnt1d_or_2d, observed):
    """rates (exactly summed marginals) and counts for the direct oracle"""
    rows = data.tolist()
    if mode in ("L", "CL"):
        rates = [x for row in rows for x in row]
    elif mode == "S":
        rates = [math.fsum(row) for row in rows]
    else:
        rates = [math.fsum(col) for col in zip(*rows)]
    return rates


def _eval_case(run, drv, pending, spec, tag="gen"):
    from csep.core import poisson_evaluations as pe
    fore, cat, data, cnt = _build(spec)
    ns, nm, nsim, n = spec["ns"], spec["nm"], spec["nsim"], len(spec["events"])
    g = numpy.random.default_rng(spec["rn_seed"])
    case = dict(spec=spec, tag=tag)
    short = dict(shape=[ns, nm], cls=spec["cls"], ncls=spec["ncls"], n_obs=n, n_fore=float(data.sum()),
                 zeros=int((data == 0).sum()), tag=tag)
    nontriv = bool((cnt >= 2).any()) and abs(n - float(data.sum())) > 0.5
    key = (data.tobytes(), cnt.tobytes()) if nontriv else None
    run.case(short, key)
    run.count(f"rates-{spec['cls']}")
    run.count(f"nobs-{spec['ncls']}")
    run.count(f"shape-{'1' if ns == 1 else 'n'}x{'1' if nm == 1 else 'm'}")
    run.count(f"layout-{spec.get('layout', 'C')}")
    nedge = sum(1 for e in spec["events"] if len(e) > 5)
    if nedge:
        run.count("catalog-with-edge-events")
        for e in spec["events"]:
            if len(e) > 5:
                run.count("edge-event-" + e[5].split(":")[0])
    tests = {"L": pe.likelihood_test, "CL": pe.conditional_likelihood_test, "S": pe.spatial_test, "M": pe.magnitude_test}
    calls = [("CL", "inject"), ("S", "inject"), ("M", "inject"), ("L", "inject1"), ("L", "seed")]
    creg = spec.get("cat_region")
    run.count(f"catalog-region-{creg or ('same' if spec['same_region'] else 'copy')}")
    run.count(f"dtype-{spec.get('dtype', 'float64')}")
    if creg == "none":
        # a catalog bound to no region: the M-test needs none; the L / CL tests bind the forecast's region to the catalog
        # (D40) — afterwards the S-test works on the same catalog object too
        first = [("CL", "inject"), ("L", "inject1")][::1 if spec["rn_seed"] % 2 else -1]
        calls = [("M", "inject")] + first + [("BOUND", None), ("S", "inject"), ("L", "seed")]
    elif creg == "spatial-only":
        # a region without magnitudes: S and M work as they are, L / CL replace it by the forecast's region (D40)
        first = [("CL", "inject"), ("L", "inject1")][::1 if spec["rn_seed"] % 2 else -1]
        calls = [("S", "inject"), ("M", "inject")] + first + [("BOUND", None), ("S", "inject"), ("L", "seed")]
    if creg is None and spec["rn_seed"] % 3 == 0:
        calls.append((("CL", "S", "M")[spec["l_seed"] % 3], "seed"))
    if spec.get("long_run"):
        calls.append((("CL", "S", "M")[spec["rn_seed"] % 3] if creg is None else "M", "long"))
    if spec.get("rescale_after") and creg is None:
        # state kept on the forecast object between calls: re-scale the SAME object, then test again
        calls += [("RESCALE", spec["rescale_after"]), ("CL", "inject"), ("M", "inject"), ("S", "inject")]
    if _BUILD_INFO.get("duplicates"):
        run.count("catalog-with-duplicate-events")
        run.count("duplicate-events", _BUILD_INFO["duplicates"])
    evtxt = ",".join(f"{e[0]}:{e[1]}" for e in spec["events"]) if spec["events"] else "-"
    for mode, how in calls:
        if mode == "BOUND":
            # side effect of the L / CL tests on a catalog without a space-magnitude region: the forecast's region is bound
            reg = getattr(cat, "region", None)
            ok = reg is not None and getattr(reg, "magnitudes", None) is not None and \
                numpy.array_equal(numpy.asarray(reg.magnitudes, dtype=float), numpy.asarray(fore.magnitudes, dtype=float))
            if not ok:
                run.oracle_failure(case, "after likelihood_test / conditional_likelihood_test the observed catalog is not bound "
                                         "to the forecast's space-magnitude region")
            run.count("region-bound-by-test")
            continue
        if mode == "RESCALE":
            fore.scale(how)                                   # GriddedDataSet.scale: data = _data * how from now on
            data = numpy.array(fore.data, dtype=float)
            run.count("rescaled-after-tests")
            continue
        rates1d, obs1d, norm = _arrays(mode, data, cnt)
        sims, rn, draws_txt, nsim_call = [], None, "-", nsim
        try:
            with _capture(pe) as rec:
                if how == "inject":
                    rn = g.random((nsim, n))
                    if spec["rn_edge"] and n > 0:
                        rn[0, 0] = 0.0
                        rn[-1, -1] = math.nextafter(1.0, 0.0)
                    res = tests[mode](fore, cat, num_simulations=nsim, random_numbers=rn)
                    sims = [_sim_counts(rates1d, rn[k, :]) for k in range(nsim)]
                elif how == "long":
                    # >= 100 simulations with the progress printing on (the `(idx + 1) % 100 == 0` branch)
                    nsim_call = 100 + spec["rn_seed"] % 31
                    rn = g.random((nsim_call, n))
                    with contextlib.redirect_stdout(io.StringIO()):
                        res = tests[mode](fore, cat, num_simulations=nsim_call, random_numbers=rn, verbose=True)
                    sims = [_sim_counts(rates1d, rn[k, :]) for k in range(nsim_call)]
                elif how == "inject1":
                    # one simulation: the number of events is the seeded Poisson draw; inject exactly that many numbers
                    numpy.random.seed(spec["l_seed"])
                    n1 = int(numpy.random.poisson(numpy.sum(data)))
                    if n1 > 200000:
                        continue
                    rn = g.random((1, n1))
                    res = tests[mode](fore, cat, num_simulations=1, seed=spec["l_seed"], random_numbers=rn)
                    sims = [_sim_counts(rates1d, rn[0, :])]
                    draws_txt, nsim_call = str(n1), 1
                else:
                    # default random path (no injected numbers): the legacy stream is re-created from the seed —
                    # L: poisson(N_fore) then rand(n) per simulation; conditional tests: rand(N_obs) per simulation
                    nsim_call = nsim if mode == "L" else max(nsim, 2)
                    if mode == "L" and float(data.sum()) * nsim_call > 400000:
                        continue
                    res = tests[mode](fore, cat, num_simulations=nsim_call, seed=spec["l_seed"])
                    numpy.random.seed(spec["l_seed"])
                    for _ in range(nsim_call):
                        nk = int(numpy.random.poisson(numpy.sum(data))) if mode == "L" else n
                        sims.append(_sim_counts(rates1d, numpy.random.rand(nk)))
        except Exception as e:  # the property promises a value for every forecast/catalog in its domain
            run.oracle_failure(case, f"{mode}-test ({how}) raised {type(e).__name__}: {e}")
            continue
        run.count(f"call-{mode}-{how}")
        obs = float(res.observed_statistic)
        td = [float(x) for x in res.test_distribution]
        if len(td) != len(sims):
            run.oracle_failure(case, f"{mode}-test ({how}): test_distribution has {len(td)} entries, {len(sims)} simulations asked")
            continue
        # the simulated catalogs the code itself built (observed by wrapping `_simulate_catalog`); when the function is
        # not called once per simulation (a rewrite may inline it) the harness's own placement stands in
        observed_sims = len(rec) == len(sims) and all(len(r) == len(rates1d) for r in rec)
        if observed_sims:
            run.count("simulated-arrays-observed")
            sims = rec
        orates = _oracle_arrays(mode, data, None, True)
        # observed statistic
        entries = [("observed", obs1d, obs)] + [(f"simulated[{k}]", sims[k], td[k]) for k in range(len(sims))]
        impl_vals, scales = [], []
        for name, counts, val in entries:
            ref, scale, zero_hit = _oracle(orates, counts, norm)
            _track("oracle", val, ref)
            impl_vals.append(val)
            scales.append(scale)
            if (val == -math.inf) != zero_hit:
                run.oracle_failure(case, f"{mode}-test ({how}) {name}: value {val!r} but "
                                         f"{'an' if zero_hit else 'no'} event lies in a zero-rate bin")
            elif not _close(val, ref, scale):
                run.oracle_failure(case, f"{mode}-test ({how}) {name}: value {val!r} != sum of log pmf {ref!r}")
            if val == -math.inf:
                run.count("value-neginf")
            else:
                run.count("value-finite")
        # the reported quantile is the fraction of the RETURNED simulated statistics not exceeding the returned observed one
        if td and not (math.isnan(obs) or any(math.isnan(v) for v in td)):
            kq = sum(1 for v in td if v <= obs)
            if float(res.quantile) != kq / len(td):
                run.oracle_failure(case, f"{mode}-test ({how}): quantile {float(res.quantile)!r} is not {kq}/{len(td)}")
        # correspondence with the Lean Float model
        simtxt = ";".join(",".join(str(int(c)) for c in s) for s in sims) if sims else "-"
        i = drv.ask(f"c05_mode {mode} {_rows(data, _bits)} {_rows(cnt, lambda c: str(int(c)))} {simtxt}")
        pending.append((case, mode, how, i, impl_vals, scales, None))
        # correspondence with the CHAINED model: events -> C03 gridding -> observed array; forecast array -> C06 float
        # weights + placement of the injected numbers -> simulated arrays; statistics; quantile
        if rn is not None and how != "long":
            cost = len(rates1d) * max(1, rn.shape[1]) * rn.shape[0]
            if cost <= CHAIN_BUDGET or spec["rn_seed"] % 20 == 0:
                rowtxt = ";".join(",".join(_bits(x) for x in row) for row in rn) if rn.shape[1] else "-"
                i = drv.ask(f"c05_public {mode} {nm} {_rows(data, _bits)} {evtxt} {draws_txt} {nsim_call} {rowtxt}")
                gap = min([abs(v - obs) for v in td if not math.isinf(v - obs)] or [math.inf])
                pending.append((case, mode, how + "/chain", i, impl_vals, scales,
                                dict(sims=[[int(c) for c in s] for s in sims], quantile=float(res.quantile), nsim=len(td),
                                     near_tie=gap <= 1e-7 * max(scales + [1.0]))))
                run.count("chain-compared")
            else:
                run.count("chain-skipped-budget")
    if creg is None and spec["rn_seed"] % 7 == 0 and data.size <= 400:
        _array_level(run, drv, pending, case, spec, data, cnt, g)
    if creg != "none" or getattr(cat, "region", None) is not None:   # the per-cell map needs the catalog's spatial counts
        _cells_check(run, drv, pending, case, fore, cat, data, cnt)


def _array_level(run, drv, pending, case, spec, data, cnt, g):
    """`_poisson_likelihood_test` called directly with every combination of its two documented flags (the public tests use
    three of the four); the statistic is normalised exactly when BOTH are set"""
    from csep.core import poisson_evaluations as pe
    n, rates, counts = int(cnt.sum()), data.ravel(), cnt.ravel()
    for u, nl in ((True, True), (False, True), (True, False), (False, False)):
        if u:
            nsim_call, draws, kw = spec["nsim"], "-", dict(seed=None)
            rn = g.random((nsim_call, n))
        else:
            numpy.random.seed(spec["l_seed"])
            n1 = int(numpy.random.poisson(numpy.sum(data)))
            if n1 > 20000:
                continue
            nsim_call, draws, kw = 1, str(n1), dict(seed=spec["l_seed"])
            rn = g.random((1, n1))
        label = f"_poisson_likelihood_test(use_observed_counts={u}, normalize_likelihood={nl})"
        try:
            qs, obs, td = pe._poisson_likelihood_test(data.copy(), cnt.astype(float), num_simulations=nsim_call, random_numbers=rn,
                                                      use_observed_counts=u, normalize_likelihood=nl, verbose=False, **kw)
            obs, td, qs = float(obs), [float(v) for v in td], float(qs)
        except Exception as e:
            run.oracle_failure(case, f"{label} raised {type(e).__name__}: {e}")
            continue
        run.count(f"array-level-u{int(u)}-n{int(nl)}")
        sims = [_sim_counts(rates, rn[k, :]) for k in range(nsim_call)]
        if len(td) != len(sims):
            run.oracle_failure(case, f"{label}: {len(td)} simulated entries for {len(sims)} simulations")
            continue
        impl_vals, scales = [], []
        for name, c1, val in [("observed", counts, obs)] + [(f"simulated[{k}]", sims[k], td[k]) for k in range(len(sims))]:
            ref, scale, zero_hit = _oracle(rates.tolist(), c1, u and nl)
            impl_vals.append(val)
            scales.append(scale)
            if (val == -math.inf) != zero_hit or (val != -math.inf and not _close(val, ref, scale)):
                run.oracle_failure(case, f"{label} {name}: value {val!r} != sum of log pmf {ref!r}")
        if len(rates) * max(1, rn.shape[1]) * rn.shape[0] <= CHAIN_BUDGET:
            rowtxt = ";".join(",".join(_bits(x) for x in row) for row in rn) if rn.shape[1] else "-"
            i = drv.ask(f"c05_run {int(u)} {int(nl)} {','.join(_bits(x) for x in rates)} {','.join(str(int(c)) for c in counts)} "
                        f"{draws} {nsim_call} {rowtxt}")
            gap = min([abs(v - obs) for v in td if not math.isinf(v - obs)] or [math.inf])
            pending.append((case, f"u{int(u)}n{int(nl)}", "array-level", i, impl_vals, scales,
                            dict(sims=[[int(c) for c in s1] for s1 in sims], quantile=qs, nsim=len(td),
                                 near_tie=gap <= 1e-7 * max(scales + [1.0]))))


def _cells_check(run, drv, pending, case, fore, cat, data, cnt):
    """poisson_spatial_likelihood: per-cell log pmf(w | rate * N_obs/N_fore). Checked where the definition is finite in
    every cell (all spatial rates positive, catalog not empty); elsewhere only counted (0*log 0 = nan, see notes)."""
    from csep.core import poisson_evaluations as pe
    from scipy.stats import poisson
    n = int(cnt.sum())
    srates = [math.fsum(r) for r in data.tolist()]
    try:
        with numpy.errstate(all="ignore"):
            poll = numpy.asarray(pe.poisson_spatial_likelihood(fore, cat), dtype=float)
    except Exception as e:
        run.oracle_failure(case, f"poisson_spatial_likelihood raised {type(e).__name__}: {e}")
        return
    if n == 0 or min(srates) <= 0.0:
        run.count("cells-outside-domain")
        run.extra["cells_nan_outside_domain"] = run.extra.get("cells_nan_outside_domain", 0) + int(numpy.isnan(poll).sum())
        return
    run.count("cells-checked")
    s = n / math.fsum(srates)
    w = cnt.sum(axis=1)
    lam = numpy.array([r * s for r in srates])
    ref = poisson.logpmf(w, lam)
    scales = [float(l + c * abs(math.log(l)) + math.lgamma(c + 1)) for l, c in zip(lam, w)]
    if poll.shape != ref.shape:
        run.oracle_failure(case, f"poisson_spatial_likelihood: shape {poll.shape} for {len(srates)} cells")
        return
    bad = [k for k in range(len(ref)) if not _close(float(poll[k]), float(ref[k]), scales[k])]
    if bad:
        k = bad[0]
        run.oracle_failure(case, f"poisson_spatial_likelihood cell {k}: {float(poll[k])!r} != log pmf {float(ref[k])!r}")
    i = drv.ask(f"c05_cells {_rows(data, _bits)} {_rows(cnt, lambda c: str(int(c)))}")
    pending.append((case, "cells", "poisson_spatial_likelihood", i, [float(x) for x in poll], scales, None))


def _flush_chain(run, case, mode, how, line, impl_vals, scales, extra):
    """chained model: `stats|simulated arrays|k:n`; session model: one value per test step of the history"""
    if "session_labels" in extra:
        toks = line.split(" ") if line != "-" else []
        model = [(-math.inf if t == "ninf" else _unbits(t)) if (t == "ninf" or t.isdigit()) else None for t in toks]
        if len(model) != len(impl_vals):
            run.mismatch(dict(case, mode=mode), dict(tests=len(impl_vals)), dict(tests=len(model), line=line[:200]))
            return
        run.count("session-history-compared-with-model")
        run.count("session-tests-compared-with-model", len(model))
        for lab, v, m, sc in zip(extra["session_labels"], impl_vals, model, scales):
            if m is None or not _close(v, m, sc):
                run.mismatch(dict(case, mode=mode, how=lab), repr(v), repr(m))
                return
        return
    parts = line.split("|")
    if len(parts) != 3:
        run.mismatch(dict(case, mode=mode, how=how), dict(values=[repr(v) for v in impl_vals]), line)
        return
    toks = parts[0].split(" ")
    model = [(-math.inf if t == "ninf" else _unbits(t)) if (t == "ninf" or t.isdigit()) else None for t in toks]
    arrs = [] if parts[1] == "-" else [[] if a == "-" else [int(x) for x in a.split(",")] for a in parts[1].split(";")]
    ok = len(model) == len(impl_vals) and all(m is not None and _close(v, m, s) for v, m, s in zip(impl_vals, model, scales))
    if not ok:
        run.mismatch(dict(case, mode=mode, how=how), [repr(v) for v in impl_vals], [repr(m) for m in model])
        return
    if arrs != extra["sims"]:
        run.mismatch(dict(case, mode=mode, how=how), dict(simulated_catalogs=extra["sims"]), dict(simulated_catalogs=arrs))
        return
    k, n = parts[2].split(":")
    if int(n) != extra["nsim"]:
        run.mismatch(dict(case, mode=mode, how=how), dict(nsim=extra["nsim"]), dict(nsim=int(n)))
    elif not extra["near_tie"] and extra["quantile"] != int(k) / int(n):
        run.mismatch(dict(case, mode=mode, how=how), dict(quantile=extra["quantile"]), dict(quantile=parts[2]))
    for v, m in zip(impl_vals, model):
        _track("model", v, m)


def _flush(run, drv, pending):
    out = drv.run()
    for case, mode, how, i, impl_vals, scales, extra in pending:
        if extra is not None:
            try:
                _flush_chain(run, case, mode, how, out[i], impl_vals, scales, extra)
            except Exception as e:
                run.oracle_failure(case, f"{mode}/{how}: output could not be compared with the model ({type(e).__name__}: {e})")
            continue
        toks = out[i].replace(",", " ").split(" ")
        model = [(-math.inf if t == "ninf" else _unbits(t)) if (t == "ninf" or t.isdigit()) else None for t in toks]
        ok = len(model) == len(impl_vals) and all(m is not None and _close(v, m, s)
                                                  for v, m, s in zip(impl_vals, model, scales))
        if not ok:
            run.mismatch(dict(case, mode=mode, how=how), [repr(v) for v in impl_vals], [repr(m) for m in model])
        else:
            for v, m in zip(impl_vals, model):
                _track("model", v, m)
    run.extra["max_rel_dev_impl_vs_oracle"] = _DEV["oracle"]
    run.extra["max_rel_dev_impl_vs_lean_float"] = _DEV["model"]
    pending.clear()


def _guarded_eval(run, drv, pending, spec, tag="gen"):
    """a harness crash is a missed detection: whatever goes wrong while implementation outputs are processed is reported as a
    deviation with the case as replay"""
    try:
        _eval_case(run, drv, pending, spec, tag=tag)
    except (KeyboardInterrupt, SystemExit):
        raise
    except Exception as e:
        run.oracle_failure(dict(spec=spec, tag=tag), f"output of the implementation could not be processed "
                                                     f"({type(e).__name__}: {str(e)[:200]})")


def run(run, rng, tier):
    drv, pending = Driver(), []
    n_cases = 1100 if tier == "quick" else 16000
    # fixed boundary cases first
    for spec in _corpus_specs():
        _guarded_eval(run, drv, pending, spec, tag="corpus")
    for spec in _fixed_specs():
        _guarded_eval(run, drv, pending, spec, tag="fixed")
    for k in range(n_cases):
        _guarded_eval(run, drv, pending, _gen_spec(rng, tier))
        if len(pending) >= 400:
            _flush(run, drv, pending)
            drv = Driver()
    _flush(run, drv, pending)
    # histories on shared objects (harness/c05_session.py)
    from . import c05_session
    drv = Driver()
    for k in range(70 if tier == "quick" else 900):
        spec = c05_session.gen_session(rng, tier)
        try:
            c05_session.eval_session(run, drv, pending, spec)
        except Exception as e:   # a harness crash is a missed detection: report with the session as replay
            run.oracle_failure(dict(session=spec), f"session could not be evaluated ({type(e).__name__}: {str(e)[:200]})")
        if len(pending) >= 400:
            _flush(run, drv, pending)
            drv = Driver()
    _flush(run, drv, pending)
    run.assumptions.append("events lie at interior points of cells / magnitude bins, at 1e-8..1e-4 below an upper edge, or exactly on a "
                           "lower magnitude edge; never inside the binning routine's round-off band just below an edge (~1e-14 "
                           "here; which bin such a point gets is C01/C02's subject)")
    run.assumptions.append("injected random numbers lie in [0, 1)")


def _corpus_specs():
    """minimised past failures / permanent witnesses: corpus/C05/*.json, each {"spec": {...}} (same layout as a replay case)"""
    import glob
    import json
    import os
    d = os.path.join(os.path.dirname(os.path.dirname(os.path.abspath(__file__))), "corpus", "C05")
    return [json.load(open(f))["spec"] for f in sorted(glob.glob(os.path.join(d, "*.json")))]


def _fixed_specs():
    """hand-made boundary cases: the suite's 2x2 all-ones example, a single cell, an event in a zero-rate bin whose
    marginals are positive, every event in one bin"""
    def spec(data, events, **kw):
        d = dict(ns=len(data), nm=len(data[0]), cls="fixed", ncls="fixed",
                 data=[[float(x).hex() for x in row] for row in data],
                 events=[[i, j, (0.5).hex(), (0.5).hex(), (0.5).hex()] for i, j in events],
                 nx=1, dh=0.1, x0=0.0, y0=0.0, m0=4.95, dm=0.1, nsim=2, rn_seed=1, l_seed=7, same_region=True,
                 rn_edge=False)
        d.update(kw)
        return d
    return [
        spec([[1.0, 1.0], [1.0, 1.0]], [(0, 0), (0, 1), (1, 0), (1, 1)]),
        spec([[2.5]], [(0, 0)] * 5),
        spec([[0.0, 1.0], [2.0, 3.0]], [(0, 0), (1, 1), (1, 1)]),       # L, CL = -inf; S and M finite
        spec([[0.0, 0.0], [2.0, 3.0]], [(0, 1), (1, 1)]),               # zero spatial marginal holds an event
        spec([[1e-12, 1e3], [1e3, 1e-12]], [(0, 0)] * 40),
        spec([[0.3, 0.7, 0.0]], []),
        # sizes: more than 65535 events in ONE bin (and in the catalog); more than 65536 bins (not a multiple of 65536)
        spec([[1000.0, 3.0], [5.0, 70000.0]], [(1, 1)] * 70001 + [(0, 0)] * 3, nsim=1, rn_seed=3),
        spec([[0.5 if (k % 7 == 0 and j == 3) else 1e-3 for j in range(7)] for k in range(10001)],
             [(k * 13 % 10001, k % 7) for k in range(40)], nx=100, nsim=1, rn_seed=7),
    ]


def replay(run, payload):
    case = payload["case"]
    drv, pending = Driver(), []
    if "session" in case:
        from . import c05_session
        c05_session.eval_session(run, drv, pending, case["session"], tag="replay")
        _flush(run, drv, pending)
        return
    spec = case["spec"] if "spec" in case else case
    _eval_case(run, drv, pending, spec, tag="replay")
    _flush(run, drv, pending)
